#!/bin/bash
# runs /repo's test suite (guard off: there are no hooks) and prints a one-line summary
cd /repo && cargo test --workspace --no-fail-fast --offline 2>&1 | awk '/^test result:/ {p+=$4; f+=$6; i+=$8} /^test .* FAILED/ {print} END {print "passed=" p, "failed=" f, "ignored=" i}'
