#!/usr/bin/env python3
"""mutresweep.py <out.jsonl> <jobs> <in.jsonl>... — re-runs the SURVIVOR mutants of earlier sweeps against the current
analyser (development aid). A mutant is re-located by the text of its line (lines move when the repository is repaired);
mutants whose line is gone are skipped. Only the analyser is run (compile check first), not the test suite: a mutant that
survived the suite before still does."""
import json, os, re, subprocess, sys, shutil
from concurrent.futures import ThreadPoolExecutor
import threading
REPO='/repo'; V='/verif'
out_path, jobs = sys.argv[1], int(sys.argv[2])
MS=os.environ.get('MS_DIR','/tmp/msr'); os.makedirs(MS, exist_ok=True)
BIN=MS+'/asnlint.frozen'; shutil.copy(f'{V}/tools/asnlint/target/release/asnlint', BIN)
BASE=MS+'/base'
subprocess.run(['rsync','-a','--delete','--exclude','target','--exclude','.git',REPO+'/',BASE+'/'],check=True)
VT=MS+'/verif'; os.makedirs(VT,exist_ok=True)
for d in ('ref','audit'): shutil.copytree(f'{V}/{d}',f'{VT}/{d}',dirs_exist_ok=True)
shutil.copy(f'{V}/known_findings.txt',VT)
seen=set(); muts=[]
for f in sys.argv[3:]:
    for l in open(f):
        try: r=json.loads(l)
        except Exception: continue
        if r.get('outcome')!='SURVIVOR': continue
        k=(r['file'],r['text'],r['op'])
        if k in seen: continue
        seen.add(k); muts.append(r)
print(len(muts),'survivors to re-run',flush=True)
PROPS=['C%02d'%i for i in range(1,21)]; MIR={'C08','C11','C12','C16','C20'}
lock=threading.Lock()
def emit(r):
    with lock:
        open(out_path,'a').write(json.dumps(r)+'\n')
        print(r['outcome'],r['file'].split('src/')[-1],r.get('line'),r['op'],'|',r['text'][:80],'|',r.get('by',''),flush=True)
def run(job, ms):
    base=f'{MS}/{job}'; scratch=f'{base}/repo'; tv=f'{base}/verif'; target=f'{base}/target'
    os.makedirs(tv,exist_ok=True)
    for d in ('ref','audit'): shutil.copytree(f'{VT}/{d}',f'{tv}/{d}',dirs_exist_ok=True)
    shutil.copy(f'{VT}/known_findings.txt',tv)
    env=dict(os.environ,CARGO_TARGET_DIR=target,RUSTFLAGS='-Awarnings',CARGO_NET_OFFLINE='true')
    for r0 in ms:
        pat,rep=r0['op'].split(' -> ',1)
        subprocess.run(['rsync','-a','--delete',BASE+'/',scratch+'/'],check=True)
        p=os.path.join(scratch,r0['file']); src=open(p).read()
        r={'file':r0['file'],'op':r0['op'],'text':r0['text']}
        # locate the line by its text
        idx=None
        for m in re.finditer(r'[^\n]*\n', src):
            if m.group(0).strip()[:160]==r0['text']:
                mm=re.search(pat, m.group(0))
                if mm: idx=(m.start()+mm.start(), m.start()+mm.end()); r['line']=src.count('\n',0,m.start())+1; break
        if idx is None:
            r['outcome']='gone'; emit(r); continue
        a,b=idx
        open(p,'w').write(src[:a]+re.sub(pat,rep,src[a:b],count=1)+src[b:])
        c=subprocess.run(['cargo','check','--offline','-q','--workspace','--all-targets'],cwd=scratch,env=env,capture_output=True,text=True)
        if c.returncode!=0:
            r['outcome']='no-compile'; emit(r); continue
        hit=[]
        for q in PROPS:
            if q in MIR: continue
            a2=subprocess.run([BIN,q,'--repo',scratch,'--verif',tv],capture_output=True,text=True)
            if a2.returncode!=0:
                keys=re.findall(r'\(key ([^)]*)\)',a2.stdout); hit.append((q,keys[0] if keys else '?'))
        r['outcome']='caught' if hit else 'SURVIVOR'
        if hit: r['by']=hit[:3]
        emit(r)
    shutil.rmtree(base,ignore_errors=True)
chunks=[muts[i::jobs] for i in range(jobs)]
with ThreadPoolExecutor(jobs) as ex: list(ex.map(lambda t: run(t[0],t[1]), enumerate(chunks)))
