#!/bin/bash
# seed_scratch.sh <patch.diff> <Cnn>... : applies a patch to a scratch copy of /repo (never /repo itself) and runs the given
# quick checks on it with a scratch evidence directory (development aid; everything is removed afterwards)
set -u
PATCH="$1"; shift
V=/verif
BIN=$V/tools/asnlint/target/release/asnlint
S=$(mktemp -d /tmp/seed-scratch.XXXXXX)
trap 'rm -rf "$S"' EXIT
rsync -a --exclude target --exclude .git /repo/ "$S/repo/"
( cd "$S/repo" && patch -p1 -s --no-backup-if-mismatch -i "$PATCH" ) || { echo "patch does not apply"; exit 2; }
mkdir -p "$S/verif"; cp -r $V/ref $V/audit $V/known_findings.txt "$S/verif/"
FACTS=""
for p in "$@"; do
  EX=""
  case "$p" in C08|C11|C12|C16|C20)
    if [ -z "$FACTS" ]; then FACTS="$S/facts.json"; $V/tools/run_mirscan.sh "$S/repo" "$FACTS" > "$S/mirscan.log" 2>&1; fi
    EX="--facts $FACTS";;
  esac
  $BIN "$p" --repo "$S/repo" --verif "$S/verif" $EX 2>&1 | grep -v "^KNOWN-FINDING" | grep -E "\(key |instances examined" | cut -c1-${WIDTH:-420} | head -${MAXL:-8}
done
