#!/bin/bash
# validate MANIFEST.json and every evidence file against the schemas (dev aid)
python3-vt - <<'PY'
import json,jsonschema,glob
jsonschema.validate(json.load(open('/verif/MANIFEST.json')),json.load(open('/root/.vp/MANIFEST.schema.json')))
s=json.load(open('/root/.vp/EVIDENCE.schema.json'))
for f in sorted(glob.glob('/verif/evidence/C*.json')):
    jsonschema.validate(json.load(open(f)),s)
    print('ok',f)
print('manifest ok')
PY
