#!/bin/bash
# seed_eval.sh <seed-id> : applies seeded/<seed-id>/patch.diff to /repo, runs every quick check, reverts /repo,
# and prints which properties raised a new VIOLATION (development aid; never leaves /repo modified)
set -u
ID="$1"
V=/verif
P="$V/seeded/$ID/patch.diff"
cd /repo
if ! git diff --quiet; then echo "/repo has uncommitted changes"; exit 2; fi
git apply "$P" || { echo "patch does not apply"; exit 2; }
trap 'git -C /repo checkout -- . ' EXIT
OUT="$V/.cache/seed-$ID.log"; : > "$OUT"
HIT=""
for p in C01 C02 C03 C04 C05 C06 C07 C08 C09 C10 C11 C12 C13 C14 C15 C16 C17 C18 C19 C20; do
  r=$("$V/check" $p --tier quick 2>&1)
  rc=$?
  if [ $rc -ne 0 ]; then
    HIT="$HIT $p"
    echo "== $p" >> "$OUT"; echo "$r" | grep -v "^KNOWN-FINDING\|^VIOLATION" | cut -c1-400 | head -6 >> "$OUT"
  fi
done
echo "seed $ID caught by:${HIT:- NONE}"
cat "$OUT" | head -${LINES_MAX:-14}
