#!/bin/bash
# usage: mutrun.sh <PROP> <file-rel> <python-regex-from> <to>   -- ad-hoc mutant on a scratch copy (dev aid only)
set -e
PROP=$1; FILE=$2; FROM=$3; TO=$4
S=/tmp/mutrepo.$$
mkdir -p $S
rsync -a --exclude target --exclude .git /repo/ $S/
python3 - "$S/$FILE" "$FROM" "$TO" <<'PY'
import sys,re
p,f,t=sys.argv[1:4]
s=open(p).read()
import os
n=re.subn(f,(t if os.environ.get('MUT_BACKREF') else (lambda m: t)),s,count=1,flags=re.S)
if n[1]==0: print("MUTATION DID NOT APPLY"); sys.exit(3)
open(p,'w').write(n[0])
PY
case "$PROP" in C08|C11|C12|C16|C20) /verif/tools/run_mirscan.sh $S /tmp/mutfacts.$$.json >/dev/null 2>&1 || echo "MUTANT DOES NOT COMPILE"; FACTS=/tmp/mutfacts.$$.json;; esac
mkdir -p /tmp/mutverif.$$; cp -r /verif/known_findings.txt /verif/ref /verif/audit /tmp/mutverif.$$/ 2>/dev/null
/verif/tools/asnlint/target/release/asnlint $PROP --repo $S --verif /tmp/mutverif.$$ ${FACTS:+--facts $FACTS} | grep -v "^KNOWN" | grep -E "\[C" | head -${HEAD:-6}
rm -rf $S /tmp/mutverif.$$ /tmp/mutfacts.$$.json
