//! E-TY: compile-fail witnesses (each paired with a compiling twin that differs only by the offending line).
//! Run with `cargo +nightly test --doc --offline` (the error code is only checked on nightly).

/// C20.ty — `compile()` does not exist before both sources and an output mode were given.
///
/// twin (compiles): sources and output mode set
/// ```no_run
/// use rasn_compiler::prelude::*;
/// let c = Compiler::<RasnBackend, _>::new()
///     .add_asn_literal("M DEFINITIONS ::= BEGIN END")
///     .set_output_mode(rasn_compiler::OutputMode::NoOutput);
/// let _ = c.compile();
/// ```
/// witness: no output mode yet -> no `compile`
/// ```compile_fail,E0599
/// use rasn_compiler::prelude::*;
/// let c = Compiler::<RasnBackend, _>::new()
///     .add_asn_literal("M DEFINITIONS ::= BEGIN END");
/// let _ = c.compile();
/// ```
/// witness: no sources yet -> neither `compile` nor `compile_to_string`
/// ```compile_fail,E0599
/// use rasn_compiler::prelude::*;
/// let c = Compiler::<RasnBackend, _>::new()
///     .set_output_mode(rasn_compiler::OutputMode::NoOutput);
/// let _ = c.compile();
/// ```
/// ```compile_fail,E0599
/// use rasn_compiler::prelude::*;
/// let c = Compiler::<RasnBackend, _>::new();
/// let _ = c.compile_to_string();
/// ```
/// twin (compiles): compile_to_string once sources are set
/// ```no_run
/// use rasn_compiler::prelude::*;
/// let c = Compiler::<RasnBackend, _>::new().add_asn_literal("M DEFINITIONS ::= BEGIN END");
/// let _ = c.compile_to_string();
/// ```
pub struct TypestateOfCompile;

/// C10.err — a failed compilation carries no bindings: `CompilerError` has no `generated` field,
/// and the Err side of the result is exactly `CompilerError`.
///
/// twin (compiles): bindings are reachable on the Ok side
/// ```no_run
/// use rasn_compiler::prelude::*;
/// let r: Result<rasn_compiler::CompileResult, CompilerError> =
///     Compiler::<RasnBackend, _>::new().add_asn_literal("x").compile_to_string();
/// if let Ok(ok) = r { let _: String = ok.generated; }
/// ```
/// witness: nothing like it on the Err side
/// ```compile_fail,E0609
/// use rasn_compiler::prelude::*;
/// let r: Result<rasn_compiler::CompileResult, CompilerError> =
///     Compiler::<RasnBackend, _>::new().add_asn_literal("x").compile_to_string();
/// if let Err(e) = r { let _ = e.generated; }
/// ```
/// witness: compile() returns only warnings or an error, never text
/// ```compile_fail,E0308
/// use rasn_compiler::prelude::*;
/// let r = Compiler::<RasnBackend, _>::new()
///     .add_asn_literal("x")
///     .set_output_mode(rasn_compiler::OutputMode::NoOutput)
///     .compile();
/// let _: Result<String, CompilerError> = r;
/// ```
pub struct ErrCarriesNothing;
