#!/bin/bash
# thorough.sh <PROP> <REPO> [--facts F]
# thorough tier = the quick rules on the current tree
#   + checker self-test: every mutant of selftest/corpus.json for this property (regex edits and the seeded changes of seeded/*/patch.diff) is applied to a scratch copy of the
#     repository (outside /repo and /verif), must still compile (cargo check), and the rule must fire with the expected key;
#   + E-TY compile_fail witnesses (C10, C20);
# scratch copies and their build output are removed before the script returns.
set -u
PROP="$1"; REPO="$2"; shift 2
VERIF="$(cd "$(dirname "$0")/.." && pwd)"
ASNLINT="$VERIF/tools/asnlint/target/release/asnlint"
export CARGO_NET_OFFLINE=true
S="$(mktemp -d /tmp/verif-selftest.XXXXXX)"
trap 'rm -rf "$S"' EXIT
RESULT="$S/selftest.json"
NEEDS_MIR=0
case "$PROP" in C08|C11|C12|C16|C20) NEEDS_MIR=1;; esac

python3 - "$VERIF" "$PROP" "$REPO" "$S" "$NEEDS_MIR" "$ASNLINT" <<'PY'
import json, os, re, subprocess, sys, shutil
verif, prop, repo, S, needs_mir, asnlint = sys.argv[1:7]
corpus = [m for m in json.load(open(os.path.join(verif, 'selftest/corpus.json'))) if m['property'] == prop]
results = []
tv = os.path.join(S, 'verif'); os.makedirs(tv, exist_ok=True)
for d in ('ref', 'audit'):
    shutil.copytree(os.path.join(verif, d), os.path.join(tv, d), dirs_exist_ok=True)
shutil.copy(os.path.join(verif, 'known_findings.txt'), tv)
target = os.path.join(S, 'target')
for m in corpus:
    scratch = os.path.join(S, 'repo')
    subprocess.run(['rsync', '-a', '--delete', '--exclude', 'target', '--exclude', '.git', repo.rstrip('/') + '/', scratch + '/'], check=True)
    r = {'id': m['id'], 'expect': m['expect']}
    if 'patch' in m:
        # a seeded change (seeded/<id>/patch.diff, written by an independent sub-agent)
        pr = subprocess.run(['patch', '-p1', '-s', '--no-backup-if-mismatch', '-i', os.path.join(verif, m['patch'])], cwd=scratch, capture_output=True, text=True)
        if pr.returncode != 0:
            r['outcome'] = 'not-applicable'   # the patched code has changed since the seed was written
            results.append(r); continue
    else:
        path = os.path.join(scratch, m['file'])
        src = open(path).read()
        new, n = re.subn(m['from'], lambda _: m['to'], src, count=1, flags=re.S)
        if n == 0:
            r['outcome'] = 'not-applicable'   # the anchor text is gone (the tree changed): not a checker failure
            results.append(r); continue
        open(path, 'w').write(new)
    c = subprocess.run(['cargo', 'check', '--offline', '-q', '--workspace', '--all-targets'], cwd=scratch, env=dict(os.environ, CARGO_TARGET_DIR=target, RUSTFLAGS='-Awarnings'), capture_output=True, text=True)
    if c.returncode != 0:
        r['outcome'] = 'mutant-does-not-compile'
        results.append(r); continue
    args = [asnlint, prop, '--repo', scratch, '--verif', tv]
    if needs_mir == '1':
        facts = os.path.join(S, 'facts.json')
        if os.path.exists(facts): os.remove(facts)
        subprocess.run([os.path.join(verif, 'tools/run_mirscan.sh'), scratch, facts], capture_output=True, text=True)
        args += ['--facts', facts]
    a = subprocess.run(args, capture_output=True, text=True)
    fired = [l for l in a.stdout.splitlines() if '(key ' in l and m['expect'] in l and not l.startswith('KNOWN-FINDING')]
    r['outcome'] = 'fired' if (a.returncode == 1 and fired) else 'MISSED'
    r['report'] = (fired[0][:240] if fired else a.stdout[-300:])
    results.append(r)
json.dump(results, open(os.path.join(S, 'selftest.json'), 'w'), indent=1)
n = len([r for r in results if r['outcome'] in ('fired', 'MISSED')])
k = len([r for r in results if r['outcome'] == 'fired'])
print(f"selftest {prop}: fired {k}/{n} ({len(results) - n} skipped)")
for r in results:
    if r['outcome'] != 'fired': print('  ', r['id'], r['outcome'])
PY

WIT_RC=0
WITNESS_NOTE=""
if [ "$PROP" = "C10" ] || [ "$PROP" = "C20" ]; then
  W="$S/witness"
  rsync -a --exclude target "$VERIF/tools/witness/" "$W/"
  cp "$REPO/Cargo.lock" "$W/Cargo.lock"
  sed -i "s#path = \"/repo/rasn-compiler\"#path = \"$REPO/rasn-compiler\"#" "$W/Cargo.toml"
  ( cd "$W" && CARGO_TARGET_DIR="$S/wtarget" cargo +nightly test --doc --offline 2>&1 | tail -15 ) > "$S/witness.log"
  if grep -q "test result: ok" "$S/witness.log" && ! grep -q "FAILED" "$S/witness.log"; then
    WITNESS_NOTE="witnesses: $(grep -o '[0-9]* passed' "$S/witness.log" | head -1)"
  else
    WIT_RC=1; WITNESS_NOTE="witness doc-tests FAILED"; cat "$S/witness.log"
  fi
  echo "$WITNESS_NOTE"
fi

ASNLINT_SELFTEST="$RESULT" ASNLINT_WITNESS="$WITNESS_NOTE" "$ASNLINT" "$PROP" --tier thorough --repo "$REPO" --verif "$VERIF" "$@"
RC=$?
MISSED=$(python3 -c "import json,sys; print(len([r for r in json.load(open('$RESULT')) if r['outcome']=='MISSED']))" 2>/dev/null || echo 0)
if [ "$WIT_RC" != 0 ]; then
  echo "VIOLATION property=$PROP replay=$VERIF/tools/witness/src/lib.rs"
  exit 1
fi
if [ "$MISSED" != 0 ]; then
  echo "selftest: $MISSED mutant(s) not detected by the rule they were written for (checker regression)"
  echo "VIOLATION property=$PROP replay=$VERIF/selftest/corpus.json"
  exit 1
fi
exit $RC
