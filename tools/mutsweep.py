#!/usr/bin/env python3
"""mutsweep.py — development aid: where do the checks not look?

Generates single-token mutants of the repository's non-test sources (comparison / boolean / arithmetic operator flips,
constant nudges, min<->max, is_some<->is_none, dropped negations), and for each one that still compiles runs every
check's analyser on a scratch copy (frozen analyser binary, scratch verif dir). Only mutants that NO check reports are
then run against the repository's test suite; the ones that also pass the suite are printed as SURVIVOR for manual
triage (many are equivalent or irrelevant to the 20 properties — this is a blind-spot finder, not a verdict).

usage: mutsweep.py <out.jsonl> <jobs> <max-per-file> <file-rel>...
Scratch copies live under /tmp/ms/<job>/ and are removed at the end.
"""
import json, os, re, subprocess, sys, shutil, random, hashlib
from concurrent.futures import ThreadPoolExecutor

REPO = '/repo'
V = '/verif'
out_path, jobs, max_per_file = sys.argv[1], int(sys.argv[2]), int(sys.argv[3])
files = sys.argv[4:]
BIN = os.environ.get('MS_DIR', '/tmp/ms') + '/asnlint.frozen'
MS = os.environ.get('MS_DIR', '/tmp/ms'); os.makedirs(MS, exist_ok=True)
shutil.copy(f'{V}/tools/asnlint/target/release/asnlint', BIN)
# a frozen copy of the repository and of the tables: the sweep is not disturbed by later commits or edits
BASE = MS + '/base'
subprocess.run(['rsync', '-a', '--delete', '--exclude', 'target', '--exclude', '.git', REPO + '/', BASE + '/'], check=True)
VT = MS + '/verif'
os.makedirs(VT, exist_ok=True)
for d in ('ref', 'audit'):
    shutil.copytree(f'{V}/{d}', f'{VT}/{d}', dirs_exist_ok=True)
shutil.copy(f'{V}/known_findings.txt', VT)

OPS = [
    (r' == ', ' != '), (r' != ', ' == '), (r' < ', ' <= '), (r' <= ', ' < '), (r' > ', ' >= '), (r' >= ', ' > '),
    (r' && ', ' || '), (r' \|\| ', ' && '), (r' \+ 1\b', ' + 2'), (r' - 1\b', ' - 2'), (r' \+ 1\b', ''),
    (r'\.min\(', '.max('), (r'\.max\(', '.min('), (r'\.is_some\(\)', '.is_none()'), (r'\.is_none\(\)', '.is_some()'),
    (r'\.is_empty\(\)', '.is_empty() == false'), (r'\btrue\b', 'false'), (r'\bfalse\b', 'true'),
    (r'\.any\(', '.all('), (r'\.all\(', '.any('), (r'\.first\(\)', '.last()'), (r'\.last\(\)', '.first()'),
    (r'\bSome\(0\)', 'Some(1)'), (r'unwrap_or\(0\)', 'unwrap_or(1)'), (r'unwrap_or\(usize::MAX\)', 'unwrap_or(0)'),
    (r'\.skip\(1\)', '.skip(0)'), (r'\.rev\(\)', ''), (r'if !', 'if '),
    # statement deletion: a forgotten update of a collection / a forgotten assignment to a field
    (r'(?m)^[ \t]+[\w\.]+\.(?:push|insert|extend|append|retain|sort\w*|dedup\w*|clear|remove|push_str|truncate)\([^\n]*\);\n', ''),
    (r'(?m)^[ \t]+(?:self\.)?\w+(?:\.\w+)+ = [^\n]*;\n', ''),
    (r' \+ ', ' - '), (r' - ', ' + '), (r'\.unwrap_or\(true\)', '.unwrap_or(false)'), (r'\.unwrap_or\(false\)', '.unwrap_or(true)'),
    (r'\.take\(', '.skip(0).take(1 + '), (r'\.flatten\(\)', '.take(1).flatten()'),
]

def mutants_of(rel):
    src = open(os.path.join(BASE, rel)).read()
    import re as _re
    mt = _re.search(r'#\[cfg\(test\)\]\s*(?:pub )?mod \w+\s*\{', src)
    body_end = mt.start() if mt else len(src)
    ms = []
    for (pat, rep) in OPS:
        for m in re.finditer(pat, src[:body_end]):
            ls = src.rfind('\n', 0, m.start()) + 1
            le = src.find('\n', m.start())
            line = src[ls:le]
            st = line.strip()
            if st.startswith('//') or st.startswith('#[') or 'assert' in st or 'debug' in st.lower():
                continue
            lineno = src.count('\n', 0, m.start()) + 1
            ms.append((rel, lineno, pat, rep, m.start(), m.end()))
    random.Random(hashlib.md5((rel + os.environ.get('MS_SEED', '')).encode()).hexdigest()).shuffle(ms)
    return ms[:max_per_file]

allm = []
for f in files:
    allm.extend(mutants_of(f))
print(f'{len(allm)} mutants', flush=True)

PROPS = ['C%02d' % i for i in range(1, 21)]
MIR = {'C08', 'C11', 'C12', 'C16', 'C20'}

def run(job, muts):
    base = f'{MS}/{job}'
    scratch = f'{base}/repo'; tv = f'{base}/verif'; target = f'{base}/target'
    os.makedirs(tv, exist_ok=True)
    for d in ('ref', 'audit'):
        shutil.copytree(f'{VT}/{d}', f'{tv}/{d}', dirs_exist_ok=True)
    shutil.copy(f'{VT}/known_findings.txt', tv)
    env = dict(os.environ, CARGO_TARGET_DIR=target, RUSTFLAGS='-Awarnings', CARGO_NET_OFFLINE='true')
    res = []
    for (rel, lineno, pat, rep, a, b) in muts:
        subprocess.run(['rsync', '-a', '--delete', BASE + '/', scratch + '/'], check=True)
        p = os.path.join(scratch, rel)
        src = open(p).read()
        new = src[:a] + re.sub(pat, rep, src[a:b], count=1) + src[b:]
        open(p, 'w').write(new)
        ls = src.rfind('\n', 0, a) + 1; le = src.find('\n', a)
        r = {'file': rel, 'line': lineno, 'op': f'{pat} -> {rep}', 'text': src[ls:le].strip()[:160]}
        c = subprocess.run(['cargo', 'check', '--offline', '-q', '--workspace', '--all-targets'], cwd=scratch, env=env, capture_output=True, text=True)
        if c.returncode != 0:
            r['outcome'] = 'no-compile'; res.append(r); emit(r); continue
        hit = []
        for q in PROPS:
            if q in MIR:
                continue
            a2 = subprocess.run([BIN, q, '--repo', scratch, '--verif', tv], capture_output=True, text=True)
            if a2.returncode != 0:
                keys = re.findall(r'\(key ([^)]*)\)', a2.stdout)
                hit.append((q, keys[0] if keys else '?'))
        if hit:
            r['outcome'] = 'caught'; r['by'] = hit[:4]; res.append(r); emit(r); continue
        t = subprocess.run(['cargo', 'test', '--offline', '-q', '--workspace', '--no-fail-fast'], cwd=scratch, env=env, capture_output=True, text=True)
        failed = 'test result: FAILED' in t.stdout or t.returncode != 0
        if failed:
            r['outcome'] = 'killed-by-suite'; res.append(r); emit(r); continue
        # last resort: the MIR-based checks
        facts = f'{base}/facts.json'
        if os.path.exists(facts): os.remove(facts)
        subprocess.run([f'{V}/tools/run_mirscan.sh', scratch, facts], capture_output=True, text=True)
        for q in sorted(MIR):
            a2 = subprocess.run([BIN, q, '--repo', scratch, '--verif', tv, '--facts', facts], capture_output=True, text=True)
            if a2.returncode != 0:
                keys = re.findall(r'\(key ([^)]*)\)', a2.stdout)
                hit.append((q, keys[0] if keys else '?'))
        r['outcome'] = 'caught' if hit else 'SURVIVOR'
        if hit: r['by'] = hit[:4]
        res.append(r); emit(r)
    shutil.rmtree(base, ignore_errors=True)
    return res

import threading
lock = threading.Lock()
def emit(r):
    with lock:
        with open(out_path, 'a') as f:
            f.write(json.dumps(r) + '\n')
        print(r['outcome'], r['file'], r['line'], r['op'], '|', r['text'][:90], '|', r.get('by', ''), flush=True)

chunks = [allm[i::jobs] for i in range(jobs)]
with ThreadPoolExecutor(jobs) as ex:
    list(ex.map(lambda t: run(t[0], t[1]), enumerate(chunks)))
