//! SRC-G: a *concrete* interpreter for the nom combinator expressions of a grammar production, run on a list of abstract
//! tokens. It answers one question the value-level evaluations cannot: which *tree* does a production build for a given
//! token sequence (associativity, precedence, which component ends up in which field). Keywords and punctuation are
//! `Tok::Word`s compared with the resolved argument of `tag` / `char`; the productions named as leaves consume one
//! `Tok::Leaf` and return the value the caller supplied for it. Conversions (`into`, `map`, `value`) are evaluated by the
//! syntax-tree evaluator from the crate's own `From` impls and closures. Anything outside the modelled combinator set stops
//! the analysis with an error (fail closed).
use crate::eval::{Env, Evaluator, Val};
use crate::model::{tok, FnInfo, Model};
use std::collections::BTreeMap;

#[derive(Clone, Debug, PartialEq)]
pub enum Tok {
    Word(String),
    Leaf(usize),
}

pub struct Grammar<'a> {
    pub m: &'a Model,
    pub ev: &'a Evaluator<'a>,
    /// productions *returning* one of these types are leaves (consume one `Tok::Leaf(i)`, yield `leaf_vals[i]`)
    pub leaves: Vec<&'a str>,
    pub leaf_vals: Vec<Val>,
    pub consts: &'a dyn Fn(&str) -> Option<Val>,
}

type PResult = Result<Option<(Val, usize)>, String>;

pub fn ret_type_name(f: &FnInfo) -> Option<String> {
    // ParserResult<'_, T> -> T
    let syn::ReturnType::Type(_, ty) = &f.sig.output else { return None };
    let syn::Type::Path(p) = &**ty else { return None };
    let seg = p.path.segments.last()?;
    let syn::PathArguments::AngleBracketed(ab) = &seg.arguments else { return None };
    ab.args.iter().filter_map(|a| match a { syn::GenericArgument::Type(syn::Type::Path(tp)) => tp.path.segments.last().map(|s| s.ident.to_string()), _ => None }).last()
}

impl<'a> Grammar<'a> {
    pub fn production(&self, name: &str) -> Result<&'a FnInfo, String> {
        let c: Vec<&FnInfo> = self.m.fns.iter().filter(|f| f.name == name && f.self_ty.is_none() && f.module.starts_with("lexer") && !f.module.contains("tests")).collect();
        match c.len() {
            1 => Ok(c[0]),
            n => Err(format!("production `{}`: {} definitions in the lexer", name, n)),
        }
    }

    pub fn parse_production(&self, name: &str, toks: &[Tok], pos: usize, depth: usize) -> PResult {
        if depth > 40 {
            return Err(format!("production `{}`: nesting deeper than 40 (left recursion?)", name));
        }
        let f = self.production(name)?;
        if ret_type_name(f).map(|t| self.leaves.contains(&t.as_str())).unwrap_or(false) {
            return Ok(match toks.get(pos) {
                Some(Tok::Leaf(i)) => self.leaf_vals.get(*i).cloned().map(|v| (v, pos + 1)),
                _ => None,
            });
        }
        let body = match f.block.stmts.as_slice() {
            [syn::Stmt::Expr(e, None)] => e,
            _ => return Err(format!("production `{}` is not a single combinator expression", name)),
        };
        let ret = ret_type_name(f);
        self.parse_expr(body, ret.as_deref(), toks, pos, depth + 1)
    }

    fn word(&self, e: &syn::Expr) -> Result<String, String> {
        match e {
            syn::Expr::Lit(l) => match &l.lit {
                syn::Lit::Str(s) => Ok(s.value()),
                syn::Lit::Char(c) => Ok(c.value().to_string()),
                o => Err(format!("token literal {}", tok(o))),
            },
            syn::Expr::Path(p) => {
                let n = tok(p).replace(' ', "");
                match (self.consts)(&n) {
                    Some(Val::Str(s)) => Ok(s),
                    Some(Val::Char(c)) => Ok(c.to_string()),
                    o => Err(format!("token constant {} = {:?}", n, o.map(|x| x.show()))),
                }
            }
            syn::Expr::Reference(r) => self.word(&r.expr),
            syn::Expr::Paren(p) => self.word(&p.expr),
            o => Err(format!("token argument {}", tok(o))),
        }
    }

    fn seq(&self, parts: &[&syn::Expr], toks: &[Tok], mut pos: usize, depth: usize) -> Result<Option<(Vec<Val>, usize)>, String> {
        let mut out = vec![];
        for p in parts {
            match self.parse_expr(p, None, toks, pos, depth)? {
                Some((v, np)) => {
                    out.push(v);
                    pos = np;
                }
                None => return Ok(None),
            }
        }
        Ok(Some((out, pos)))
    }

    fn apply(&self, f: &syn::Expr, v: Val) -> Result<Val, String> {
        match f {
            syn::Expr::Path(p) => {
                let last = p.path.segments.last().map(|s| s.ident.to_string()).unwrap_or_default();
                if last.chars().next().map(|c| c.is_uppercase()).unwrap_or(false) {
                    Ok(Val::Ctor(last, vec![v], BTreeMap::new()))
                } else if last == "from" || last == "into" {
                    let ty = p.path.segments.iter().rev().nth(1).map(|s| s.ident.to_string());
                    self.convert(ty.as_deref(), v)
                } else {
                    Err(format!("map with the function `{}`", tok(p)))
                }
            }
            syn::Expr::Closure(_) => self.ev.apply_closure(f, &[v], &Env::new()),
            o => Err(format!("map with `{}`", tok(o))),
        }
    }

    /// `into`: the crate's own `From<..> for <target>` evaluated on the parsed value
    fn convert(&self, target: Option<&str>, v: Val) -> Result<Val, String> {
        let Some(target) = target else { return Err("into(): target type unknown".into()) };
        let arity = match &v { Val::Tuple(t) => t.len(), _ => 1 };
        let cands: Vec<&FnInfo> = self.m.fns.iter().filter(|f| f.name == "from" && f.self_ty.as_deref() == Some(target) && !f.module.contains("tests")).filter(|f| {
            f.sig.inputs.iter().any(|a| match a {
                syn::FnArg::Typed(t) => match &*t.ty { syn::Type::Tuple(tt) => tt.elems.len() == arity, _ => arity == 1 },
                _ => false,
            })
        }).collect();
        if cands.len() != 1 {
            return Err(format!("into(): {} `From` impls for {} take {} component(s)", cands.len(), target, arity));
        }
        let f = cands[0];
        let p = f.sig.inputs.iter().filter_map(|a| match a { syn::FnArg::Typed(t) => Some(tok(&t.pat).replace("mut ", "")), _ => None }).next().unwrap_or("value".into());
        let mut env = Env::new();
        env.insert(p, v);
        self.ev.eval_fn_body(&f.block, &mut env)
    }

    pub fn parse_expr(&self, e: &syn::Expr, ret: Option<&str>, toks: &[Tok], pos: usize, depth: usize) -> PResult {
        match e {
            syn::Expr::Paren(p) => self.parse_expr(&p.expr, ret, toks, pos, depth),
            syn::Expr::MethodCall(mc) if mc.method == "parse" => self.parse_expr(&mc.receiver, ret, toks, pos, depth),
            syn::Expr::Tuple(t) => {
                let parts: Vec<&syn::Expr> = t.elems.iter().collect();
                Ok(self.seq(&parts, toks, pos, depth)?.map(|(v, p)| (Val::Tuple(v), p)))
            }
            syn::Expr::Path(p) => {
                let name = p.path.segments.last().map(|s| s.ident.to_string()).unwrap_or_default();
                self.parse_production(&name, toks, pos, depth)
            }
            syn::Expr::Call(c) => {
                let name = match &*c.func { syn::Expr::Path(p) => p.path.segments.last().map(|s| s.ident.to_string()).unwrap_or_default(), o => return Err(format!("parser call `{}`", tok(o))) };
                let args: Vec<&syn::Expr> = c.args.iter().collect();
                let tuple_args = |i: usize| -> Result<Vec<&syn::Expr>, String> {
                    match args.get(i) { Some(syn::Expr::Tuple(t)) => Ok(t.elems.iter().collect()), o => Err(format!("`{}` expects a tuple of parsers, got {:?}", name, o.map(|x| tok(*x)))) }
                };
                match name.as_str() {
                    "into" => match self.parse_expr(args[0], None, toks, pos, depth)? {
                        Some((v, p)) => Ok(Some((self.convert(ret, v)?, p))),
                        None => Ok(None),
                    },
                    "alt" => {
                        for a in tuple_args(0)? {
                            if let Some(r) = self.parse_expr(a, None, toks, pos, depth)? {
                                return Ok(Some(r));
                            }
                        }
                        Ok(None)
                    }
                    "map" | "map_res" if args.len() == 2 => match self.parse_expr(args[0], None, toks, pos, depth)? {
                        Some((v, p)) => Ok(Some((self.apply(args[1], v)?, p))),
                        None => Ok(None),
                    },
                    "value" if args.len() == 2 => match self.parse_expr(args[1], None, toks, pos, depth)? {
                        Some((_, p)) => Ok(Some((self.ev.eval(args[0], &mut Env::new())?, p))),
                        None => Ok(None),
                    },
                    "tag" | "tag_no_case" | "char" if args.len() == 1 => {
                        let w = self.word(args[0])?;
                        Ok(match toks.get(pos) { Some(Tok::Word(t)) if *t == w => Some((Val::Str(w), pos + 1)), _ => None })
                    }
                    "skip_ws_and_comments" | "skip_ws" | "cut" | "complete" | "recognize" if args.len() == 1 => self.parse_expr(args[0], ret, toks, pos, depth),
                    "opt" if args.len() == 1 => Ok(Some(match self.parse_expr(args[0], None, toks, pos, depth)? {
                        Some((v, p)) => (Val::some(v), p),
                        None => (Val::none(), pos),
                    })),
                    "peek" if args.len() == 1 => Ok(self.parse_expr(args[0], None, toks, pos, depth)?.map(|(v, _)| (v, pos))),
                    "not" if args.len() == 1 => Ok(match self.parse_expr(args[0], None, toks, pos, depth)? { Some(_) => None, None => Some((Val::Unit, pos)) }),
                    "pair" if args.len() == 2 => Ok(self.seq(&args, toks, pos, depth)?.map(|(v, p)| (Val::Tuple(v), p))),
                    "preceded" if args.len() == 2 => Ok(self.seq(&args, toks, pos, depth)?.map(|(mut v, p)| (v.remove(1), p))),
                    "terminated" if args.len() == 2 => Ok(self.seq(&args, toks, pos, depth)?.map(|(mut v, p)| (v.remove(0), p))),
                    "delimited" if args.len() == 3 => Ok(self.seq(&args, toks, pos, depth)?.map(|(mut v, p)| (v.remove(1), p))),
                    "separated_pair" if args.len() == 3 => Ok(self.seq(&args, toks, pos, depth)?.map(|(mut v, p)| { let b = v.remove(2); let a = v.remove(0); (Val::Tuple(vec![a, b]), p) })),
                    "many0" | "many1" if args.len() == 1 => {
                        let mut out = vec![];
                        let mut p = pos;
                        while let Some((v, np)) = self.parse_expr(args[0], None, toks, p, depth)? {
                            if np == p { break; }
                            out.push(v);
                            p = np;
                        }
                        Ok(if name == "many1" && out.is_empty() { None } else { Some((Val::List(out), p)) })
                    }
                    "separated_list0" | "separated_list1" if args.len() == 2 => {
                        let mut out = vec![];
                        let mut p = pos;
                        if let Some((v, np)) = self.parse_expr(args[1], None, toks, p, depth)? {
                            out.push(v);
                            p = np;
                            loop {
                                let Some((_, sp)) = self.parse_expr(args[0], None, toks, p, depth)? else { break };
                                let Some((v, np)) = self.parse_expr(args[1], None, toks, sp, depth)? else { break };
                                if np == p { break; }
                                out.push(v);
                                p = np;
                            }
                        }
                        Ok(if name == "separated_list1" && out.is_empty() { None } else { Some((Val::List(out), p)) })
                    }
                    _ if args.is_empty() || self.production(&name).is_ok() => {
                        if !args.is_empty() {
                            // a wrapper production taking a parser (in_parentheses(..), in_braces(..)) is not modelled
                            return Err(format!("parameterised production `{}`", name));
                        }
                        self.parse_production(&name, toks, pos, depth)
                    }
                    _ => Err(format!("combinator `{}` is not modelled", name)),
                }
            }
            o => Err(format!("parser expression `{}`", tok(o).chars().take(80).collect::<String>())),
        }
    }
}
