//! Source model: every non-test fn, enum, struct, const and static of the
//! analysed crates, parsed with syn from the *unexpanded* source.
use proc_macro2::{Delimiter, TokenStream, TokenTree};
use quote::ToTokens;
use std::collections::BTreeMap;
use std::path::{Path, PathBuf};
use syn::punctuated::Punctuated;
use syn::visit::Visit;

#[derive(Clone)]
pub struct FnInfo {
    /// `module::path::[SelfTy::]name`, trait impls as `module::<SelfTy as Trait>::name`
    pub key: String,
    pub name: String,
    pub self_ty: Option<String>,
    pub trait_: Option<String>,
    pub module: String,
    pub file: String,
    pub krate: String,
    pub sig: syn::Signature,
    pub block: syn::Block,
    pub vis_pub: bool,
    pub line: usize,
    /// the impl header's self type as written (`Compiler<B, CompilerReady>`), for methods
    pub impl_ty: Option<String>,
}

#[derive(Clone, Debug)]
pub struct EnumInfo {
    pub name: String,
    pub module: String,
    pub file: String,
    pub variants: Vec<String>,
    pub variant_fields: BTreeMap<String, Vec<(String, String)>>,
}

#[derive(Clone, Debug)]
pub struct StructInfo {
    pub name: String,
    pub module: String,
    pub file: String,
    pub line: usize,
    /// (field name or index, type tokens, is_pub)
    pub fields: Vec<(String, String, bool)>,
}

#[derive(Clone)]
pub struct ConstInfo {
    pub name: String,
    pub owner: Option<String>,
    /// enclosing fn key for items declared inside fn bodies
    pub in_fn: Option<String>,
    pub module: String,
    pub file: String,
    pub line: usize,
    pub ty: String,
    pub expr: syn::Expr,
    pub is_static: bool,
    pub mutable: bool,
}

#[derive(Clone)]
pub struct MacroDef {
    pub name: String,
    pub module: String,
    pub file: String,
    pub line: usize,
    pub tokens: TokenStream,
}

pub struct SrcFile {
    pub rel: String,
    pub krate: String,
    pub module: String,
    pub text: String,
}

#[derive(Default)]
pub struct Model {
    pub repo: PathBuf,
    pub files: Vec<SrcFile>,
    pub fns: Vec<FnInfo>,
    pub enums: Vec<EnumInfo>,
    pub structs: Vec<StructInfo>,
    pub consts: Vec<ConstInfo>,
    pub macros: Vec<MacroDef>,
    pub test_fns: usize,
}

pub fn tok<T: ToTokens>(t: &T) -> String {
    norm_tokens(&t.to_token_stream().to_string())
}

/// proc_macro2's Display spacing is not stable across versions; normalise.
pub fn norm_tokens(s: &str) -> String {
    let mut out = String::with_capacity(s.len());
    let mut prev_space = false;
    for c in s.chars() {
        if c.is_whitespace() {
            if !prev_space {
                out.push(' ');
            }
            prev_space = true;
        } else {
            out.push(c);
            prev_space = false;
        }
    }
    let out = out.trim().to_string();
    // remove spaces around punctuation that Display inserts inconsistently
    let mut r = String::with_capacity(out.len());
    let cs: Vec<char> = out.chars().collect();
    for (i, &c) in cs.iter().enumerate() {
        if c == ' ' {
            let p = if i > 0 { cs[i - 1] } else { ' ' };
            let n = if i + 1 < cs.len() { cs[i + 1] } else { ' ' };
            let is_w = |x: char| x.is_alphanumeric() || x == '_' || x == '"' || x == '\'';
            if is_w(p) && is_w(n) {
                r.push(' ');
            }
            continue;
        }
        r.push(c);
    }
    r
}

pub fn line_of(span: proc_macro2::Span) -> usize {
    span.start().line
}

fn has_cfg_test(attrs: &[syn::Attribute]) -> bool {
    attrs.iter().any(|a| {
        if a.path().is_ident("cfg") {
            let s = a.meta.to_token_stream().to_string();
            s.contains("test") && !s.contains("not")
        } else {
            a.path().is_ident("test")
        }
    })
}

fn type_name(t: &syn::Type) -> String {
    match t {
        syn::Type::Path(p) => p
            .path
            .segments
            .last()
            .map(|s| s.ident.to_string())
            .unwrap_or_default(),
        syn::Type::Reference(r) => format!("&{}", type_name(&r.elem)),
        other => tok(other),
    }
}

struct Loader<'a> {
    m: &'a mut Model,
    file: String,
    krate: String,
    module: Vec<String>,
    cur_impl_ty: Option<String>,
}

impl<'a> Loader<'a> {
    fn modpath(&self) -> String {
        self.module.join("::")
    }

    fn add_fn(
        &mut self,
        sig: &syn::Signature,
        block: &syn::Block,
        self_ty: Option<String>,
        trait_: Option<String>,
        vis_pub: bool,
    ) {
        let name = sig.ident.to_string();
        let has_self = self_ty.is_some();
        let module = self.modpath();
        let mut key = module.clone();
        if let Some(st) = &self_ty {
            if !key.is_empty() {
                key.push_str("::");
            }
            match &trait_ {
                Some(t) => key.push_str(&format!("<{} as {}>", st, t)),
                None => key.push_str(st),
            }
        }
        if !key.is_empty() {
            key.push_str("::");
        }
        key.push_str(&name);
        let fi = FnInfo {
            key: key.clone(),
            name,
            self_ty,
            trait_,
            module,
            file: self.file.clone(),
            krate: self.krate.clone(),
            sig: sig.clone(),
            block: block.clone(),
            vis_pub,
            line: line_of(sig.ident.span()),
            impl_ty: if has_self { self.cur_impl_ty.clone() } else { None },
        };
        // items nested in the fn body (statics, consts, inner fns)
        let mut inner = InnerItems {
            l: self,
            fn_key: key,
        };
        inner.visit_block(block);
        self.m.fns.push(fi);
    }

    fn add_const(
        &mut self,
        name: String,
        owner: Option<String>,
        in_fn: Option<String>,
        ty: &syn::Type,
        expr: &syn::Expr,
        line: usize,
        is_static: bool,
        mutable: bool,
    ) {
        self.m.consts.push(ConstInfo {
            name,
            owner,
            in_fn,
            module: self.modpath(),
            file: self.file.clone(),
            line,
            ty: tok(ty),
            expr: expr.clone(),
            is_static,
            mutable,
        });
    }

    fn items(&mut self, items: &[syn::Item], base_dir: &Path, file_stem_is_mod: bool) {
        for it in items {
            match it {
                syn::Item::Fn(f) => {
                    if has_cfg_test(&f.attrs) {
                        self.m.test_fns += 1;
                        continue;
                    }
                    let p = matches!(f.vis, syn::Visibility::Public(_));
                    self.add_fn(&f.sig, &f.block, None, None, p);
                }
                syn::Item::Impl(i) => {
                    if has_cfg_test(&i.attrs) {
                        continue;
                    }
                    let st = type_name(&i.self_ty);
                    self.cur_impl_ty = Some(tok(&i.self_ty));
                    let tr = i.trait_.as_ref().map(|(_, p, _)| {
                        let seg = p.segments.last().unwrap();
                        tok(seg)
                    });
                    for ii in &i.items {
                        match ii {
                            syn::ImplItem::Fn(f) => {
                                if has_cfg_test(&f.attrs) {
                                    continue;
                                }
                                let p = matches!(f.vis, syn::Visibility::Public(_))
                                    || i.trait_.is_some();
                                self.add_fn(&f.sig, &f.block, Some(st.clone()), tr.clone(), p);
                            }
                            syn::ImplItem::Const(c) => {
                                self.add_const(
                                    c.ident.to_string(),
                                    Some(st.clone()),
                                    None,
                                    &c.ty,
                                    &c.expr,
                                    line_of(c.ident.span()),
                                    false,
                                    false,
                                );
                            }
                            _ => {}
                        }
                    }
                }
                syn::Item::Enum(e) => {
                    if has_cfg_test(&e.attrs) {
                        continue;
                    }
                    let mut vf = BTreeMap::new();
                    for v in &e.variants {
                        let fields: Vec<(String, String)> = match &v.fields {
                            syn::Fields::Named(n) => n
                                .named
                                .iter()
                                .map(|f| (f.ident.as_ref().unwrap().to_string(), tok(&f.ty)))
                                .collect(),
                            syn::Fields::Unnamed(u) => u
                                .unnamed
                                .iter()
                                .enumerate()
                                .map(|(i, f)| (i.to_string(), tok(&f.ty)))
                                .collect(),
                            syn::Fields::Unit => vec![],
                        };
                        vf.insert(v.ident.to_string(), fields);
                    }
                    self.m.enums.push(EnumInfo {
                        name: e.ident.to_string(),
                        module: self.modpath(),
                        file: self.file.clone(),
                        variants: e.variants.iter().map(|v| v.ident.to_string()).collect(),
                        variant_fields: vf,
                    });
                }
                syn::Item::Struct(s) => {
                    if has_cfg_test(&s.attrs) {
                        continue;
                    }
                    let fields = match &s.fields {
                        syn::Fields::Named(n) => n
                            .named
                            .iter()
                            .map(|f| {
                                (
                                    f.ident.as_ref().unwrap().to_string(),
                                    tok(&f.ty),
                                    matches!(f.vis, syn::Visibility::Public(_)),
                                )
                            })
                            .collect(),
                        syn::Fields::Unnamed(u) => u
                            .unnamed
                            .iter()
                            .enumerate()
                            .map(|(i, f)| {
                                (
                                    i.to_string(),
                                    tok(&f.ty),
                                    matches!(f.vis, syn::Visibility::Public(_)),
                                )
                            })
                            .collect(),
                        syn::Fields::Unit => vec![],
                    };
                    self.m.structs.push(StructInfo {
                        name: s.ident.to_string(),
                        module: self.modpath(),
                        file: self.file.clone(),
                        line: line_of(s.ident.span()),
                        fields,
                    });
                }
                syn::Item::Const(c) => {
                    if has_cfg_test(&c.attrs) {
                        continue;
                    }
                    self.add_const(
                        c.ident.to_string(),
                        None,
                        None,
                        &c.ty,
                        &c.expr,
                        line_of(c.ident.span()),
                        false,
                        false,
                    );
                }
                syn::Item::Static(c) => {
                    if has_cfg_test(&c.attrs) {
                        continue;
                    }
                    self.add_const(
                        c.ident.to_string(),
                        None,
                        None,
                        &c.ty,
                        &c.expr,
                        line_of(c.ident.span()),
                        true,
                        matches!(c.mutability, syn::StaticMutability::Mut(_)),
                    );
                }
                syn::Item::Macro(mac) => {
                    if let Some(id) = &mac.ident {
                        if has_cfg_test(&mac.attrs) {
                            continue;
                        }
                        self.m.macros.push(MacroDef {
                            name: id.to_string(),
                            module: self.modpath(),
                            file: self.file.clone(),
                            line: line_of(id.span()),
                            tokens: mac.mac.tokens.clone(),
                        });
                    }
                }
                syn::Item::Mod(md) => {
                    if has_cfg_test(&md.attrs) {
                        continue;
                    }
                    let name = md.ident.to_string();
                    if let Some((_, items)) = &md.content {
                        self.module.push(name);
                        self.items(items, base_dir, file_stem_is_mod);
                        self.module.pop();
                    }
                    // out-of-line modules are loaded by the directory walk
                }
                syn::Item::Trait(t) => {
                    // default method bodies
                    self.cur_impl_ty = None;
                    let st = t.ident.to_string();
                    for ti in &t.items {
                        if let syn::TraitItem::Fn(f) = ti {
                            if let Some(b) = &f.default {
                                self.add_fn(&f.sig, b, Some(st.clone()), None, true);
                            }
                        }
                    }
                }
                _ => {}
            }
        }
    }
}

struct InnerItems<'a, 'b> {
    l: &'a mut Loader<'b>,
    fn_key: String,
}

impl<'ast, 'a, 'b> Visit<'ast> for InnerItems<'a, 'b> {
    fn visit_item(&mut self, i: &'ast syn::Item) {
        match i {
            syn::Item::Static(c) => {
                self.l.add_const(
                    c.ident.to_string(),
                    None,
                    Some(self.fn_key.clone()),
                    &c.ty,
                    &c.expr,
                    line_of(c.ident.span()),
                    true,
                    matches!(c.mutability, syn::StaticMutability::Mut(_)),
                );
            }
            syn::Item::Const(c) => {
                self.l.add_const(
                    c.ident.to_string(),
                    None,
                    Some(self.fn_key.clone()),
                    &c.ty,
                    &c.expr,
                    line_of(c.ident.span()),
                    false,
                    false,
                );
            }
            syn::Item::Fn(f) => {
                // nested fn: register under the parent's module with parent name prefix
                let p = false;
                let mut sig = f.sig.clone();
                let _ = &mut sig;
                let parent = self.fn_key.clone();
                let name = f.sig.ident.to_string();
                let fi = FnInfo {
                    key: format!("{}::{{fn}}::{}", parent, name),
                    name,
                    self_ty: None,
                    trait_: None,
                    module: self.l.modpath(),
                    file: self.l.file.clone(),
                    krate: self.l.krate.clone(),
                    sig: f.sig.clone(),
                    block: (*f.block).clone(),
                    vis_pub: p,
                    line: line_of(f.sig.ident.span()),
                    impl_ty: None,
                };
                self.l.m.fns.push(fi);
            }
            _ => {}
        }
    }
}

fn walk_dir(dir: &Path, out: &mut Vec<PathBuf>) {
    let mut ents: Vec<_> = match std::fs::read_dir(dir) {
        Ok(r) => r.filter_map(|e| e.ok()).map(|e| e.path()).collect(),
        Err(_) => return,
    };
    ents.sort();
    for p in ents {
        if p.is_dir() {
            walk_dir(&p, out);
        } else if p.extension().map(|e| e == "rs").unwrap_or(false) {
            out.push(p);
        }
    }
}

impl Model {
    pub fn load(repo: &Path) -> Result<Model, String> {
        let mut m = Model {
            repo: repo.to_path_buf(),
            ..Default::default()
        };
        for (krate, src) in [
            ("rasn-compiler", "rasn-compiler/src"),
            ("rasn-compiler-derive", "rasn-compiler-derive/src"),
        ] {
            let root = repo.join(src);
            let mut files = vec![];
            walk_dir(&root, &mut files);
            if files.is_empty() {
                return Err(format!("no source files under {}", root.display()));
            }
            for f in files {
                let relp = f.strip_prefix(&root).unwrap();
                let comps: Vec<String> = relp
                    .iter()
                    .map(|c| c.to_string_lossy().to_string())
                    .collect();
                // test-only trees
                if comps.iter().any(|c| c == "tests" || c == "tests.rs") {
                    continue;
                }
                let mut module: Vec<String> = comps.clone();
                let last = module.pop().unwrap();
                let stem = last.trim_end_matches(".rs").to_string();
                if stem != "mod" && stem != "lib" && stem != "main" {
                    module.push(stem.clone());
                }
                if stem == "bin" && module.len() == 1 {
                    // rasn-compiler/src/bin.rs is the CLI binary root
                }
                let text = std::fs::read_to_string(&f).map_err(|e| e.to_string())?;
                let ast = syn::parse_file(&text)
                    .map_err(|e| format!("cannot parse {}: {}", f.display(), e))?;
                let rel = f.strip_prefix(repo).unwrap().to_string_lossy().to_string();
                m.files.push(SrcFile {
                    rel: rel.clone(),
                    krate: krate.to_string(),
                    module: module.join("::"),
                    text,
                });
                let mut l = Loader {
                    m: &mut m,
                    file: rel,
                    krate: krate.to_string(),
                    module,
                    cur_impl_ty: None,
                };
                l.items(&ast.items, f.parent().unwrap(), false);
            }
        }
        Ok(m)
    }

    pub fn fns_named<'a>(&'a self, name: &str) -> Vec<&'a FnInfo> {
        self.fns.iter().filter(|f| f.name == name).collect()
    }

    /// unique fn by (optional self type, name, optional module substring)
    pub fn find_fn(&self, self_ty: Option<&str>, name: &str, module_has: Option<&str>) -> Result<&FnInfo, String> {
        let c: Vec<&FnInfo> = self
            .fns
            .iter()
            .filter(|f| f.name == name)
            .filter(|f| self_ty.map_or(true, |s| f.self_ty.as_deref() == Some(s)))
            .filter(|f| module_has.map_or(true, |s| f.module.contains(s)))
            .collect();
        match c.len() {
            1 => Ok(c[0]),
            0 => Err(format!(
                "anchor not found: fn {}{}{}",
                self_ty.map(|s| format!("{}::", s)).unwrap_or_default(),
                name,
                module_has.map(|s| format!(" in *{}*", s)).unwrap_or_default()
            )),
            n => Err(format!(
                "anchor ambiguous ({} candidates): fn {}{}: {}",
                n,
                self_ty.map(|s| format!("{}::", s)).unwrap_or_default(),
                name,
                c.iter().map(|f| f.key.clone()).collect::<Vec<_>>().join(", ")
            )),
        }
    }

    pub fn find_enum(&self, name: &str) -> Result<&EnumInfo, String> {
        let c: Vec<&EnumInfo> = self.enums.iter().filter(|e| e.name == name).collect();
        match c.len() {
            1 => Ok(c[0]),
            0 => Err(format!("anchor not found: enum {}", name)),
            _ => Err(format!("anchor ambiguous: enum {}", name)),
        }
    }

    pub fn find_struct(&self, name: &str, module_has: Option<&str>) -> Result<&StructInfo, String> {
        let c: Vec<&StructInfo> = self
            .structs
            .iter()
            .filter(|e| e.name == name)
            .filter(|f| module_has.map_or(true, |s| f.module.contains(s)))
            .collect();
        match c.len() {
            1 => Ok(c[0]),
            0 => Err(format!("anchor not found: struct {}", name)),
            _ => Err(format!("anchor ambiguous: struct {}", name)),
        }
    }

    pub fn find_const(&self, name: &str) -> Vec<&ConstInfo> {
        self.consts.iter().filter(|c| c.name == name).collect()
    }

    pub fn file_text(&self, rel: &str) -> Option<&str> {
        self.files.iter().find(|f| f.rel == rel).map(|f| f.text.as_str())
    }
}

// ---------------------------------------------------------------------------
// deep walking (descends into macro arguments that parse as expressions)
// ---------------------------------------------------------------------------

/// Try to read macro tokens as a comma separated expression list.
pub fn macro_args(mac: &syn::Macro) -> Option<Vec<syn::Expr>> {
    let parser = Punctuated::<syn::Expr, syn::Token![,]>::parse_terminated;
    syn::parse::Parser::parse2(parser, mac.tokens.clone())
        .ok()
        .map(|p| p.into_iter().collect())
}

/// `matches!(expr, pat)` / `matches![expr, pat]`
pub struct MatchesMacro {
    pub scrutinee: syn::Expr,
    pub pat: syn::Pat,
    pub guard: Option<syn::Expr>,
}

pub fn parse_matches(mac: &syn::Macro) -> Option<MatchesMacro> {
    if !mac.path.is_ident("matches") {
        return None;
    }
    let parser = |input: syn::parse::ParseStream| -> syn::Result<MatchesMacro> {
        let scrutinee: syn::Expr = input.parse()?;
        let _: syn::Token![,] = input.parse()?;
        let pat = syn::Pat::parse_multi_with_leading_vert(input)?;
        let guard = if input.peek(syn::Token![if]) {
            let _: syn::Token![if] = input.parse()?;
            Some(input.parse::<syn::Expr>()?)
        } else {
            None
        };
        let _ = input.parse::<Option<syn::Token![,]>>();
        Ok(MatchesMacro { scrutinee, pat, guard })
    };
    syn::parse::Parser::parse2(parser, mac.tokens.clone()).ok()
}

pub trait DeepCb {
    fn expr(&mut self, _e: &syn::Expr) {}
    fn mac(&mut self, _m: &syn::Macro) {}
    fn pat(&mut self, _p: &syn::Pat) {}
    fn local(&mut self, _l: &syn::Local) {}
}

struct Deep<'c, C: DeepCb> {
    cb: &'c mut C,
    skip_items: bool,
}

impl<'ast, 'c, C: DeepCb> Visit<'ast> for Deep<'c, C> {
    fn visit_expr(&mut self, e: &'ast syn::Expr) {
        self.cb.expr(e);
        syn::visit::visit_expr(self, e);
    }
    fn visit_pat(&mut self, p: &'ast syn::Pat) {
        self.cb.pat(p);
        syn::visit::visit_pat(self, p);
    }
    fn visit_local(&mut self, l: &'ast syn::Local) {
        self.cb.local(l);
        syn::visit::visit_local(self, l);
    }
    fn visit_item(&mut self, i: &'ast syn::Item) {
        if !self.skip_items {
            syn::visit::visit_item(self, i);
        }
    }
    fn visit_macro(&mut self, m: &'ast syn::Macro) {
        self.cb.mac(m);
        if let Some(mm) = parse_matches(m) {
            self.visit_expr(&mm.scrutinee);
            self.visit_pat(&mm.pat);
            if let Some(g) = &mm.guard {
                self.visit_expr(g);
            }
            return;
        }
        let name = m.path.segments.last().map(|s| s.ident.to_string()).unwrap_or_default();
        if name == "quote" || name == "format_ident" {
            return;
        }
        if let Some(args) = macro_args(m) {
            for a in &args {
                self.visit_expr(a);
            }
        } else if let Ok(b) = syn::parse2::<syn::Block>(
            TokenTree::Group(proc_macro2::Group::new(Delimiter::Brace, m.tokens.clone())).into(),
        ) {
            self.visit_block(&b);
        }
    }
}

pub fn deep_walk_block<C: DeepCb>(b: &syn::Block, cb: &mut C) {
    let mut d = Deep { cb, skip_items: true };
    d.visit_block(b);
}

pub fn deep_walk_expr<C: DeepCb>(e: &syn::Expr, cb: &mut C) {
    let mut d = Deep { cb, skip_items: true };
    d.visit_expr(e);
}

/// All macro invocations named `name` in a block (deep).
pub fn macros_named(b: &syn::Block, name: &str) -> Vec<syn::Macro> {
    struct C<'a> {
        name: &'a str,
        out: Vec<syn::Macro>,
    }
    impl<'a> DeepCb for C<'a> {
        fn mac(&mut self, m: &syn::Macro) {
            if m.path.segments.last().map(|s| s.ident == self.name).unwrap_or(false) {
                self.out.push(m.clone());
            }
        }
    }
    let mut c = C { name, out: vec![] };
    deep_walk_block(b, &mut c);
    c.out
}

pub fn all_macros(b: &syn::Block) -> Vec<syn::Macro> {
    struct C {
        out: Vec<syn::Macro>,
    }
    impl DeepCb for C {
        fn mac(&mut self, m: &syn::Macro) {
            self.out.push(m.clone());
        }
    }
    let mut c = C { out: vec![] };
    deep_walk_block(b, &mut c);
    c.out
}

pub fn matches_in(b: &syn::Block) -> Vec<syn::ExprMatch> {
    struct C {
        out: Vec<syn::ExprMatch>,
    }
    impl DeepCb for C {
        fn expr(&mut self, e: &syn::Expr) {
            if let syn::Expr::Match(m) = e {
                self.out.push(m.clone());
            }
        }
    }
    let mut c = C { out: vec![] };
    deep_walk_block(b, &mut c);
    c.out
}

pub fn method_calls_in(b: &syn::Block) -> Vec<syn::ExprMethodCall> {
    struct C {
        out: Vec<syn::ExprMethodCall>,
    }
    impl DeepCb for C {
        fn expr(&mut self, e: &syn::Expr) {
            if let syn::Expr::MethodCall(m) = e {
                self.out.push(m.clone());
            }
        }
    }
    let mut c = C { out: vec![] };
    deep_walk_block(b, &mut c);
    c.out
}

pub fn calls_in(b: &syn::Block) -> Vec<syn::ExprCall> {
    struct C {
        out: Vec<syn::ExprCall>,
    }
    impl DeepCb for C {
        fn expr(&mut self, e: &syn::Expr) {
            if let syn::Expr::Call(m) = e {
                self.out.push(m.clone());
            }
        }
    }
    let mut c = C { out: vec![] };
    deep_walk_block(b, &mut c);
    c.out
}

/// last path segment of a call's callee, e.g. `Self::needs_unnesting(..)` -> needs_unnesting
pub fn callee_name(c: &syn::ExprCall) -> Option<String> {
    match &*c.func {
        syn::Expr::Path(p) => p.path.segments.last().map(|s| s.ident.to_string()),
        _ => None,
    }
}

/// Names of all fns/methods invoked in a block (by last segment) — crude call graph edge set.
pub fn invoked_names(b: &syn::Block) -> Vec<String> {
    let mut v: Vec<String> = method_calls_in(b).iter().map(|m| m.method.to_string()).collect();
    v.extend(calls_in(b).iter().filter_map(callee_name));
    // fn items passed by path as arguments (e.g. `.map(Self::foo)`)
    struct C {
        out: Vec<String>,
    }
    impl DeepCb for C {
        fn expr(&mut self, e: &syn::Expr) {
            if let syn::Expr::Path(p) = e {
                if p.path.segments.len() >= 1 {
                    if let Some(s) = p.path.segments.last() {
                        self.out.push(s.ident.to_string());
                    }
                }
            }
        }
    }
    let mut c = C { out: vec![] };
    deep_walk_block(b, &mut c);
    v.extend(c.out);
    // fn names appearing as bare idents inside local macro invocations (call_template!)
    for m in all_macros(b) {
        collect_idents(&m.tokens, &mut v);
    }
    v.sort();
    v.dedup();
    v
}

pub fn collect_idents(ts: &TokenStream, out: &mut Vec<String>) {
    for t in ts.clone() {
        match t {
            TokenTree::Ident(i) => out.push(i.to_string()),
            TokenTree::Group(g) => collect_idents(&g.stream(), out),
            _ => {}
        }
    }
}
