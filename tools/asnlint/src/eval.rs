//! SRC-T / SRC-O: decision-table extraction from `match` expressions and a small
//! abstract evaluator for the order-only expression subset.
//!
//! The evaluator works on the *syntax tree* of the analysed fn. Integers that
//! originate from the analysed fn's inputs are marked `input`; any arithmetic
//! on such a value makes the analysis fail closed ("not order-only"), so that
//! evaluating one representative per region of the partition induced by the
//! constants the inputs are compared with is exhaustive over all integers.
use crate::model::tok;
use std::collections::BTreeMap;

#[derive(Clone, Debug, PartialEq)]
pub enum Val {
    Ctor(String, Vec<Val>, BTreeMap<String, Val>),
    Tuple(Vec<Val>),
    Str(String),
    Int { v: i128, input: bool },
    Bool(bool),
    Char(char),
    /// opaque token / symbol result (quote!(..), format_ident!(..), unknown path)
    Sym(String),
    Unit,
    Any,
    List(Vec<Val>),
    /// a closure value with its captured environment
    Closure(Box<syn::ExprClosure>, Box<Env>),
    /// result of something the evaluator does not model; an error only if a decision depends on it
    Opaque(String),
}

impl Val {
    pub fn ctor(name: &str) -> Val {
        Val::Ctor(name.to_string(), vec![], BTreeMap::new())
    }
    pub fn some(v: Val) -> Val {
        Val::Ctor("Some".into(), vec![v], BTreeMap::new())
    }
    pub fn none() -> Val {
        Val::ctor("None")
    }
    pub fn int(v: i128) -> Val {
        Val::Int { v, input: false }
    }
    pub fn input(v: i128) -> Val {
        Val::Int { v, input: true }
    }
    pub fn show(&self) -> String {
        match self {
            Val::Ctor(n, p, f) => {
                if p.is_empty() && f.is_empty() {
                    n.clone()
                } else if !p.is_empty() {
                    format!("{}({})", n, p.iter().map(|v| v.show()).collect::<Vec<_>>().join(","))
                } else {
                    format!(
                        "{}{{{}}}",
                        n,
                        f.iter().map(|(k, v)| format!("{}:{}", k, v.show())).collect::<Vec<_>>().join(",")
                    )
                }
            }
            Val::Tuple(t) => format!("({})", t.iter().map(|v| v.show()).collect::<Vec<_>>().join(",")),
            Val::Str(s) => format!("{:?}", s),
            Val::Int { v, .. } => v.to_string(),
            Val::Bool(b) => b.to_string(),
            Val::Char(c) => format!("{:?}", c),
            Val::Sym(s) => s.clone(),
            Val::Unit => "()".into(),
            Val::Any => "_".into(),
            Val::List(l) => format!("[{}]", l.iter().map(|v| v.show()).collect::<Vec<_>>().join(",")),
            Val::Opaque(s) => format!("<opaque {}>", s),
            Val::Closure(..) => "<closure>".into(),
        }
    }
}

pub type Env = BTreeMap<String, Val>;

#[derive(Debug, Clone, PartialEq)]
pub enum PatM {
    Yes,
    No,
    Unknown(String),
}

fn and(a: PatM, b: PatM) -> PatM {
    match (a, b) {
        (PatM::No, _) | (_, PatM::No) => PatM::No,
        (PatM::Unknown(s), _) | (_, PatM::Unknown(s)) => PatM::Unknown(s),
        _ => PatM::Yes,
    }
}

pub struct Evaluator<'a> {
    /// resolves `NAME` / `Type::NAME` constants
    pub consts: &'a dyn Fn(&str) -> Option<Val>,
    /// user-defined operators / calls: (name, args) -> result
    pub call_hook: &'a dyn Fn(&Evaluator, &str, &[Val]) -> Option<Result<Val, String>>,
    /// crate fns that may be evaluated interprocedurally: name -> (param names, body)
    pub inline: Option<&'a BTreeMap<String, (Vec<String>, syn::Block)>>,
}

thread_local! {
    /// names of the crate's structs: a struct pattern over an unmodelled value is irrefutable
    pub static STRUCT_NAMES: std::cell::RefCell<std::collections::BTreeSet<String>> = std::cell::RefCell::new(std::collections::BTreeSet::new());
}

thread_local! {
    /// constants that input-derived integers were compared with (for region refinement)
    pub static CMP_LOG: std::cell::RefCell<std::collections::BTreeSet<i128>> = std::cell::RefCell::new(std::collections::BTreeSet::new());
}

thread_local! {
    /// the bindings of the arm being written back as they were when the arm was entered: a binding the arm did not change is not
    /// written back (the arm may have assigned to the place itself, `*self = ..`, and the stale binding must not undo that)
    pub static ARM_INIT: std::cell::RefCell<Option<Env>> = std::cell::RefCell::new(None);
}

thread_local! {
    /// variables that stand for a `&mut` reference into a place (the parameter of a closure mapped over `place.iter_mut()` /
    /// `place.chunks_mut(n)`): a match over such a variable binds into the data it refers to
    pub static MUT_REFS: std::cell::RefCell<std::collections::BTreeSet<String>> = std::cell::RefCell::new(std::collections::BTreeSet::new());
}

pub fn no_hook(_: &Evaluator, _: &str, _: &[Val]) -> Option<Result<Val, String>> {
    None
}

fn is_upper_first(s: &str) -> bool {
    s.chars().next().map(|c| c.is_uppercase()).unwrap_or(false)
}

fn lit_val(l: &syn::Lit) -> Result<Val, String> {
    Ok(match l {
        syn::Lit::Str(s) => Val::Str(s.value()),
        syn::Lit::Int(i) => Val::int(i.base10_parse::<i128>().map_err(|e| e.to_string())?),
        syn::Lit::Bool(b) => Val::Bool(b.value),
        syn::Lit::Char(c) => Val::Char(c.value()),
        syn::Lit::Byte(b) => Val::int(b.value() as i128),
        other => return Err(format!("unsupported literal {}", tok(other))),
    })
}

pub fn int_const(ty: &str, which: &str) -> Option<i128> {
    let (min, max): (i128, i128) = match ty {
        "u8" => (0, u8::MAX as i128),
        "u16" => (0, u16::MAX as i128),
        "u32" => (0, u32::MAX as i128),
        "u64" => (0, u64::MAX as i128),
        "usize" => (0, usize::MAX as i128),
        "i8" => (i8::MIN as i128, i8::MAX as i128),
        "i16" => (i16::MIN as i128, i16::MAX as i128),
        "i32" => (i32::MIN as i128, i32::MAX as i128),
        "i64" => (i64::MIN as i128, i64::MAX as i128),
        "isize" => (isize::MIN as i128, isize::MAX as i128),
        "i128" => (i128::MIN, i128::MAX),
        _ => return None,
    };
    match which {
        "MIN" => Some(min),
        "MAX" => Some(max),
        _ => None,
    }
}

/// copy assignments made to outer-scope variables inside a nested scope back to the outer env
fn merge_back_shadow_safe(outer: &mut Env, inner: &Env, pat: &syn::Pat) {
    // names bound by the pattern shadow outer names inside the branch: do not copy those back
    let mut bound = vec![];
    crate::model::collect_idents(&quote::ToTokens::to_token_stream(pat), &mut bound);
    let keys: Vec<String> = outer.keys().cloned().collect();
    for k in keys {
        if bound.contains(&k) {
            continue;
        }
        if let Some(v) = inner.get(&k) {
            outer.insert(k, v.clone());
        }
    }
}

fn merge_back(outer: &mut Env, inner: &Env) {
    let keys: Vec<String> = outer.keys().cloned().collect();
    for k in keys {
        if let Some(v) = inner.get(&k) {
            outer.insert(k, v.clone());
        }
    }
}

/// the key of a `$map` entry: strings and symbols by their text, anything else by its rendering
pub fn map_key(v: &Val) -> String {
    match v {
        Val::Str(s) | Val::Sym(s) => s.clone(),
        o => o.show(),
    }
}

/// the key of a `$set` element: integers are padded so that text order is numeric order (as in a BTreeSet)
pub fn set_key(v: &Val) -> String {
    match v {
        Val::Int { v, .. } if *v >= 0 => format!("{:040}", v),
        Val::Int { v, .. } => format!("-{:040}", i128::MAX - v.unsigned_abs() as i128),
        o => map_key(o),
    }
}

thread_local! {
    /// unrolling bound of `while` loops (a rule that evaluates code on a small scenario may lower it)
    pub static WHILE_BOUND: std::cell::Cell<usize> = std::cell::Cell::new(10_000);
}

/// total order of concrete values (numbers, characters, text, booleans, tuples of those) — None when a value is not concrete
pub fn cmp_vals(a: &Val, b: &Val) -> Option<std::cmp::Ordering> {
    match (a, b) {
        (Val::Int { v: x, .. }, Val::Int { v: y, .. }) => Some(x.cmp(y)),
        (Val::Char(x), Val::Char(y)) => Some(x.cmp(y)),
        (Val::Str(x), Val::Str(y)) => Some(x.cmp(y)),
        (Val::Bool(x), Val::Bool(y)) => Some(x.cmp(y)),
        (Val::Tuple(x), Val::Tuple(y)) if x.len() == y.len() => {
            for (p, q) in x.iter().zip(y) {
                match cmp_vals(p, q)? {
                    std::cmp::Ordering::Equal => {}
                    o => return Some(o),
                }
            }
            Some(std::cmp::Ordering::Equal)
        }
        (Val::Ctor(n, p, _), Val::Ctor(m, q, _)) if (n == "Some" || n == "None") && (m == "Some" || m == "None") => match (n.as_str(), m.as_str()) {
            ("None", "None") => Some(std::cmp::Ordering::Equal),
            ("None", _) => Some(std::cmp::Ordering::Less),
            (_, "None") => Some(std::cmp::Ordering::Greater),
            _ => cmp_vals(p.first()?, q.first()?),
        },
        _ => None,
    }
}

pub fn new_set() -> Val {
    Val::Ctor("$set".into(), vec![], BTreeMap::new())
}

pub fn new_map() -> Val {
    Val::Ctor("$map".into(), vec![], BTreeMap::new())
}

pub fn map_insert(m: Val, k: Val, v: Val) -> Val {
    match m {
        Val::Ctor(n, p, mut f) => {
            f.insert(map_key(&k), v);
            Val::Ctor(n, p, f)
        }
        o => o,
    }
}

impl<'a> Evaluator<'a> {
    pub fn pat_match(&self, p: &syn::Pat, v: &Val, env: &mut Env) -> PatM {
        use syn::Pat;
        match p {
            Pat::Wild(_) | Pat::Rest(_) => PatM::Yes,
            Pat::Paren(pp) => self.pat_match(&pp.pat, v, env),
            Pat::Type(pt) => self.pat_match(&pt.pat, v, env),
            Pat::Reference(r) => self.pat_match(&r.pat, v, env),
            Pat::Ident(pi) => {
                let name = pi.ident.to_string();
                if let Some((_, sub)) = &pi.subpat {
                    env.insert(name, v.clone());
                    return self.pat_match(sub, v, env);
                }
                if is_upper_first(&name) {
                    if let Some(c) = (self.consts)(&name) {
                        return self.val_eq(&c, v);
                    }
                    return self.ctor_match(&name, &[], None, v, env);
                }
                env.insert(name, v.clone());
                PatM::Yes
            }
            Pat::Path(pp) => {
                let full = tok(&pp.path);
                if let Some(c) = (self.consts)(&full) {
                    return self.val_eq(&c, v);
                }
                let name = pp.path.segments.last().unwrap().ident.to_string();
                if let Some(c) = (self.consts)(&name) {
                    if !matches!(v, Val::Ctor(..)) {
                        return self.val_eq(&c, v);
                    }
                }
                self.ctor_match(&name, &[], None, v, env)
            }
            Pat::TupleStruct(ts) => {
                let name = ts.path.segments.last().unwrap().ident.to_string();
                let elems: Vec<&syn::Pat> = ts.elems.iter().collect();
                self.ctor_match(&name, &elems, None, v, env)
            }
            Pat::Struct(ps) => {
                let name = ps.path.segments.last().unwrap().ident.to_string();
                let fields: Vec<(String, &syn::Pat)> = ps
                    .fields
                    .iter()
                    .map(|f| (tok(&f.member), &*f.pat))
                    .collect();
                self.ctor_match(&name, &[], Some(&fields), v, env)
            }
            Pat::Tuple(t) => match v {
                Val::Tuple(vs) => {
                    // no `..` support inside tuples beyond trailing
                    let mut r = PatM::Yes;
                    let mut i = 0;
                    for e in t.elems.iter() {
                        if matches!(e, Pat::Rest(_)) {
                            break;
                        }
                        if i >= vs.len() {
                            return PatM::Unknown("tuple arity".into());
                        }
                        r = and(r, self.pat_match(e, &vs[i], env));
                        i += 1;
                    }
                    r
                }
                Val::Any => PatM::Unknown("tuple pattern against unknown value".into()),
                _ => PatM::No,
            },
            // slice patterns `[a, b]`, `[first, ..]`, `[.., last]`, `[first, .., last]`
            Pat::Slice(ps) => match v {
                Val::List(items) => {
                    let pats: Vec<&syn::Pat> = ps.elems.iter().collect();
                    let rest_at = pats.iter().position(|p| matches!(p, Pat::Rest(_)));
                    let (front, back): (&[&syn::Pat], &[&syn::Pat]) = match rest_at {
                        Some(i) => (&pats[..i], &pats[i + 1..]),
                        None => (&pats[..], &[]),
                    };
                    if (rest_at.is_none() && items.len() != pats.len()) || items.len() < front.len() + back.len() {
                        return PatM::No;
                    }
                    let mut r = PatM::Yes;
                    for (p, it) in front.iter().zip(items.iter()) {
                        r = and(r, self.pat_match(p, it, env));
                    }
                    for (p, it) in back.iter().rev().zip(items.iter().rev()) {
                        r = and(r, self.pat_match(p, it, env));
                    }
                    r
                }
                Val::Any | Val::Opaque(_) | Val::Sym(_) | Val::Str(_) => PatM::Unknown("slice pattern against a value that is not a modelled list".into()),
                _ => PatM::No,
            },
            Pat::Lit(l) => match lit_val(&l.lit) {
                Ok(lv) => self.val_eq(&lv, v),
                Err(e) => PatM::Unknown(e),
            },
            Pat::Or(o) => {
                let mut unknown = None;
                for c in o.cases.iter() {
                    // patterns only add bindings: a small scratch environment per alternative, merged on success
                    let mut e2 = Env::new();
                    match self.pat_match(c, v, &mut e2) {
                        PatM::Yes => {
                            env.extend(e2);
                            return PatM::Yes;
                        }
                        PatM::Unknown(s) => unknown = Some(s),
                        PatM::No => {}
                    }
                }
                match unknown {
                    Some(s) => PatM::Unknown(s),
                    None => PatM::No,
                }
            }
            Pat::Range(r) => {
                let lo = r.start.as_ref().map(|e| self.eval(e, &mut Env::new()));
                let hi = r.end.as_ref().map(|e| self.eval(e, &mut Env::new()));
                match v {
                    Val::Int { v: x, .. } => {
                        let lo_ok = match lo {
                            Some(Ok(Val::Int { v: l, .. })) => *x >= l,
                            None => true,
                            _ => return PatM::Unknown("range bound".into()),
                        };
                        let incl = matches!(r.limits, syn::RangeLimits::Closed(_));
                        let hi_ok = match hi {
                            Some(Ok(Val::Int { v: h, .. })) => {
                                if incl {
                                    *x <= h
                                } else {
                                    *x < h
                                }
                            }
                            None => true,
                            _ => return PatM::Unknown("range bound".into()),
                        };
                        if lo_ok && hi_ok {
                            PatM::Yes
                        } else {
                            PatM::No
                        }
                    }
                    Val::Char(c) => {
                        let x = *c as i128;
                        let g = |o: Option<Result<Val, String>>| match o {
                            Some(Ok(Val::Char(c))) => Some(c as i128),
                            _ => None,
                        };
                        match (g(lo), g(hi)) {
                            (Some(l), Some(h)) => {
                                if x >= l && x <= h {
                                    PatM::Yes
                                } else {
                                    PatM::No
                                }
                            }
                            _ => PatM::Unknown("char range".into()),
                        }
                    }
                    _ => PatM::Unknown("range pattern against non-int".into()),
                }
            }
            other => PatM::Unknown(format!("unsupported pattern {}", tok(other))),
        }
    }

    fn val_eq(&self, a: &Val, b: &Val) -> PatM {
        match (a, b) {
            (_, Val::Any) | (Val::Any, _) => PatM::Unknown("comparison with unknown value".into()),
            (_, Val::Opaque(s)) | (Val::Opaque(s), _) => PatM::Unknown(format!("decision depends on unmodelled value ({})", s)),
            (Val::Int { v: x, .. }, Val::Int { v: y, .. }) => {
                if x == y {
                    PatM::Yes
                } else {
                    PatM::No
                }
            }
            _ => {
                if a == b {
                    PatM::Yes
                } else {
                    PatM::No
                }
            }
        }
    }

    fn ctor_match(
        &self,
        name: &str,
        elems: &[&syn::Pat],
        fields: Option<&Vec<(String, &syn::Pat)>>,
        v: &Val,
        env: &mut Env,
    ) -> PatM {
        match v {
            Val::Ctor(n, pos, named) => {
                if n != name {
                    return PatM::No;
                }
                let mut r = PatM::Yes;
                let mut i = 0;
                for e in elems {
                    if matches!(e, syn::Pat::Rest(_)) {
                        break;
                    }
                    let sub = pos.get(i).cloned().unwrap_or(Val::Any);
                    r = and(r, self.pat_match(e, &sub, env));
                    i += 1;
                }
                if let Some(fs) = fields {
                    for (fname, fp) in fs {
                        let sub = named.get(fname).cloned().unwrap_or(Val::Any);
                        r = and(r, self.pat_match(fp, &sub, env));
                    }
                }
                r
            }
            Val::Any | Val::Opaque(_) if STRUCT_NAMES.with(|n| n.borrow().contains(name)) => {
                // a struct (not an enum variant): the pattern can only fail in its sub-patterns
                let mut r = PatM::Yes;
                for e in elems {
                    if matches!(e, syn::Pat::Rest(_)) {
                        break;
                    }
                    r = and(r, self.pat_match(e, &Val::Opaque("field".into()), env));
                }
                if let Some(fs) = fields {
                    for (_, fp) in fs {
                        r = and(r, self.pat_match(fp, &Val::Opaque("field".into()), env));
                    }
                }
                r
            }
            Val::Any => PatM::Unknown(format!("constructor pattern {} against unknown value", name)),
            Val::Opaque(s) => PatM::Unknown(format!("constructor pattern {} against unmodelled value ({})", name, s)),
            _ => PatM::No,
        }
    }

    /// First-match evaluation of a `match`; returns the arm index and the bindings.
    pub fn select_arm(&self, m: &syn::ExprMatch, v: &Val, env: &Env) -> Result<(usize, Env), String> {
        for (i, arm) in m.arms.iter().enumerate() {
            // patterns only add bindings (they never read the environment): the environment is cloned for the arm that matches
            let mut binds = Env::new();
            match self.pat_match(&arm.pat, v, &mut binds) {
                PatM::No => continue,
                PatM::Unknown(s) => {
                    return Err(format!("arm {} `{}`: {}", i, tok(&arm.pat), s));
                }
                PatM::Yes => {
                    let mut e2 = env.clone();
                    e2.extend(binds);
                    if let Some((_, g)) = &arm.guard {
                        match self.eval(g, &mut e2)? {
                            Val::Bool(true) => return Ok((i, e2)),
                            Val::Bool(false) => continue,
                            o => return Err(format!("guard `{}` evaluated to {}", tok(g), o.show())),
                        }
                    }
                    return Ok((i, e2));
                }
            }
        }
        Err(format!("no arm matches {}", v.show()))
    }

    /// `match place.as_mut() { Some(x) => .. }` / `if let Some(x) = place.as_mut()`: `x` aliases the payload of
    /// `place`, so what the arm did to `x` is written back.
    /// The arm of a `match` / `if let` over a mutable place (`self`, `*self`, `x.as_mut()`, `&mut x`, or a tuple of such)
    /// binds references into that place: what the arm assigned through them (`*value = ..`) is written back into the place.
    fn alias_writeback(&self, scrutinee: &syn::Expr, pat: &syn::Pat, arm_env: &Env, env: &mut Env) {
        // an or-pattern: the alternative that matches the scrutinee is the one whose bindings are live
        if let syn::Pat::Or(o) = pat {
            let mut probe = env.clone();
            if let Ok(v) = self.eval(scrutinee, &mut probe) {
                for c in o.cases.iter() {
                    let mut scratch = env.clone();
                    if matches!(self.pat_match(c, &v, &mut scratch), PatM::Yes) {
                        return self.alias_writeback(scrutinee, c, arm_env, env);
                    }
                }
            }
            return;
        }
        // `if let Some(x) = place.iter_mut().find(|e| ..)`: `x` aliases the first element the predicate accepts
        if let (syn::Expr::MethodCall(mc), syn::Pat::TupleStruct(ts)) = (scrutinee, pat) {
            if mc.method == "find" && mc.args.len() == 1 && ts.elems.len() == 1 && tok(&ts.path) == "Some" {
                if let (syn::Expr::MethodCall(im), syn::Pat::Ident(pi)) = (&*mc.receiver, &ts.elems[0]) {
                    if im.method == "iter_mut" && im.args.is_empty() {
                        if let Some(place) = self.place_of(&im.receiver) {
                            let list = match place_get_mut(env, &place) { Some(Val::List(l)) => l.clone(), _ => return };
                            let mut idx = None;
                            for (i, el) in list.iter().enumerate() {
                                if matches!(self.apply_closure(&mc.args[0], &[el.clone()], env), Ok(Val::Bool(true))) {
                                    idx = Some(i);
                                    break;
                                }
                            }
                            if let (Some(i), Some(nv)) = (idx, arm_env.get(&pi.ident.to_string()).cloned()) {
                                if let Some(Val::List(l)) = place_get_mut(env, &place) {
                                    if i < l.len() {
                                        l[i] = nv;
                                    }
                                }
                            }
                        }
                        return;
                    }
                }
            }
        }
        match (scrutinee, pat) {
            (syn::Expr::Tuple(t), syn::Pat::Tuple(pt)) if t.elems.len() == pt.elems.len() => {
                for (e, p) in t.elems.iter().zip(pt.elems.iter()) {
                    self.alias_writeback(e, p, arm_env, env);
                }
                return;
            }
            (syn::Expr::Paren(p), _) => return self.alias_writeback(&p.expr, pat, arm_env, env),
            _ => {}
        }
        let place_expr: &syn::Expr = match scrutinee {
            syn::Expr::MethodCall(mc) if mc.method == "as_mut" && mc.args.is_empty() => &mc.receiver,
            syn::Expr::Reference(r) if r.mutability.is_some() => &r.expr,
            syn::Expr::Unary(u) if matches!(u.op, syn::UnOp::Deref(_)) && tok(&u.expr) == "self" => &u.expr,
            syn::Expr::Path(p) if p.path.is_ident("self") => scrutinee,
            syn::Expr::Path(p) if p.path.get_ident().map(|i| MUT_REFS.with(|m| m.borrow().contains(&i.to_string()))).unwrap_or(false) => scrutinee,
            _ => return,
        };
        let Some(place) = self.place_of(place_expr) else { return };
        let Some(orig) = place_get_mut(env, &place).map(|v| v.clone()) else { return };
        fn rebuild(pat: &syn::Pat, orig: &Val, arm_env: &Env) -> Val {
            use syn::Pat;
            match pat {
                Pat::Ident(pi) if pi.subpat.is_none() && !is_upper_first(&pi.ident.to_string()) => {
                    let name = pi.ident.to_string();
                    let unchanged = ARM_INIT.with(|i| match (&*i.borrow(), arm_env.get(&name)) { (Some(init), Some(now)) => init.get(&name) == Some(now), _ => false });
                    if unchanged { orig.clone() } else { arm_env.get(&name).cloned().unwrap_or_else(|| orig.clone()) }
                }
                // `x @ <pattern>`: x is the whole of what the pattern matched (a mutable binding cannot coexist with bindings of
                // the sub-pattern, so the sub-pattern only tests)
                Pat::Ident(pi) if pi.subpat.is_some() && !is_upper_first(&pi.ident.to_string()) => {
                    let name = pi.ident.to_string();
                    let unchanged = ARM_INIT.with(|i| match (&*i.borrow(), arm_env.get(&name)) { (Some(init), Some(now)) => init.get(&name) == Some(now), _ => false });
                    if unchanged { orig.clone() } else { arm_env.get(&name).cloned().unwrap_or_else(|| orig.clone()) }
                }
                Pat::Reference(r) => rebuild(&r.pat, orig, arm_env),
                Pat::Paren(p) => rebuild(&p.pat, orig, arm_env),
                Pat::Type(t) => rebuild(&t.pat, orig, arm_env),
                Pat::TupleStruct(ts) => match orig {
                    Val::Ctor(n, pos, f) if pos.len() == ts.elems.len() && !ts.elems.iter().any(|e| matches!(e, Pat::Rest(_))) => {
                        Val::Ctor(n.clone(), ts.elems.iter().zip(pos.iter()).map(|(p, o)| rebuild(p, o, arm_env)).collect(), f.clone())
                    }
                    _ => orig.clone(),
                },
                Pat::Struct(ps) => match orig {
                    Val::Ctor(n, pos, f) => {
                        let mut f2 = f.clone();
                        for fp in ps.fields.iter() {
                            let k = tok(&fp.member);
                            if let Some(o) = f.get(&k) {
                                f2.insert(k, rebuild(&fp.pat, o, arm_env));
                            }
                        }
                        Val::Ctor(n.clone(), pos.clone(), f2)
                    }
                    _ => orig.clone(),
                },
                Pat::Tuple(t) => match orig {
                    Val::Tuple(vs) if vs.len() == t.elems.len() => Val::Tuple(t.elems.iter().zip(vs.iter()).map(|(p, o)| rebuild(p, o, arm_env)).collect()),
                    _ => orig.clone(),
                },
                Pat::Slice(ps) => match orig {
                    Val::List(vs) if vs.len() == ps.elems.len() && !ps.elems.iter().any(|e| matches!(e, Pat::Rest(_))) => Val::List(ps.elems.iter().zip(vs.iter()).map(|(p, o)| rebuild(p, o, arm_env)).collect()),
                    _ => orig.clone(),
                },
                _ => orig.clone(),
            }
        }
        // `x.as_mut()` on an Option place matches `Some(inner)`: the rebuilt value is the Option again
        let nv = rebuild(pat, &orig, arm_env);
        // an arm that assigned to the place itself (`*self = ..`) has already changed it: do not overwrite that
        if nv != orig {
            if let Some(t) = place_get_mut(env, &place) {
                if *t == orig {
                    *t = nv;
                }
            }
        }
    }

    pub fn eval_block(&self, b: &syn::Block, env: &mut Env) -> Result<Val, String> {
        let mut last = Val::Unit;
        for (i, s) in b.stmts.iter().enumerate() {
            let is_last = i + 1 == b.stmts.len();
            match s {
                syn::Stmt::Local(l) => {
                    let Some(init) = l.init.as_ref() else {
                        // `let x;` / `let x: T;` — declared here, assigned later
                        let mut p = &l.pat;
                        while let syn::Pat::Type(pt) = p {
                            p = &pt.pat;
                        }
                        match p {
                            syn::Pat::Ident(pi) => {
                                env.insert(pi.ident.to_string(), Val::Opaque("uninitialised".into()));
                            }
                            o => return Err(format!("let without initialiser: `{}`", tok(o))),
                        }
                        continue;
                    };
                    let v = self.eval(&init.expr, env)?;
                    if let Val::Ctor(n, p, _) = &v {
                        // `let x = match y { .. => return Err(..) };` — the early exit leaves the block, nothing is bound
                        if n == "$return" || n == "$break" || n == "$continue" {
                            return Ok(Val::Ctor(n.clone(), p.clone(), BTreeMap::new()));
                        }
                    }
                    match self.pat_match(&l.pat, &v, env) {
                        PatM::Yes => {}
                        PatM::No => {
                            if let Some((_, d)) = &init.diverge {
                                return self.eval(d, env);
                            }
                            return Err("refutable let did not match".into());
                        }
                        PatM::Unknown(s) => return Err(s),
                    }
                    last = Val::Unit;
                }
                syn::Stmt::Expr(e, semi) => {
                    let v = self.eval(e, env)?;
                    if let Val::Ctor(n, p, _) = &v {
                        // early exits leave the block (and are consumed by the enclosing fn / loop)
                        if n == "$return" || n == "$break" || n == "$continue" {
                            return Ok(Val::Ctor(n.clone(), p.clone(), BTreeMap::new()));
                        }
                    }
                    if is_last && semi.is_none() {
                        last = v;
                    } else {
                        last = Val::Unit;
                    }
                }
                syn::Stmt::Item(syn::Item::Fn(f)) => {
                    // a nested fn is bound like a closure over its (typed) parameters
                    let pats: Vec<String> = f.sig.inputs.iter().filter_map(|a| match a {
                        syn::FnArg::Typed(t) => Some(tok(&t.pat)),
                        _ => None,
                    }).collect();
                    let block = &f.block;
                    let text = format!("|{}| {}", pats.join(","), quote::quote!(#block));
                    if let Ok(cl) = syn::parse_str::<syn::ExprClosure>(&text) {
                        env.insert(f.sig.ident.to_string(), Val::Closure(Box::new(cl), Box::new(Env::new())));
                    }
                }
                syn::Stmt::Item(_) => {}
                syn::Stmt::Macro(m) => {
                    last = self.eval_macro(&m.mac, env)?;
                    if m.semi_token.is_some() {
                        last = Val::Unit;
                    }
                }
            }
        }
        Ok(last)
    }

    /// Evaluate a fn body with early `return` support.
    pub fn eval_fn_body(&self, b: &syn::Block, env: &mut Env) -> Result<Val, String> {
        match self.eval_block(b, env)? {
            Val::Ctor(n, mut p, _) if n == "$return" => Ok(p.pop().unwrap_or(Val::Unit)),
            v => Ok(v),
        }
    }

    fn eval_macro(&self, m: &syn::Macro, _env: &mut Env) -> Result<Val, String> {
        let name = m.path.segments.last().map(|s| s.ident.to_string()).unwrap_or_default();
        match name.as_str() {
            "quote" => {
                let q = crate::quotex::parse_quote_body(&m.tokens);
                Ok(Val::Sym(subst_quote(&q, _env)))
            }
            // the generators' own `error!(Kind, "fmt", ..)`: a GeneratorError of that kind
            "error" | "grammar_error" => {
                let kind = m.tokens.clone().into_iter().next().map(|t| t.to_string()).unwrap_or_default();
                let mut f = BTreeMap::new();
                f.insert("kind".to_string(), Val::ctor(&kind));
                Ok(Val::Ctor(if name == "error" { "GeneratorError" } else { "GrammarError" }.into(), vec![], f))
            }
            "format_ident" | "format" => {
                let args = crate::model::macro_args(m).ok_or("cannot parse macro args")?;
                if let Some(syn::Expr::Lit(l)) = args.first() {
                    if let syn::Lit::Str(tmpl) = &l.lit {
                        let t = tmpl.value();
                        if t.contains('{') {
                            let mut out = String::new();
                            let mut rest = t.as_str();
                            let mut pos = 1;
                            let mut ok = true;
                            loop {
                                // next `{` or `}`
                                let i = match rest.find(|c| c == '{' || c == '}') { Some(i) => i, None => break };
                                out.push_str(&rest[..i]);
                                let two = &rest[i..];
                                if two.starts_with("{{") {
                                    out.push('{');
                                    rest = &rest[i + 2..];
                                    continue;
                                }
                                if two.starts_with("}}") {
                                    out.push('}');
                                    rest = &rest[i + 2..];
                                    continue;
                                }
                                if two.starts_with('}') {
                                    ok = false;
                                    break;
                                }
                                let j = match rest[i..].find('}') { Some(j) => i + j, None => { ok = false; break } };
                                let inner_full = &rest[i + 1..j];
                                // `{name:spec}` / `{:spec}`: fill, alignment and width (literal or `var$`) are honoured
                                let (inner, spec) = match inner_full.split_once(':') { Some((a, b)) => (a, Some(b)), None => (inner_full, None) };
                                let v = if inner.is_empty() {
                                    let r = args.get(pos).map(|a| self.eval(a, _env));
                                    pos += 1;
                                    match r { Some(Ok(v)) => v, _ => { ok = false; break } }
                                } else if inner.chars().all(|c| c.is_alphanumeric() || c == '_') {
                                    match _env.get(inner) { Some(v) => v.clone(), None => { ok = false; break } }
                                } else { ok = false; break };
                                let mut text = match v {
                                    Val::Str(s) | Val::Sym(s) => s,
                                    Val::Int { v, .. } => v.to_string(),
                                    Val::Char(c) => c.to_string(),
                                    _ => { ok = false; break }
                                };
                                if let Some(spec) = spec {
                                    if spec == "?" || spec == "#?" {
                                        text = format!("{:?}", text);
                                    } else {
                                        // [[fill]align][width]
                                        let chars: Vec<char> = spec.chars().collect();
                                        let (fill, align, restspec): (char, char, String) = if chars.len() >= 2 && ['<', '>', '^'].contains(&chars[1]) {
                                            (chars[0], chars[1], chars[2..].iter().collect())
                                        } else if !chars.is_empty() && ['<', '>', '^'].contains(&chars[0]) {
                                            (' ', chars[0], chars[1..].iter().collect())
                                        } else {
                                            (' ', '<', spec.to_string())
                                        };
                                        let width: Option<usize> = if let Some(var) = restspec.strip_suffix('$') {
                                            match _env.get(var) { Some(Val::Int { v, .. }) => Some(*v as usize), _ => { ok = false; break } }
                                        } else if restspec.is_empty() { None } else { match restspec.parse::<usize>() { Ok(w) => Some(w), Err(_) => { ok = false; break } } };
                                        if let Some(w) = width {
                                            let len = text.chars().count();
                                            if len < w {
                                                let pad: String = std::iter::repeat(fill).take(w - len).collect();
                                                text = match align { '>' => format!("{}{}", pad, text), '^' => { let l = (w - len) / 2; format!("{}{}{}", pad.chars().take(l).collect::<String>(), text, pad.chars().skip(l).collect::<String>()) } _ => format!("{}{}", text, pad) };
                                            }
                                        }
                                    }
                                }
                                out.push_str(&text);
                                rest = &rest[j + 1..];
                            }
                            if ok {
                                out.push_str(rest);
                                return Ok(if name == "format" { Val::Str(out) } else { Val::Sym(out) });
                            }
                        }
                    }
                }
                if args.len() == 1 {
                    if let syn::Expr::Lit(l) = &args[0] {
                        if let syn::Lit::Str(s) = &l.lit {
                            let mut text = s.value();
                            // "{var}" with a known string binding
                            if text.starts_with('{') && text.ends_with('}') {
                                let var = text[1..text.len() - 1].to_string();
                                if let Some(Val::Str(v)) = _env.get(&var) {
                                    text = v.clone();
                                }
                            }
                            return Ok(Val::Sym(text));
                        }
                    }
                }
                Ok(Val::Sym(format!("{}!({})", name, crate::model::norm_tokens(&m.tokens.to_string()))))
            }
            // write!(f, ..) / writeln!(f, ..): the text is appended to the pseudo variable `$out`
            "write" | "writeln" => {
                let args = crate::model::macro_args(m).ok_or("cannot parse macro args")?;
                if args.len() < 2 {
                    return Err(format!("{}! without a format string", name));
                }
                let rest: Vec<&syn::Expr> = args.iter().skip(1).collect();
                let fm = syn::Macro {
                    path: syn::parse_quote!(format),
                    bang_token: m.bang_token,
                    delimiter: m.delimiter.clone(),
                    tokens: quote::quote!(#(#rest),*),
                };
                let text = match self.eval_macro(&fm, _env)? {
                    Val::Str(t) | Val::Sym(t) => t,
                    o => return Err(format!("{}!: formatted to {}", name, o.show())),
                };
                let mut cur = match _env.get("$out") { Some(Val::Str(c)) => c.clone(), _ => String::new() };
                cur.push_str(&text);
                if name == "writeln" {
                    cur.push('\n');
                }
                _env.insert("$out".into(), Val::Str(cur));
                Ok(Val::Ctor("Ok".into(), vec![Val::Unit], BTreeMap::new()))
            }
            "unreachable" | "todo" | "unimplemented" | "panic" => Ok(Val::Sym(format!("{}!", name))),
            "matches" => {
                let mm = crate::model::parse_matches(m).ok_or("cannot parse matches!")?;
                let v = self.eval(&mm.scrutinee, _env)?;
                let mut e2 = _env.clone();
                match self.pat_match(&mm.pat, &v, &mut e2) {
                    PatM::Yes => match mm.guard {
                        Some(g) => self.eval(&g, &mut e2),
                        None => Ok(Val::Bool(true)),
                    },
                    PatM::No => Ok(Val::Bool(false)),
                    PatM::Unknown(s) => Err(s),
                }
            }
            "vec" => {
                let args = crate::model::macro_args(m).ok_or("cannot parse vec! args")?;
                let mut v = vec![];
                for a in &args {
                    v.push(self.eval(a, _env)?);
                }
                Ok(Val::List(v))
            }
            // a macro of the analysed crate: a rule may model it; it is handed the arguments that parse as expressions,
            // evaluated as far as they can be (a bare fn name or anything unmodelled arrives as an opaque value)
            _ => {
                let args: Vec<Val> = match crate::model::macro_args(m) {
                    Some(a) => a.iter().map(|e| match e {
                        syn::Expr::Path(p) if p.path.segments.len() == 1 && !_env.contains_key(&p.path.segments[0].ident.to_string()) => Val::Sym(p.path.segments[0].ident.to_string()),
                        e => { let mut probe = _env.clone(); self.eval(e, &mut probe).unwrap_or(Val::Opaque("macro argument".into())) }
                    }).collect(),
                    None => vec![],
                };
                match (self.call_hook)(self, &format!("{}!", name), &args) {
                    Some(r) => r,
                    None => Err(format!("unsupported macro {}!", name)),
                }
            }
        }
    }

    pub fn eval(&self, e: &syn::Expr, env: &mut Env) -> Result<Val, String> {
        use syn::Expr;
        match e {
            Expr::Lit(l) => lit_val(&l.lit),
            Expr::Paren(p) => self.eval(&p.expr, env),
            Expr::Group(p) => self.eval(&p.expr, env),
            Expr::Reference(r) => self.eval(&r.expr, env),
            Expr::Unary(u) => {
                let v = self.eval(&u.expr, env)?;
                match (&u.op, v) {
                    (syn::UnOp::Deref(_), v) => Ok(v),
                    (syn::UnOp::Not(_), Val::Bool(b)) => Ok(Val::Bool(!b)),
                    (syn::UnOp::Neg(_), Val::Int { v, input }) => {
                        if input {
                            return Err("negation of an input: not order-only".into());
                        }
                        Ok(Val::int(v.checked_neg().ok_or("neg overflow")?))
                    }
                    (op, v) => Err(format!("unsupported unary {} on {}", tok(op), v.show())),
                }
            }
            Expr::Cast(c) => {
                let v = self.eval(&c.expr, env)?;
                let ty = tok(&c.ty);
                match v {
                    Val::Int { v, input } => {
                        // casts of constants only; a narrowing cast of an input would not be order-only
                        if input && ty != "i128" {
                            return Err(format!("cast of an input to {}: not order-only", ty));
                        }
                        // a constant is converted the way `as` does it (two's complement wrap to the target width)
                        let wrapped = match ty.as_str() {
                            "u8" => (v as u8) as i128,
                            "u16" => (v as u16) as i128,
                            "u32" => (v as u32) as i128,
                            "u64" | "usize" => (v as u64) as i128,
                            "i8" => (v as i8) as i128,
                            "i16" => (v as i16) as i128,
                            "i32" => (v as i32) as i128,
                            "i64" | "isize" => (v as i64) as i128,
                            _ => v,
                        };
                        Ok(Val::Int { v: if input { v } else { wrapped }, input })
                    }
                    // a character cast to an integer type is its code point (truncated to u8 for `as u8`)
                    Val::Char(ch) if ["u8", "u16", "u32", "u64", "u128", "usize", "i32", "i64", "i128", "isize"].contains(&ty.as_str()) => {
                        Ok(Val::int(if ty == "u8" { (ch as u32 as u8) as i128 } else { ch as u32 as i128 }))
                    }
                    Val::Bool(b) if ["u8", "u16", "u32", "u64", "u128", "usize", "i32", "i64", "i128", "isize"].contains(&ty.as_str()) => Ok(Val::int(b as i128)),
                    o => Ok(o),
                }
            }
            Expr::Path(p) => {
                let full = tok(&p.path);
                if p.path.segments.len() == 1 {
                    let n = p.path.segments[0].ident.to_string();
                    if let Some(v) = env.get(&n) {
                        return Ok(v.clone());
                    }
                    if let Some(c) = (self.consts)(&n) {
                        return Ok(c);
                    }
                    if n == "None" {
                        return Ok(Val::none());
                    }
                    if is_upper_first(&n) {
                        return Ok(Val::ctor(&n));
                    }
                    return Ok(Val::Opaque(format!("unbound variable {}", n)));
                }
                if p.path.segments.len() == 2 {
                    let a = p.path.segments[0].ident.to_string();
                    let b = p.path.segments[1].ident.to_string();
                    if let Some(c) = int_const(&a, &b) {
                        return Ok(Val::int(c));
                    }
                }
                if let Some(c) = (self.consts)(&full) {
                    return Ok(c);
                }
                let last = p.path.segments.last().unwrap().ident.to_string();
                if let Some(c) = (self.consts)(&last) {
                    return Ok(c);
                }
                Ok(Val::ctor(&last))
            }
            Expr::Tuple(t) => {
                if t.elems.is_empty() {
                    return Ok(Val::Unit);
                }
                let mut v = vec![];
                for e in t.elems.iter() {
                    v.push(self.eval(e, env)?);
                }
                Ok(Val::Tuple(v))
            }
            Expr::Binary(b) => {
                use syn::BinOp::*;
                // short circuit
                match &b.op {
                    And(_) => {
                        return match self.eval(&b.left, env)? {
                            Val::Bool(false) => Ok(Val::Bool(false)),
                            Val::Bool(true) => self.eval(&b.right, env),
                            o => Err(format!("&& on {}", o.show())),
                        }
                    }
                    Or(_) => {
                        return match self.eval(&b.left, env)? {
                            Val::Bool(true) => Ok(Val::Bool(true)),
                            Val::Bool(false) => self.eval(&b.right, env),
                            o => Err(format!("|| on {}", o.show())),
                        }
                    }
                    _ => {}
                }
                if matches!(&b.op, AddAssign(_) | SubAssign(_)) {
                    // compound assignment: ints are computed, anything else goes through the hook `op:add_assign`
                    let place = self.place_of(&b.left).ok_or_else(|| format!("compound assignment to non-place {}", tok(&b.left)))?;
                    let l = self.eval(&b.left, env)?;
                    let r = self.eval(&b.right, env)?;
                    let nv = match (&l, &r, &b.op) {
                        (Val::Int { v: x, input: false }, Val::Int { v: y, input: false }, AddAssign(_)) => Val::int(x.checked_add(*y).ok_or("constant arithmetic overflow")?),
                        (Val::Int { v: x, input: false }, Val::Int { v: y, input: false }, SubAssign(_)) => Val::int(x.checked_sub(*y).ok_or("constant arithmetic overflow")?),
                        (Val::Str(x), Val::Str(y), AddAssign(_)) => Val::Str(format!("{}{}", x, y)),
                        (Val::Str(x), Val::Sym(y), AddAssign(_)) => Val::Str(format!("{}{}", x, y)),
                        (_, _, AddAssign(_)) => match (self.call_hook)(self, "op:add_assign", &[l.clone(), r.clone()]) {
                            Some(v) => v?,
                            None => return Err(format!("unsupported `+=` on {} , {}", l.show(), r.show())),
                        },
                        _ => return Err(format!("unsupported compound assignment {}", tok(b))),
                    };
                    let t = place_get_mut(env, &place).ok_or_else(|| format!("cannot resolve place {}", tok(&b.left)))?;
                    *t = nv;
                    return Ok(Val::Unit);
                }
                let l = self.eval(&b.left, env)?;
                if matches!(&l, Val::Ctor(n, _, _) if n == "$return") {
                    return Ok(l); // `a? + b`: the early return of an operand is the result
                }
                let r = self.eval(&b.right, env)?;
                if matches!(&r, Val::Ctor(n, _, _) if n == "$return") {
                    return Ok(r);
                }
                match (&l, &r) {
                    (Val::Int { v: x, input: i1 }, Val::Int { v: y, input: i2 }) => {
                        if *i1 && !*i2 {
                            CMP_LOG.with(|l| l.borrow_mut().insert(*y));
                        } else if *i2 && !*i1 {
                            CMP_LOG.with(|l| l.borrow_mut().insert(*x));
                        }
                        let cmp = |f: fn(&i128, &i128) -> bool| Ok(Val::Bool(f(x, y)));
                        match &b.op {
                            Lt(_) => cmp(|a, b| a < b),
                            Le(_) => cmp(|a, b| a <= b),
                            Gt(_) => cmp(|a, b| a > b),
                            Ge(_) => cmp(|a, b| a >= b),
                            Eq(_) => cmp(|a, b| a == b),
                            Ne(_) => cmp(|a, b| a != b),
                            Add(_) | Sub(_) | Mul(_) | Div(_) | Rem(_) | Shl(_) | Shr(_) => {
                                if *i1 || *i2 {
                                    return Err(format!(
                                        "arithmetic `{}` on an input value: the fn is not order-only",
                                        tok(b)
                                    ));
                                }
                                let r = match &b.op {
                                    Add(_) => x.checked_add(*y),
                                    Sub(_) => x.checked_sub(*y),
                                    Mul(_) => x.checked_mul(*y),
                                    Div(_) => x.checked_div(*y),
                                    Rem(_) => x.checked_rem(*y),
                                    Shl(_) => x.checked_shl(*y as u32),
                                    Shr(_) => x.checked_shr(*y as u32),
                                    _ => None,
                                };
                                Ok(Val::int(r.ok_or("constant arithmetic overflow")?))
                            }
                            o => Err(format!("unsupported int op {}", tok(o))),
                        }
                    }
                    (Val::Str(a), Val::Str(c)) if matches!(&b.op, Add(_)) => Ok(Val::Str(format!("{}{}", a, c))),
                    (Val::Char(a), Val::Char(c)) if matches!(&b.op, Lt(_) | Le(_) | Gt(_) | Ge(_) | Eq(_) | Ne(_)) => Ok(Val::Bool(match &b.op {
                        Lt(_) => a < c,
                        Le(_) => a <= c,
                        Gt(_) => a > c,
                        Ge(_) => a >= c,
                        Eq(_) => a == c,
                        _ => a != c,
                    })),
                    _ => match &b.op {
                        Add(_) if (self.call_hook)(self, "op:add", &[l.clone(), r.clone()]).is_some() => {
                            (self.call_hook)(self, "op:add", &[l.clone(), r.clone()]).unwrap()
                        }
                        Eq(_) => match self.val_eq(&l, &r) {
                            PatM::Yes => Ok(Val::Bool(true)),
                            PatM::No => Ok(Val::Bool(false)),
                            PatM::Unknown(s) => Err(s),
                        },
                        Ne(_) => match self.val_eq(&l, &r) {
                            PatM::Yes => Ok(Val::Bool(false)),
                            PatM::No => Ok(Val::Bool(true)),
                            PatM::Unknown(s) => Err(s),
                        },
                        // non-short-circuit logic on booleans
                        BitOr(_) | BitAnd(_) | BitXor(_) if matches!((&l, &r), (Val::Bool(_), Val::Bool(_))) => {
                            let (Val::Bool(x), Val::Bool(y)) = (&l, &r) else { unreachable!() };
                            Ok(Val::Bool(match &b.op { BitOr(_) => *x | *y, BitAnd(_) => *x & *y, _ => *x ^ *y }))
                        }
                        o => Err(format!("unsupported op {} on {} , {}", tok(o), l.show(), r.show())),
                    },
                }
            }
            Expr::If(i) => {
                if let Expr::Let(l) = &*i.cond {
                    let v = self.eval(&l.expr, env)?;
                    let mut e2 = env.clone();
                    return match self.pat_match(&l.pat, &v, &mut e2) {
                        PatM::Yes => {
                            let init = e2.clone();
                            let r = self.eval_block(&i.then_branch, &mut e2);
                            merge_back_shadow_safe(env, &e2, &l.pat);
                            let prev = ARM_INIT.with(|a| a.borrow_mut().replace(init));
                            self.alias_writeback(&l.expr, &l.pat, &e2, env);
                            ARM_INIT.with(|a| *a.borrow_mut() = prev);
                            r
                        }
                        PatM::No => match &i.else_branch {
                            Some((_, e)) => self.eval(e, env),
                            None => Ok(Val::Unit),
                        },
                        PatM::Unknown(s) => Err(s),
                    };
                }
                match self.eval(&i.cond, env)? {
                    Val::Bool(true) => {
                        let mut e2 = env.clone();
                        let r = self.eval_block(&i.then_branch, &mut e2);
                        merge_back(env, &e2);
                        r
                    }
                    Val::Bool(false) => match &i.else_branch {
                        Some((_, e)) => self.eval(e, env),
                        None => Ok(Val::Unit),
                    },
                    o => Err(format!("if condition evaluated to {}", o.show())),
                }
            }
            Expr::Block(b) => {
                let mut e2 = env.clone();
                let r = self.eval_block(&b.block, &mut e2);
                merge_back(env, &e2);
                r
            }
            Expr::Assign(a) => {
                let v = self.eval(&a.right, env)?;
                match &*a.left {
                    Expr::Path(p) if p.path.segments.len() == 1 => {
                        env.insert(p.path.segments[0].ident.to_string(), v);
                        Ok(Val::Unit)
                    }
                    // destructuring assignment `(a, b) = ..`
                    Expr::Tuple(t) if t.elems.iter().all(|e| matches!(e, Expr::Path(p) if p.path.segments.len() == 1)) => match v {
                        Val::Tuple(vs) if vs.len() == t.elems.len() => {
                            for (e, v) in t.elems.iter().zip(vs) {
                                env.insert(tok(e), v);
                            }
                            Ok(Val::Unit)
                        }
                        Val::Ctor(n, p, f) if n == "$return" => Ok(Val::Ctor(n, p, f)),
                        o => Err(format!("destructuring assignment of {}", o.show())),
                    },
                    other => {
                        if let Some(place) = self.place_of(other) {
                            if let Some(t) = place_get_mut(env, &place) {
                                *t = v;
                                return Ok(Val::Unit);
                            }
                        }
                        Err(format!("unsupported assignment target `{}`", tok(other)))
                    }
                }
            }
            Expr::Match(m) => {
                let v = self.eval(&m.expr, env)?;
                let (i, mut e2) = self.select_arm(m, &v, env)?;
                let init = e2.clone();
                let r = self.eval(&m.arms[i].body, &mut e2);
                merge_back_shadow_safe(env, &e2, &m.arms[i].pat);
                let prev = ARM_INIT.with(|a| a.borrow_mut().replace(init));
                self.alias_writeback(&m.expr, &m.arms[i].pat, &e2, env);
                ARM_INIT.with(|a| *a.borrow_mut() = prev);
                r
            }
            Expr::Return(r) => {
                let v = match &r.expr {
                    Some(e) => self.eval(e, env)?,
                    None => Val::Unit,
                };
                Ok(Val::Ctor("$return".into(), vec![v], BTreeMap::new()))
            }
            Expr::Macro(m) => self.eval_macro(&m.mac, env),
            Expr::Call(c) if matches!(&*c.func, Expr::Call(_)) => {
                // curried application `f(a)(b)` (nom parser constructors): offered to the hook as `f()` with a ++ b
                let Expr::Call(inner) = &*c.func else { unreachable!() };
                let name = crate::model::callee_name(inner).unwrap_or_default();
                let mut args = vec![];
                for a in inner.args.iter().chain(c.args.iter()) {
                    args.push(self.eval(a, env)?);
                }
                match (self.call_hook)(self, &format!("{}()", name), &args) {
                    Some(r) => r,
                    None => Ok(Val::Opaque(format!("call {}", tok(&c.func)))),
                }
            }
            // std::mem::take(&mut place[i]): the element is taken, its default stays in the list
            Expr::Call(c) if { let t = tok(&c.func); t == "std::mem::take" || t == "mem::take" || t == "core::mem::take" } && c.args.len() == 1
                && matches!(&c.args[0], Expr::Reference(r) if matches!(&*r.expr, Expr::Index(ix) if self.place_of(&ix.expr).is_some())) =>
            {
                let Expr::Reference(r) = &c.args[0] else { unreachable!() };
                let Expr::Index(ix) = &*r.expr else { unreachable!() };
                let place = self.place_of(&ix.expr).unwrap();
                let i = match self.eval(&ix.index, env)? { Val::Int { v, .. } if v >= 0 => v as usize, o => return Err(format!("mem::take of an element at {}", o.show())) };
                match place_get_mut(env, &place) {
                    Some(Val::List(l)) if i < l.len() => {
                        let dflt = match &l[i] { Val::List(_) => Val::List(vec![]), Val::Str(_) => Val::Str(String::new()), Val::Int { .. } => Val::int(0), Val::Bool(_) => Val::Bool(false), o => return Err(format!("mem::take of {}", o.show())) };
                        Ok(std::mem::replace(&mut l[i], dflt))
                    }
                    Some(Val::List(l)) => Err(format!("index {} of a list of {} (the code would panic here)", i, l.len())),
                    _ => Err(format!("cannot resolve place {}", tok(&ix.expr))),
                }
            }
            // std::mem::take(&mut place): yields the value and leaves the type's default behind
            Expr::Call(c) if { let t = tok(&c.func); t == "std::mem::take" || t == "mem::take" || t == "core::mem::take" } && c.args.len() == 1 && self.place_of(&c.args[0]).is_some() => {
                let place = self.place_of(&c.args[0]).unwrap();
                let cur = self.eval(&c.args[0], env)?;
                let dflt = match &cur {
                    Val::List(_) => Val::List(vec![]),
                    Val::Str(_) => Val::Str(String::new()),
                    Val::Int { .. } => Val::int(0),
                    Val::Bool(_) => Val::Bool(false),
                    Val::Ctor(n, _, _) if n == "Some" || n == "None" => Val::none(),
                    Val::Ctor(n, _, _) if n == "$map" => new_map(),
                    o => return Err(format!("mem::take of {}", o.show())),
                };
                let t = place_get_mut(env, &place).ok_or_else(|| format!("cannot resolve place {}", tok(&c.args[0])))?;
                *t = dflt;
                Ok(cur)
            }
            Expr::Call(c) => {
                let name = crate::model::callee_name(c).unwrap_or_default();
                let mut args = vec![];
                for a in c.args.iter() {
                    let v = self.eval(a, env)?;
                    if matches!(&v, Val::Ctor(n, _, _) if n == "$return") {
                        return Ok(v); // `Ok(match x { .. => return Err(..) })`: the early return leaves the call unevaluated
                    }
                    args.push(v);
                }
                if let Some(r) = (self.call_hook)(self, &tok(&c.func), &args) {
                    return r;
                }
                if args.is_empty() && (name == "new" || name == "default") {
                    let t = tok(&c.func);
                    if t.starts_with("BTreeMap::") || t.starts_with("HashMap::") || t.contains("::BTreeMap::") || t.contains("::HashMap::") {
                        return Ok(new_map());
                    }
                    if t.starts_with("BTreeSet::") || t.starts_with("HashSet::") || t.contains("::BTreeSet::") || t.contains("::HashSet::") {
                        return Ok(new_set());
                    }
                }
                if let Some(Val::Closure(cl, cenv)) = env.get(&name).cloned() {
                    // a closure or nested fn called by name: it may call itself, and `&mut place` arguments are written back
                    let mut e2 = (*cenv).clone();
                    e2.insert(name.clone(), Val::Closure(cl.clone(), cenv.clone()));
                    let mut pnames: Vec<Option<String>> = vec![];
                    for (p, a) in cl.inputs.iter().zip(args.iter()) {
                        pnames.push(match p {
                            syn::Pat::Ident(pi) => Some(pi.ident.to_string()),
                            _ => None,
                        });
                        match self.pat_match(p, a, &mut e2) {
                            PatM::Yes => {}
                            o => return Err(format!("closure param: {:?}", o)),
                        }
                    }
                    let r = self.eval(&cl.body, &mut e2)?;
                    for (pn, ae) in pnames.iter().zip(c.args.iter()) {
                        let target = match ae {
                            syn::Expr::Reference(rf) if rf.mutability.is_some() => self.place_of(&rf.expr),
                            other => self.place_of(other),
                        };
                        if let (Some(pn), Some(place)) = (pn, target) {
                            if let (Some(nv), Some(t)) = (e2.get(pn).cloned(), place_get_mut(env, &place)) {
                                if matches!(nv, Val::List(_)) || matches!(ae, syn::Expr::Reference(rf) if rf.mutability.is_some()) {
                                    *t = nv;
                                }
                            }
                        }
                    }
                    return Ok(match r {
                        Val::Ctor(n, mut p, _) if n == "$return" => p.pop().unwrap_or(Val::Unit),
                        o => o,
                    });
                }
                if let Some(tbl) = self.inline {
                    if let Some((params, body)) = tbl.get(&name) {
                        let mut e2 = Env::new();
                        for (pn, a) in params.iter().zip(args.iter()) {
                            e2.insert(pn.clone(), a.clone());
                        }
                        let r = self.eval_fn_body(body, &mut e2)?;
                        // write back `&mut place` arguments
                        for (pn, ae) in params.iter().zip(c.args.iter()) {
                            if let syn::Expr::Reference(rf) = ae {
                                if rf.mutability.is_some() {
                                    if let (Some(place), Some(nv)) = (self.place_of(&rf.expr), e2.get(pn)) {
                                        if let Some(t) = place_get_mut(env, &place) {
                                            *t = nv.clone();
                                        }
                                    }
                                }
                            } else if let Some(place) = self.place_of(ae) {
                                // a `&mut Vec` parameter forwarded by name
                                if let (Some(Val::List(_)), Some(nv)) = (env.get(&place.0), e2.get(pn)) {
                                    if place.1.is_empty() {
                                        let nv = nv.clone();
                                        if let Val::List(_) = nv {
                                            env.insert(place.0.clone(), nv);
                                        }
                                    }
                                }
                            }
                        }
                        return Ok(r);
                    }
                }
                let full = tok(&c.func);
                if (full == "String::from" || full == "String::new" || full == "String::default" || full.ends_with("::to_owned") || full == "Box::new" || full == "Some" && false) && args.len() <= 1 {
                    return Ok(args.into_iter().next().unwrap_or(Val::Str(String::new())));
                }
                if full == "Vec::new" || full == "Vec::with_capacity" || full == "Vec::default" || full == "VecDeque::new" || full.starts_with("Vec::<") && (full.ends_with("::new") || full.ends_with("::with_capacity")) {
                    return Ok(Val::List(vec![]));
                }
                if (full == "char::from" || full == "char::from_u32" || full == "char::from_digit" && false) && args.len() == 1 {
                    if let Val::Int { v, .. } = &args[0] {
                        // char::from takes a u8 (Latin-1); char::from_u32 answers None for a surrogate or a value above U+10FFFF
                        let c = u32::try_from(*v).ok().and_then(char::from_u32);
                        return Ok(if full == "char::from" { match c { Some(c) if *v < 256 => Val::Char(c), _ => return Err(format!("char::from({})", v)) } } else { c.map(|c| Val::some(Val::Char(c))).unwrap_or(Val::none()) });
                    }
                }
                if ["u8::from", "u16::from", "u32::from", "u64::from", "u128::from", "usize::from", "i32::from", "i64::from", "i128::from"].contains(&full.as_str()) && args.len() == 1 && matches!(args[0], Val::Int { .. }) {
                    return Ok(args.into_iter().next().unwrap());
                }
                // a Cow is the text it holds
                if (full == "Cow::Borrowed" || full == "Cow::Owned" || full == "Cow::from") && args.len() == 1 {
                    return Ok(args.into_iter().next().unwrap());
                }
                if full == "String::with_capacity" {
                    return Ok(Val::Str(String::new()));
                }
                match name.as_str() {
                    "Some" | "Ok" | "Err" => Ok(Val::Ctor(name, args, BTreeMap::new())),
                    _ if is_upper_first(&name) => Ok(Val::Ctor(name, args, BTreeMap::new())),
                    _ if name.ends_with("_unsuffixed") || name.ends_with("_suffixed") => {
                        Ok(args.into_iter().next().unwrap_or(Val::Unit))
                    }
                    _ => Ok(Val::Opaque(format!("call {}", tok(&c.func)))),
                }
            }
            // `$map` values (created by a rule's hook for BTreeMap::new / HashMap::new): entry chains and in-place updates
            Expr::MethodCall(mc) if ["or_insert", "or_insert_with", "or_default", "and_modify"].contains(&mc.method.to_string().as_str()) && self.entry_chain(mc, env).is_some() => {
                let (place, key_expr, ops) = self.entry_chain(mc, env).unwrap();
                let key = map_key(&self.eval(&key_expr, env)?);
                let mut cur: Option<Val> = match place_get_mut(env, &place) {
                    Some(Val::Ctor(n, _, f)) if n == "$map" => f.get(&key).cloned(),
                    _ => return Err("entry chain on a value that is not a map".into()),
                };
                for (m, args) in ops {
                    match m.as_str() {
                        "and_modify" => {
                            if let (Some(v), Some(syn::Expr::Closure(cl))) = (cur.clone(), args.first()) {
                                let mut e2 = env.clone();
                                let pname = match cl.inputs.first() { Some(syn::Pat::Ident(pi)) => pi.ident.to_string(), _ => return Err("and_modify: closure parameter is not a name".into()) };
                                e2.insert(pname.clone(), v);
                                self.eval(&cl.body, &mut e2)?;
                                cur = e2.get(&pname).cloned();
                            }
                        }
                        "or_insert" => {
                            if cur.is_none() {
                                cur = Some(match args.first() { Some(a) => self.eval(a, env)?, None => Val::Unit });
                            }
                        }
                        "or_insert_with" => {
                            if cur.is_none() {
                                cur = Some(match args.first() { Some(a) => self.apply_closure(a, &[], env)?, None => Val::Unit });
                            }
                        }
                        "or_default" => {
                            if cur.is_none() {
                                cur = Some(Val::int(0));
                            }
                        }
                        _ => {}
                    }
                }
                if let (Some(v), Some(Val::Ctor(_, _, f))) = (cur.clone(), place_get_mut(env, &place)) {
                    f.insert(key, v);
                }
                Ok(cur.unwrap_or(Val::Unit))
            }
            Expr::MethodCall(mc) if ["insert", "remove", "clear"].contains(&mc.method.to_string().as_str())
                && self.place_of(&mc.receiver).is_some()
                && matches!(self.eval(&mc.receiver, env), Ok(Val::Ctor(n, _, _)) if n == "$set") =>
            {
                let place = self.place_of(&mc.receiver).unwrap();
                let mut args = vec![];
                for a in mc.args.iter() {
                    args.push(self.eval(a, env)?);
                }
                let Some(Val::Ctor(_, _, f)) = place_get_mut(env, &place) else { return Err("set place lost".into()) };
                match mc.method.to_string().as_str() {
                    "insert" => {
                        let x = args.into_iter().next().ok_or("insert without element")?;
                        Ok(Val::Bool(f.insert(set_key(&x), x).is_none()))
                    }
                    "remove" => Ok(Val::Bool(f.remove(&set_key(args.first().ok_or("remove without element")?)).is_some())),
                    _ => {
                        f.clear();
                        Ok(Val::Unit)
                    }
                }
            }
            Expr::MethodCall(mc) if ["insert", "remove", "clear", "extend", "append"].contains(&mc.method.to_string().as_str())
                && self.place_of(&mc.receiver).is_some()
                && matches!(self.eval(&mc.receiver, env), Ok(Val::Ctor(n, _, _)) if n == "$map") =>
            {
                let place = self.place_of(&mc.receiver).unwrap();
                let mut args = vec![];
                for a in mc.args.iter() {
                    args.push(self.eval(a, env)?);
                }
                let Some(Val::Ctor(_, _, f)) = place_get_mut(env, &place) else { return Err("map place lost".into()) };
                match mc.method.to_string().as_str() {
                    "insert" => {
                        let k = map_key(args.first().ok_or("insert without key")?);
                        let old = f.insert(k, args.get(1).cloned().unwrap_or(Val::Unit));
                        Ok(old.map(Val::some).unwrap_or(Val::none()))
                    }
                    "remove" => {
                        let k = map_key(args.first().ok_or("remove without key")?);
                        Ok(f.remove(&k).map(Val::some).unwrap_or(Val::none()))
                    }
                    "extend" | "append" => match args.into_iter().next() {
                        Some(Val::List(items)) => {
                            for it in items {
                                match it {
                                    Val::Tuple(kv) if kv.len() == 2 => {
                                        f.insert(map_key(&kv[0]), kv[1].clone());
                                    }
                                    o => return Err(format!("map.extend with the item {}", o.show())),
                                }
                            }
                            Ok(Val::Unit)
                        }
                        Some(Val::Ctor(n, _, g)) if n == "$map" => {
                            for (k, v) in g {
                                f.insert(k, v);
                            }
                            Ok(Val::Unit)
                        }
                        o => Err(format!("map.extend({:?})", o.map(|x| x.show()))),
                    },
                    _ => {
                        f.clear();
                        Ok(Val::Unit)
                    }
                }
            }
            // `it.next_if_eq(&x)` on an iterator held in a variable: consumes the head only when it equals x
            Expr::MethodCall(mc) if mc.method == "next_if_eq" && mc.args.len() == 1 && matches!(&*mc.receiver, Expr::Path(p) if p.path.segments.len() == 1)
                && matches!(self.eval(&mc.receiver, env), Ok(Val::List(_))) =>
            {
                let want = self.eval(&mc.args[0], env)?;
                let place = self.place_of(&mc.receiver).unwrap();
                match place_get_mut(env, &place) {
                    Some(Val::List(l)) => Ok(if l.first() == Some(&want) { Val::some(l.remove(0)) } else { Val::none() }),
                    _ => Err("iterator place lost".into()),
                }
            }
            // `place.take()` on an Option held in a place: yields the value and leaves None behind
            Expr::MethodCall(mc) if mc.method == "take" && mc.args.is_empty() && self.place_of(&mc.receiver).is_some()
                && matches!(self.eval(&mc.receiver, &mut env.clone()), Ok(Val::Ctor(ref n, _, _)) if n == "Some" || n == "None") =>
            {
                let place = self.place_of(&mc.receiver).unwrap();
                // a field of a `&mut` closure parameter or of a binding into one: the place is the variable itself
                match place_get_mut(env, &place) {
                    Some(t) => Ok(std::mem::replace(t, Val::none())),
                    None => Err(format!("cannot resolve place {}", tok(&mc.receiver))),
                }
            }
            // `place.iter_mut().map(|x| ..)` / `place.chunks_mut(n).map(|chunk| ..)`: the closure gets a `&mut` into the place — what
            // it does to its parameter is done to the elements (evaluated eagerly, element by element)
            Expr::MethodCall(mc) if mc.method == "map" && mc.args.len() == 1
                && matches!(&*mc.receiver, Expr::MethodCall(im) if (im.method == "iter_mut" && im.args.is_empty() || im.method == "chunks_mut" && im.args.len() == 1) && self.place_of(&im.receiver).is_some())
                && matches!(&mc.args[0], Expr::Closure(cl) if cl.inputs.len() == 1 && matches!(&cl.inputs[0], syn::Pat::Ident(pi) if pi.subpat.is_none())) =>
            {
                let Expr::Closure(cl) = &mc.args[0] else { unreachable!() };
                let Expr::MethodCall(im) = &*mc.receiver else { unreachable!() };
                let syn::Pat::Ident(pi) = &cl.inputs[0] else { unreachable!() };
                let param = pi.ident.to_string();
                let place = self.place_of(&im.receiver).unwrap();
                let items = match self.eval(&im.receiver, env)? { Val::List(l) => l, o => return Err(format!("{} over {}", im.method, o.show())) };
                let n = if im.method == "chunks_mut" {
                    match self.eval(&im.args[0], env)? { Val::Int { v, .. } if v > 0 => v as usize, o => return Err(format!("chunks_mut({})", o.show())) }
                } else { 1 };
                let mut out = vec![];
                let mut start = 0usize;
                while start < items.len() {
                    let end = (start + n).min(items.len());
                    let arg = if im.method == "chunks_mut" { Val::List(items[start..end].to_vec()) } else { items[start].clone() };
                    let mut e2 = env.clone();
                    e2.insert(param.clone(), arg);
                    let fresh = MUT_REFS.with(|m| m.borrow_mut().insert(param.clone()));
                    let r = self.eval(&cl.body, &mut e2);
                    if fresh {
                        MUT_REFS.with(|m| { m.borrow_mut().remove(&param); });
                    }
                    let r = match r? { Val::Ctor(k, mut p, _) if k == "$return" => p.pop().unwrap_or(Val::Unit), o => o };
                    out.push(r);
                    merge_back_shadow_safe(env, &e2, &cl.inputs[0]);
                    if let (Some(nv), Some(Val::List(l))) = (e2.get(&param).cloned(), place_get_mut(env, &place)) {
                        match nv {
                            Val::List(ch) if im.method == "chunks_mut" && ch.len() == end - start => {
                                for (k, v) in ch.into_iter().enumerate() {
                                    if start + k < l.len() { l[start + k] = v; }
                                }
                            }
                            v if im.method == "iter_mut" => { if start < l.len() { l[start] = v; } }
                            _ => {}
                        }
                    }
                    start = end;
                }
                Ok(Val::List(out))
            }
            // `place.iter_mut().try_for_each(|x| ..)` / `.for_each(..)`: the loop it stands for, so that what the closure does to `x`
            // is done to the element (see the `for x in place.iter_mut()` write-back)
            Expr::MethodCall(mc) if (mc.method == "try_for_each" || mc.method == "for_each") && mc.args.len() == 1
                && matches!(&*mc.receiver, Expr::MethodCall(im) if im.method == "iter_mut" && im.args.is_empty() && self.place_of(&im.receiver).is_some())
                && matches!(&mc.args[0], Expr::Closure(cl) if cl.inputs.len() == 1 && matches!(&cl.inputs[0], syn::Pat::Ident(pi) if pi.subpat.is_none())) =>
            {
                let Expr::Closure(cl) = &mc.args[0] else { unreachable!() };
                let pat = &cl.inputs[0];
                let body = &cl.body;
                let recv = &mc.receiver;
                let desugared: syn::Expr = if mc.method == "try_for_each" {
                    syn::parse_quote!({
                        let mut __tfe = Ok(());
                        for #pat in #recv {
                            let __r = #body;
                            if let Err(__e) = __r {
                                __tfe = Err(__e);
                                break;
                            }
                        }
                        __tfe
                    })
                } else {
                    syn::parse_quote!({
                        for #pat in #recv {
                            #body;
                        }
                    })
                };
                self.eval(&desugared, env)
            }
            // an in-place method on a sub-slice of a list held in a place (`v[..n].sort_by_key(..)`, `v[a..b].reverse()`): the method is
            // run on a temporary holding the sub-slice, which is then written back
            Expr::MethodCall(mc) if ["sort", "sort_unstable", "sort_by", "sort_by_key", "sort_unstable_by", "sort_unstable_by_key", "reverse", "swap", "fill"].contains(&mc.method.to_string().as_str())
                && matches!(&*mc.receiver, Expr::Index(ix) if matches!(&*ix.index, Expr::Range(_)) && self.place_of(&ix.expr).is_some()) =>
            {
                let Expr::Index(ix) = &*mc.receiver else { unreachable!() };
                let Expr::Range(r) = &*ix.index else { unreachable!() };
                let place = self.place_of(&ix.expr).unwrap();
                let Val::List(full) = self.eval(&ix.expr, env)? else { return Err(format!("slice of {}", tok(&ix.expr))) };
                let int = |v: Val| match v { Val::Int { v, .. } if v >= 0 => Ok(v as usize), o => Err(format!("slice bound {}", o.show())) };
                let lo = match &r.start { Some(e) => int(self.eval(e, env)?)?, None => 0 };
                let hi = match &r.end { Some(e) => int(self.eval(e, env)?)? + if matches!(r.limits, syn::RangeLimits::Closed(_)) { 1 } else { 0 }, None => full.len() };
                if lo > hi || hi > full.len() {
                    return Err(format!("slice {}..{} of a list of {} (the code would panic here)", lo, hi, full.len()));
                }
                env.insert("__slice_tmp".into(), Val::List(full[lo..hi].to_vec()));
                let mut call = mc.clone();
                call.receiver = Box::new(syn::parse_quote!(__slice_tmp));
                let r2 = self.eval(&Expr::MethodCall(call), env);
                let sub = env.remove("__slice_tmp");
                let out = r2?;
                if let (Some(Val::List(sub)), Some(Val::List(l))) = (sub, place_get_mut(env, &place)) {
                    if sub.len() == hi - lo && hi <= l.len() {
                        for (k, v) in sub.into_iter().enumerate() {
                            l[lo + k] = v;
                        }
                    }
                }
                Ok(out)
            }
            // an iterator held in a variable is consumed by `next()`
            Expr::MethodCall(mc) if mc.method == "next" && mc.args.is_empty() && matches!(&*mc.receiver, Expr::Path(p) if p.path.segments.len() == 1)
                && matches!(self.eval(&mc.receiver, env), Ok(Val::List(_))) =>
            {
                let place = self.place_of(&mc.receiver).unwrap();
                match place_get_mut(env, &place) {
                    Some(Val::List(l)) => Ok(if l.is_empty() { Val::none() } else { Val::some(l.remove(0)) }),
                    _ => Err("iterator place lost".into()),
                }
            }
            Expr::MethodCall(mc) if ["sort_by", "sort_by_key", "sort_unstable_by", "sort_unstable_by_key"].contains(&mc.method.to_string().as_str())
                && mc.args.len() == 1
                && self.place_of(&mc.receiver).is_some()
                && matches!(self.eval(&mc.receiver, env), Ok(Val::List(_))) =>
            {
                let place = self.place_of(&mc.receiver).unwrap();
                let Ok(Val::List(items)) = self.eval(&mc.receiver, env) else { unreachable!() };
                let by_key = mc.method.to_string().ends_with("_key");
                // a stable insertion sort driven by the closure (lists in the scenarios are short)
                let mut sorted: Vec<(Val, Val)> = vec![]; // (key, item)
                for it in items {
                    let key = if by_key { self.apply_closure_mut(&mc.args[0], &[it.clone()], env)? } else { Val::Unit };
                    let mut at = sorted.len();
                    while at > 0 {
                        let ord = if by_key {
                            cmp_vals(&sorted[at - 1].0, &key).ok_or_else(|| format!("sort_by_key: keys {} / {} are not comparable", sorted[at - 1].0.show(), key.show()))?
                        } else {
                            match self.apply_closure_mut(&mc.args[0], &[sorted[at - 1].1.clone(), it.clone()], env)? {
                                Val::Ctor(n, _, _) if n == "Less" => std::cmp::Ordering::Less,
                                Val::Ctor(n, _, _) if n == "Equal" => std::cmp::Ordering::Equal,
                                Val::Ctor(n, _, _) if n == "Greater" => std::cmp::Ordering::Greater,
                                o => return Err(format!("sort_by: comparator returned {}", o.show())),
                            }
                        };
                        if ord == std::cmp::Ordering::Greater { at -= 1 } else { break }
                    }
                    sorted.insert(at, (key, it));
                }
                let target = place_get_mut(env, &place).ok_or_else(|| format!("cannot resolve place {}", tok(&mc.receiver)))?;
                *target = Val::List(sorted.into_iter().map(|(_, it)| it).collect());
                Ok(Val::Unit)
            }
            Expr::MethodCall(mc) if ["push", "append", "append_all", "extend", "insert", "remove", "push_str", "clear", "truncate", "resize", "pop", "pop_front", "pop_back", "push_back", "push_front", "sort", "sort_unstable", "reverse", "retain", "dedup", "swap", "drain"].contains(&mc.method.to_string().as_str())
                && self.place_of(&mc.receiver).is_some()
                && matches!(self.eval(&mc.receiver, env), Ok(Val::List(_)) | Ok(Val::Str(_))) =>
            {
                let place = self.place_of(&mc.receiver).unwrap();
                let name = mc.method.to_string();
                let mut args = vec![];
                for a in mc.args.iter() {
                    args.push(self.eval(a, env)?);
                }
                let target = place_get_mut(env, &place).ok_or_else(|| format!("cannot resolve place {}", tok(&mc.receiver)))?;
                match (target, name.as_str()) {
                    (Val::List(l), "push") | (Val::List(l), "push_back") => {
                        l.push(args.into_iter().next().unwrap_or(Val::Unit));
                        Ok(Val::Unit)
                    }
                    (Val::List(l), "push_front") => {
                        l.insert(0, args.into_iter().next().unwrap_or(Val::Unit));
                        Ok(Val::Unit)
                    }
                    (Val::List(l), "append") | (Val::List(l), "extend") => match args.into_iter().next() {
                        Some(Val::List(o)) => {
                            l.extend(o);
                            Ok(Val::Unit)
                        }
                        Some(o) => Err(format!("append/extend with {}", o.show())),
                        None => Err("append without argument".into()),
                    },
                    (Val::List(l), "insert") => match (args.get(0), args.get(1)) {
                        (Some(Val::Int { v, .. }), Some(x)) if (*v as usize) <= l.len() => {
                            l.insert(*v as usize, x.clone());
                            Ok(Val::Unit)
                        }
                        _ => Err("insert: bad arguments".into()),
                    },
                    (Val::List(l), "remove") => match args.get(0) {
                        Some(Val::Int { v, .. }) if (*v as usize) < l.len() => Ok(l.remove(*v as usize)),
                        _ => Err("remove: bad arguments".into()),
                    },
                    (Val::List(l), "pop") | (Val::List(l), "pop_back") => Ok(l.pop().map(Val::some).unwrap_or(Val::none())),
                    (Val::List(l), "pop_front") => Ok(if l.is_empty() { Val::none() } else { Val::some(l.remove(0)) }),
                    (Val::List(l), "clear") => {
                        l.clear();
                        Ok(Val::Unit)
                    }
                    (Val::List(l), "reverse") => {
                        l.reverse();
                        Ok(Val::Unit)
                    }
                    (Val::List(l), "truncate") => match args.get(0) {
                        Some(Val::Int { v, .. }) => {
                            l.truncate(*v as usize);
                            Ok(Val::Unit)
                        }
                        _ => Err("truncate: bad arguments".into()),
                    },
                    (Val::List(l), "resize") => match (args.get(0), args.get(1)) {
                        (Some(Val::Int { v, .. }), Some(fill)) if (0..=1_000_000).contains(v) => {
                            l.resize(*v as usize, fill.clone());
                            Ok(Val::Unit)
                        }
                        _ => Err("resize: bad arguments".into()),
                    },
                    (Val::List(l), "drain") if mc.args.len() == 1 && tok(&mc.args[0]) == ".." => {
                        let d: Vec<Val> = l.drain(..).collect();
                        Ok(Val::List(d))
                    }
                    (Val::Str(st), "drain") if mc.args.len() == 1 && tok(&mc.args[0]) == ".." => {
                        let d: Vec<Val> = st.drain(..).map(Val::Char).collect();
                        Ok(Val::List(d))
                    }
                    (Val::List(l), "dedup") => {
                        // Vec::dedup removes *consecutive* equal elements only
                        l.dedup();
                        Ok(Val::Unit)
                    }
                    (Val::List(l), "sort") | (Val::List(l), "sort_unstable") if l.iter().all(|v| matches!(v, Val::Str(_))) || l.iter().all(|v| matches!(v, Val::Int { input: false, .. })) => {
                        l.sort_by(|a, b| match (a, b) {
                            (Val::Str(x), Val::Str(y)) => x.cmp(y),
                            (Val::Int { v: x, .. }, Val::Int { v: y, .. }) => x.cmp(y),
                            _ => std::cmp::Ordering::Equal,
                        });
                        Ok(Val::Unit)
                    }
                    (Val::Str(st), "push") => match args.get(0) {
                        Some(Val::Char(c)) => {
                            st.push(*c);
                            Ok(Val::Unit)
                        }
                        _ => Err("push on a string: bad arguments".into()),
                    },
                    (Val::Str(st), "pop") => Ok(st.pop().map(|c| Val::some(Val::Char(c))).unwrap_or(Val::none())),
                    (Val::Str(st), "clear") => {
                        st.clear();
                        Ok(Val::Unit)
                    }
                    (Val::Str(st), "truncate") => match args.get(0) {
                        Some(Val::Int { v, .. }) if (*v as usize) <= st.len() && st.is_char_boundary(*v as usize) => {
                            st.truncate(*v as usize);
                            Ok(Val::Unit)
                        }
                        _ => Err("String::truncate: bad arguments".into()),
                    },
                    // token streams modelled as text: append / append_all / extend add the other stream's text
                    (Val::Str(st), "append") | (Val::Str(st), "append_all") | (Val::Str(st), "extend") => match args.get(0) {
                        Some(Val::Str(o)) | Some(Val::Sym(o)) => {
                            st.push_str(o);
                            Ok(Val::Unit)
                        }
                        o => Err(format!("append on text: bad arguments {:?}", o.map(|x| x.show()))),
                    },
                    (Val::Str(st), "push_str") => match args.get(0) {
                        Some(Val::Str(o)) => {
                            st.push_str(o);
                            Ok(Val::Unit)
                        }
                        o => Err(format!("push_str: bad arguments {:?}", o.map(|x| x.show()))),
                    },
                    (_, n) => Err(format!("unsupported in-place operation .{}()", n)),
                }
            }
            Expr::MethodCall(mc) => {
                let recv = self.eval(&mc.receiver, env)?;
                if matches!(&recv, Val::Ctor(n, _, _) if n == "$return") {
                    return Ok(recv); // `x?.method()`: the early return propagates
                }
                let name = mc.method.to_string();
                let is_some = matches!(&recv, Val::Ctor(n, ..) if n == "Some");
                let is_none = matches!(&recv, Val::Ctor(n, ..) if n == "None");
                let inner = match &recv {
                    Val::Ctor(n, p, _) if n == "Some" => p.first().cloned(),
                    _ => None,
                };
                if let Val::Ctor(n, _, f) = &recv {
                    if n == "$set" {
                        match name.as_str() {
                            "contains" if mc.args.len() == 1 => {
                                let k = set_key(&self.eval(&mc.args[0], env)?);
                                return Ok(Val::Bool(f.contains_key(&k)));
                            }
                            "len" => return Ok(Val::int(f.len() as i128)),
                            "is_empty" => return Ok(Val::Bool(f.is_empty())),
                            // ordered like a BTreeSet: the keys are built so that their text order is the element order
                            "iter" | "into_iter" => return Ok(Val::List(f.values().cloned().collect())),
                            "first" => return Ok(f.values().next().cloned().map(Val::some).unwrap_or(Val::none())),
                            "last" => return Ok(f.values().last().cloned().map(Val::some).unwrap_or(Val::none())),
                            "clone" => return Ok(recv.clone()),
                            _ => {}
                        }
                    }
                    if n == "$map" {
                        match name.as_str() {
                            "get" | "contains_key" if mc.args.len() == 1 => {
                                let k = map_key(&self.eval(&mc.args[0], env)?);
                                return Ok(if name == "get" { f.get(&k).cloned().map(Val::some).unwrap_or(Val::none()) } else { Val::Bool(f.contains_key(&k)) });
                            }
                            "len" => return Ok(Val::int(f.len() as i128)),
                            "is_empty" => return Ok(Val::Bool(f.is_empty())),
                            "iter" | "into_iter" | "iter_mut" => return Ok(Val::List(f.iter().map(|(k, v)| Val::Tuple(vec![Val::Str(k.clone()), v.clone()])).collect())),
                            "values" | "into_values" | "values_mut" => return Ok(Val::List(f.values().cloned().collect())),
                            "keys" | "into_keys" => return Ok(Val::List(f.keys().map(|k| Val::Str(k.clone())).collect())),
                            "clone" => return Ok(recv.clone()),
                            _ => {}
                        }
                    }
                }
                if let Val::List(items) = &recv {
                    // a rule may take over a whole closure-taking adaptor of a list (`list.fold`, ..): asked before the native treatment
                    if mc.args.iter().any(|a| matches!(a, syn::Expr::Closure(_))) {
                        if let Some(r) = (self.call_hook)(self, &format!("list.{}", name), &[recv.clone()]) {
                            return r;
                        }
                    }
                    match name.as_str() {
                        "iter" | "into_iter" | "iter_mut" | "clone" | "to_owned" | "as_ref" | "as_slice" | "to_vec" => return Ok(recv.clone()),
                        "len" => return Ok(Val::int(items.len() as i128)),
                        "chunks" | "chunks_exact" => {
                            let n = match self.eval(&mc.args[0], env)? { Val::Int { v, .. } if v > 0 => v as usize, o => return Err(format!("chunks({})", o.show())) };
                            // chunks_exact leaves out a final chunk that is shorter than n
                            return Ok(Val::List(items.chunks(n).filter(|c| name == "chunks" || c.len() == n).map(|c| Val::List(c.to_vec())).collect()));
                        }
                        "is_empty" => return Ok(Val::Bool(items.is_empty())),
                        // slice::binary_search as std implements it — on a slice that is not sorted the answer is whatever this
                        // procedure arrives at, which is what the analysed code gets
                        "binary_search" if mc.args.len() == 1 => {
                            let target = self.eval(&mc.args[0], env)?;
                            let cmp = |x: &Val| cmp_vals(x, &target).ok_or_else(|| format!("binary_search: cannot compare {} with {}", x.show(), target.show()));
                            let res = |ok: bool, i: usize| Val::Ctor(if ok { "Ok" } else { "Err" }.into(), vec![Val::int(i as i128)], BTreeMap::new());
                            let mut size = items.len();
                            if size == 0 {
                                return Ok(res(false, 0));
                            }
                            let mut base = 0usize;
                            while size > 1 {
                                let half = size / 2;
                                let mid = base + half;
                                if cmp(&items[mid])? != std::cmp::Ordering::Greater {
                                    base = mid;
                                }
                                size -= half;
                            }
                            let c = cmp(&items[base])?;
                            return Ok(if c == std::cmp::Ordering::Equal { res(true, base) } else { res(false, base + (c == std::cmp::Ordering::Less) as usize) });
                        }
                        "first" | "peek" => return Ok(items.first().cloned().map(Val::some).unwrap_or(Val::none())),
                        "get" if mc.args.len() == 1 => {
                            if let Ok(Val::Int { v, .. }) = self.eval(&mc.args[0], env) {
                                return Ok(usize::try_from(v).ok().and_then(|i| items.get(i)).cloned().map(Val::some).unwrap_or(Val::none()));
                            }
                        }
                        // collect::<Result<Vec<_>, _>>() / collect::<Option<Vec<_>>>(): the first Err / None wins
                        "collect" if mc.turbofish.as_ref().map(|t| { let t = tok(t); t.starts_with("::<Result<") || t.starts_with("::<Option<") }).unwrap_or(false) => {
                            let is_res = tok(mc.turbofish.as_ref().unwrap()).starts_with("::<Result<");
                            let mut out = vec![];
                            for it in items {
                                match it {
                                    Val::Ctor(n, p, _) if (is_res && n == "Ok") || (!is_res && n == "Some") => out.push(p.first().cloned().unwrap_or(Val::Unit)),
                                    Val::Ctor(n, _, _) if (is_res && n == "Err") || (!is_res && n == "None") => return Ok(it.clone()),
                                    o => return Err(format!("collect into Result/Option over {}", o.show())),
                                }
                            }
                            return Ok(Val::Ctor(if is_res { "Ok" } else { "Some" }.into(), vec![Val::List(out)], BTreeMap::new()));
                        }
                        "collect" | "peekable" | "by_ref" | "into_values" | "values" | "chars_list" => return Ok(recv.clone()),
                        "enumerate" => {
                            return Ok(Val::List(items.iter().enumerate().map(|(i, v)| Val::Tuple(vec![Val::int(i as i128), v.clone()])).collect()))
                        }
                        "rev" => return Ok(Val::List(items.iter().rev().cloned().collect())),
                        "skip" | "take" | "step_by" => {
                            let n = match self.eval(&mc.args[0], env)? {
                                Val::Int { v, .. } => v as usize,
                                o => return Err(format!(".{}({})", name, o.show())),
                            };
                            return Ok(Val::List(match name.as_str() {
                                "skip" => items.iter().skip(n).cloned().collect(),
                                "take" => items.iter().take(n).cloned().collect(),
                                _ => items.iter().step_by(n.max(1)).cloned().collect(),
                            }));
                        }
                        "map" | "filter" | "filter_map" | "flat_map" | "find" | "find_map" | "position" | "for_each" | "skip_while" | "take_while" | "map_while" => {
                            let mut out = vec![];
                            let mut skipping = true;
                            for (idx, it) in items.iter().enumerate() {
                                if name == "skip_while" && !skipping {
                                    out.push(it.clone());
                                    continue;
                                }
                                let r = self.apply_closure_mut(&mc.args[0], &[it.clone()], env)?;
                                match name.as_str() {
                                    "map" => out.push(r),
                                    "for_each" => {}
                                    "filter" => {
                                        if r == Val::Bool(true) {
                                            out.push(it.clone())
                                        } else if r != Val::Bool(false) {
                                            return Err(format!("filter closure returned {}", r.show()));
                                        }
                                    }
                                    "filter_map" => match r {
                                        Val::Ctor(n, p, _) if n == "Some" => out.push(p.into_iter().next().unwrap_or(Val::Unit)),
                                        Val::Ctor(n, _, _) if n == "None" => {}
                                        o => return Err(format!("filter_map closure returned {}", o.show())),
                                    },
                                    "flat_map" => match r {
                                        Val::List(l) => out.extend(l),
                                        o => return Err(format!("flat_map closure returned {}", o.show())),
                                    },
                                    "find" => {
                                        if r == Val::Bool(true) {
                                            return Ok(Val::some(it.clone()));
                                        }
                                    }
                                    "position" => {
                                        if r == Val::Bool(true) {
                                            return Ok(Val::some(Val::int(idx as i128)));
                                        }
                                    }
                                    "find_map" => {
                                        if let Val::Ctor(n, _, _) = &r {
                                            if n == "Some" {
                                                return Ok(r);
                                            }
                                        }
                                    }
                                    // the lazy adaptors stop (or start) at the first element that decides
                                    "take_while" => match r {
                                        Val::Bool(true) => out.push(it.clone()),
                                        Val::Bool(false) => break,
                                        o => return Err(format!("take_while closure returned {}", o.show())),
                                    },
                                    "map_while" => match r {
                                        Val::Ctor(n, p, _) if n == "Some" => out.push(p.into_iter().next().unwrap_or(Val::Unit)),
                                        Val::Ctor(n, _, _) if n == "None" => break,
                                        o => return Err(format!("map_while closure returned {}", o.show())),
                                    },
                                    "skip_while" => match r {
                                        Val::Bool(true) => {}
                                        Val::Bool(false) => {
                                            skipping = false;
                                            out.push(it.clone());
                                        }
                                        o => return Err(format!("skip_while closure returned {}", o.show())),
                                    },
                                    _ => return Err(format!("unsupported list combinator {}", name)),
                                }
                            }
                            return Ok(match name.as_str() {
                                "find" | "find_map" | "position" => Val::none(),
                                "for_each" => Val::Unit,
                                _ => Val::List(out),
                            });
                        }
                        "fold" | "try_fold" => {
                            let mut acc = self.eval(&mc.args[0], env)?;
                            for it in items.iter() {
                                acc = self.apply_closure_mut(&mc.args[1], &[acc, it.clone()], env)?;
                                if name == "try_fold" {
                                    match acc {
                                        Val::Ctor(ref n, ref p, _) if n == "Ok" => acc = p.first().cloned().unwrap_or(Val::Unit),
                                        Val::Ctor(ref n, _, _) if n == "Err" => return Ok(acc),
                                        _ => {}
                                    }
                                }
                            }
                            return Ok(if name == "try_fold" { Val::Ctor("Ok".into(), vec![acc], BTreeMap::new()) } else { acc });
                        }
                        "chain" => {
                            let o = self.eval(&mc.args[0], env)?;
                            if let Val::List(o) = o {
                                let mut v = items.clone();
                                v.extend(o);
                                return Ok(Val::List(v));
                            }
                            return Err("chain with non-list".into());
                        }
                        "contains" => {
                            let o = self.eval(&mc.args[0], env)?;
                            return Ok(Val::Bool(items.contains(&o)));
                        }
                        "join" => {
                            let sep = match self.eval(&mc.args[0], env)? {
                                Val::Str(s) => s,
                                o => return Err(format!("join({})", o.show())),
                            };
                            let parts: Vec<String> = items.iter().map(|v| match v { Val::Str(s) => s.clone(), Val::Sym(s) => s.clone(), o => o.show() }).collect();
                            return Ok(Val::Str(parts.join(&sep)));
                        }
                        "last" => return Ok(items.last().cloned().map(Val::some).unwrap_or(Val::none())),
                        "count" => return Ok(Val::int(items.len() as i128)),
                        "next" if mc.args.is_empty() => return Ok(items.first().cloned().map(Val::some).unwrap_or(Val::none())),
                        "next_back" if mc.args.is_empty() => return Ok(items.last().cloned().map(Val::some).unwrap_or(Val::none())),
                        "max" | "min" if mc.args.is_empty() && items.iter().all(|v| matches!(v, Val::Int { input: false, .. })) => {
                            let it = items.iter().map(|v| match v { Val::Int { v, .. } => *v, _ => 0 });
                            let r = if name == "max" { it.max() } else { it.min() };
                            return Ok(r.map(|v| Val::some(Val::int(v))).unwrap_or(Val::none()));
                        }
                        // the first maximum is kept by min_by_key, the last by max_by_key (std semantics)
                        "max_by_key" | "min_by_key" if mc.args.len() == 1 => {
                            let mut best: Option<(Val, Val)> = None;
                            for it in items {
                                let k = self.apply_closure(&mc.args[0], &[it.clone()], env)?;
                                best = Some(match best {
                                    None => (k, it.clone()),
                                    Some((bk, bv)) => {
                                        let ord = cmp_vals(&k, &bk).ok_or_else(|| format!("{}: keys {} / {} are not comparable", name, k.show(), bk.show()))?;
                                        let take = if name == "max_by_key" { ord != std::cmp::Ordering::Less } else { ord == std::cmp::Ordering::Less };
                                        if take { (k, it.clone()) } else { (bk, bv) }
                                    }
                                });
                            }
                            return Ok(best.map(|(_, v)| Val::some(v)).unwrap_or(Val::none()));
                        }
                        // an ordered map given as its list of (key, value) pairs
                        "first_key_value" if mc.args.is_empty() => return Ok(items.first().cloned().map(Val::some).unwrap_or(Val::none())),
                        "last_key_value" if mc.args.is_empty() => return Ok(items.last().cloned().map(Val::some).unwrap_or(Val::none())),
                        "any" | "all" => {
                            let mut acc = name == "all";
                            for it in items {
                                match self.apply_closure(&mc.args[0], &[it.clone()], env)? {
                                    Val::Bool(b) => {
                                        if name == "any" {
                                            acc = acc || b
                                        } else {
                                            acc = acc && b
                                        }
                                    }
                                    o => return Err(format!("closure in .{}() returned {}", name, o.show())),
                                }
                            }
                            return Ok(Val::Bool(acc));
                        }
                        _ => {}
                    }
                }
                {
                    // hooks see every method call first (receiver + best-effort arguments)
                    let mut hargs = vec![recv.clone()];
                    for a in mc.args.iter() {
                        if let syn::Expr::Closure(cl) = a {
                            hargs.push(Val::Closure(Box::new(cl.clone()), Box::new(env.clone())));
                        } else {
                            hargs.push(self.eval(a, env).unwrap_or(Val::Opaque("arg".into())));
                        }
                    }
                    if let Some(r) = (self.call_hook)(self, &format!(".{}", name), &hargs) {
                        return r;
                    }
                }
                if let (Some(tbl), Val::Ctor(cn, _, _)) = (self.inline, &recv) {
                    if cn != "Some" && cn != "None" && cn != "Ok" && cn != "Err" {
                        // a method name shared by several types is registered per receiver constructor (`.name@Variant`)
                        if let Some((params, body)) = tbl.get(&format!(".{}@{}", name, cn)).or_else(|| tbl.get(&format!(".{}", name))) {
                            let mut e2 = Env::new();
                            e2.insert("self".into(), recv.clone());
                            for (pn, a) in params.iter().zip(mc.args.iter()) {
                                e2.insert(pn.clone(), self.eval(a, env)?);
                            }
                            let r = self.eval_fn_body(body, &mut e2);
                            // a `&mut self` method: write the receiver back
                            if let (Some(place), Some(ns)) = (self.place_of(&mc.receiver), e2.get("self")) {
                                if let Some(t) = place_get_mut(env, &place) {
                                    *t = ns.clone();
                                }
                            }
                            return r;
                        }
                    }
                }
                if let Val::Char(ch) = &recv {
                    let r = match name.as_str() {
                        "is_uppercase" => Some(ch.is_uppercase()),
                        "is_lowercase" => Some(ch.is_lowercase()),
                        "is_ascii_uppercase" => Some(ch.is_ascii_uppercase()),
                        "is_ascii_lowercase" => Some(ch.is_ascii_lowercase()),
                        "is_ascii_digit" => Some(ch.is_ascii_digit()),
                        "is_numeric" => Some(ch.is_numeric()),
                        "is_alphabetic" => Some(ch.is_alphabetic()),
                        "is_alphanumeric" => Some(ch.is_alphanumeric()),
                        "is_ascii_alphanumeric" => Some(ch.is_ascii_alphanumeric()),
                        "is_ascii_alphabetic" => Some(ch.is_ascii_alphabetic()),
                        "is_whitespace" => Some(ch.is_whitespace()),
                        "is_ascii_punctuation" => Some(ch.is_ascii_punctuation()),
                        _ => None,
                    };
                    if let Some(b) = r {
                        return Ok(Val::Bool(b));
                    }
                    match name.as_str() {
                        "to_ascii_uppercase" => return Ok(Val::Char(ch.to_ascii_uppercase())),
                        "to_ascii_lowercase" => return Ok(Val::Char(ch.to_ascii_lowercase())),
                        "to_string" => return Ok(Val::Str(ch.to_string())),
                        "len_utf8" => return Ok(Val::int(ch.len_utf8() as i128)),
                        _ => {}
                    }
                }
                if let Val::Str(st) = &recv {
                    match name.as_str() {
                        "starts_with" | "ends_with" | "contains" => {
                            if let Ok(Val::Str(o)) = self.eval(&mc.args[0], env) {
                                return Ok(Val::Bool(match name.as_str() {
                                    "starts_with" => st.starts_with(&o),
                                    "ends_with" => st.ends_with(&o),
                                    _ => st.contains(&o),
                                }));
                            }
                            if let Ok(Val::Char(o)) = self.eval(&mc.args[0], env) {
                                return Ok(Val::Bool(match name.as_str() {
                                    "starts_with" => st.starts_with(o),
                                    "ends_with" => st.ends_with(o),
                                    _ => st.contains(o),
                                }));
                            }
                            // a character predicate: `s.starts_with(|c: char| c.is_lowercase())`, `char::is_uppercase`
                            if matches!(&mc.args[0], Expr::Closure(_) | Expr::Path(_)) {
                                let probe: Vec<char> = match name.as_str() {
                                    "starts_with" => st.chars().next().into_iter().collect(),
                                    "ends_with" => st.chars().last().into_iter().collect(),
                                    _ => st.chars().collect(),
                                };
                                let mut any = false;
                                for ch in probe {
                                    match self.apply_closure(&mc.args[0], &[Val::Char(ch)], env)? {
                                        Val::Bool(true) => { any = true; break }
                                        Val::Bool(false) => {}
                                        o => return Err(format!("character predicate returned {}", o.show())),
                                    }
                                }
                                return Ok(Val::Bool(any));
                            }
                        }
                        "is_empty" => return Ok(Val::Bool(st.is_empty())),
                        "len" => return Ok(Val::int(st.len() as i128)),
                        "get" if mc.args.len() == 1 && matches!(&mc.args[0], syn::Expr::Range(_)) => {
                            // `s.get(a..b)`: None when out of range or not on a char boundary
                            if let syn::Expr::Range(r) = &mc.args[0] {
                                let int = |v: Val| match v { Val::Int { v, .. } if v >= 0 => Ok(v as usize), o => Err(format!("string index {}", o.show())) };
                                let lo = match &r.start { Some(e) => int(self.eval(e, env)?)?, None => 0 };
                                let hi = match &r.end { Some(e) => int(self.eval(e, env)?)? + if matches!(r.limits, syn::RangeLimits::Closed(_)) { 1 } else { 0 }, None => st.len() };
                                return Ok(if lo <= hi && hi <= st.len() && st.is_char_boundary(lo) && st.is_char_boundary(hi) { Val::some(Val::Str(st[lo..hi].to_string())) } else { Val::none() });
                            }
                        }
                        "lines" if mc.args.is_empty() => return Ok(Val::List(st.lines().map(|l| Val::Str(l.to_string())).collect())),
                        "char_indices" if mc.args.is_empty() => return Ok(Val::List(st.char_indices().map(|(i, c)| Val::Tuple(vec![Val::int(i as i128), Val::Char(c)])).collect())),
                        "trim_end_matches" | "trim_start_matches" | "trim_matches" if mc.args.len() == 1 => {
                            match self.eval(&mc.args[0], env)? {
                                Val::Str(p) if !p.is_empty() => return Ok(Val::Str(match name.as_str() { "trim_end_matches" => st.trim_end_matches(p.as_str()), "trim_start_matches" => st.trim_start_matches(p.as_str()), _ => { let t = st.trim_start_matches(p.as_str()); t.trim_end_matches(p.as_str()) } }.to_string())),
                                Val::Char(c) => return Ok(Val::Str(match name.as_str() { "trim_end_matches" => st.trim_end_matches(c), "trim_start_matches" => st.trim_start_matches(c), _ => st.trim_matches(c) }.to_string())),
                                _ => {}
                            }
                        }
                        "trim" if mc.args.is_empty() => return Ok(Val::Str(st.trim().to_string())),
                        "trim_start" if mc.args.is_empty() => return Ok(Val::Str(st.trim_start().to_string())),
                        "trim_end" if mc.args.is_empty() => return Ok(Val::Str(st.trim_end().to_string())),
                        "is_char_boundary" if mc.args.len() == 1 => {
                            if let Val::Int { v, .. } = self.eval(&mc.args[0], env)? {
                                return Ok(Val::Bool(v >= 0 && st.is_char_boundary(v as usize)));
                            }
                        }
                        "strip_prefix" | "strip_suffix" | "find" | "rfind" | "split_once" if mc.args.len() == 1 => {
                            let pat = match self.eval(&mc.args[0], env)? { Val::Char(c) => Some(c.to_string()), Val::Str(p) => Some(p), _ => None };
                            if let Some(pat) = pat {
                                let opt_s = |o: Option<&str>| o.map(|x| Val::some(Val::Str(x.to_string()))).unwrap_or(Val::none());
                                let opt_i = |o: Option<usize>| o.map(|x| Val::some(Val::int(x as i128))).unwrap_or(Val::none());
                                return Ok(match name.as_str() {
                                    "strip_prefix" => opt_s(st.strip_prefix(pat.as_str())),
                                    "strip_suffix" => opt_s(st.strip_suffix(pat.as_str())),
                                    "find" => opt_i(st.find(pat.as_str())),
                                    "rfind" => opt_i(st.rfind(pat.as_str())),
                                    _ => st.split_once(pat.as_str()).map(|(a, b)| Val::some(Val::Tuple(vec![Val::Str(a.to_string()), Val::Str(b.to_string())]))).unwrap_or(Val::none()),
                                });
                            }
                        }
                        "match_indices" | "matches" if mc.args.len() == 1 => {
                            let pv = self.eval(&mc.args[0], env)?;
                            if let Val::List(cs) = &pv {
                                // a set of characters as pattern: `['\n', '\r']`
                                let set: Vec<char> = cs.iter().filter_map(|c| match c { Val::Char(c) => Some(*c), _ => None }).collect();
                                if set.len() == cs.len() && !set.is_empty() {
                                    return Ok(Val::List(st.char_indices().filter(|(_, c)| set.contains(c)).map(|(i, c)| if name == "matches" { Val::Str(c.to_string()) } else { Val::Tuple(vec![Val::int(i as i128), Val::Str(c.to_string())]) }).collect()));
                                }
                            }
                            let pat = match pv { Val::Char(c) => c.to_string(), Val::Str(p) => p, o => return Err(format!("match_indices({})", o.show())) };
                            if pat.is_empty() {
                                return Err("match_indices with an empty pattern".into());
                            }
                            return Ok(Val::List(st.match_indices(pat.as_str()).map(|(i, m)| if name == "matches" { Val::Str(m.to_string()) } else { Val::Tuple(vec![Val::int(i as i128), Val::Str(m.to_string())]) }).collect()));
                        }
                        "split" | "rsplit" if mc.args.len() == 1 => {
                            let pat = match self.eval(&mc.args[0], env)? { Val::Char(c) => c.to_string(), Val::Str(p) if !p.is_empty() => p, o => return Err(format!("split({})", o.show())) };
                            let mut parts: Vec<Val> = st.split(pat.as_str()).map(|w| Val::Str(w.to_string())).collect();
                            if name == "rsplit" {
                                parts.reverse();
                            }
                            return Ok(Val::List(parts));
                        }
                        "to_uppercase" => return Ok(Val::Str(st.to_uppercase())),
                        "repeat" if mc.args.len() == 1 => match self.eval(&mc.args[0], env)? {
                            Val::Int { v, .. } if (0..100_000).contains(&v) => return Ok(Val::Str(st.repeat(v as usize))),
                            o => return Err(format!("repeat({})", o.show())),
                        },
                        "to_lowercase" => return Ok(Val::Str(st.to_lowercase())),
                        "chars" => return Ok(Val::List(st.chars().map(Val::Char).collect())),
                        "bytes" | "as_bytes" if mc.args.is_empty() => return Ok(Val::List(st.bytes().map(|b| Val::int(b as i128)).collect())),
                        "split_whitespace" | "split_ascii_whitespace" => return Ok(Val::List(st.split_whitespace().map(|w| Val::Str(w.to_string())).collect())),
                        "lines" => return Ok(Val::List(st.lines().map(|w| Val::Str(w.to_string())).collect())),
                        "replace" => {
                            let a = self.eval(&mc.args[0], env)?;
                            let b = self.eval(&mc.args[1], env)?;
                            let to = match b { Val::Str(s) => s, Val::Char(c) => c.to_string(), o => return Err(format!("replace(_, {})", o.show())) };
                            // a set of characters as the pattern (`replace(['\r', '\t'], " ")`)
                            if let Val::List(cs) = &a {
                                let set: Option<Vec<char>> = cs.iter().map(|v| match v { Val::Char(c) => Some(*c), _ => None }).collect();
                                let Some(set) = set else { return Err(format!("replace({})", a.show())) };
                                return Ok(Val::Str(st.replace(&set[..], &to)));
                            }
                            let from = match a { Val::Str(s) => s, Val::Char(c) => c.to_string(), o => return Err(format!("replace({})", o.show())) };
                            return Ok(Val::Str(st.replace(&from, &to)));
                        }
                        _ => {}
                    }
                }
                match name.as_str() {
                    "unwrap_or_default" if is_none => Ok(Val::List(vec![])),
                    "unwrap" | "expect" if is_some => Ok(inner.unwrap()),
                    "unwrap" | "expect" if matches!(&recv, Val::Ctor(n, p, _) if n == "Ok" && p.len() == 1) => match recv { Val::Ctor(_, mut p, _) => Ok(p.remove(0)), _ => unreachable!() },
                    "unwrap" | "expect" if is_none || matches!(&recv, Val::Ctor(n, _, _) if n == "Err") => Err(format!("{}() on {} (the code would panic here)", name, recv.show())),
                    "to_string" if matches!(recv, Val::Int { input: false, .. } | Val::Bool(_)) => Ok(Val::Str(match &recv {
                        Val::Int { v, .. } => v.to_string(),
                        Val::Bool(b) => b.to_string(),
                        _ => unreachable!(),
                    })),
                    "as_bytes" | "bytes" | "into_bytes" if matches!(recv, Val::Str(_)) && mc.args.is_empty() => match recv {
                        Val::Str(t) => Ok(Val::List(t.bytes().map(|b| Val::int(b as i128)).collect())),
                        _ => unreachable!(),
                    },
                    "into" | "clone" | "to_owned" | "into_owned" | "as_ref" | "as_deref" | "to_string" | "as_str" | "copied" | "cloned" | "borrow" | "as_mut" | "into_iter" | "iter" | "iter_mut" | "to_vec" => Ok(recv),
                    // index arithmetic (the receiver is treated as unsigned: a negative difference is None / 0)
                    "checked_ilog10" | "ilog10" if matches!(recv, Val::Int { input: false, .. }) && mc.args.is_empty() => {
                        let Val::Int { v, .. } = recv else { unreachable!() };
                        if v <= 0 {
                            return if name == "ilog10" { Err("ilog10 of a non-positive number (the code would panic here)".into()) } else { Ok(Val::none()) };
                        }
                        let l = (v as u128).ilog10() as i128;
                        return Ok(if name == "ilog10" { Val::int(l) } else { Val::some(Val::int(l)) });
                    }
                    "checked_sub" | "checked_add" | "saturating_sub" | "saturating_add" | "wrapping_add" if matches!(recv, Val::Int { input: false, .. }) && mc.args.len() == 1 => {
                        let e = self.eval(&mc.args[0], env)?;
                        match (&recv, e) {
                            (Val::Int { v, .. }, Val::Int { v: e, input: false }) => {
                                let r = if name.ends_with("sub") { v - e } else { v + e };
                                Ok(match name.as_str() {
                                    "checked_sub" => if r < 0 { Val::none() } else { Val::some(Val::int(r)) },
                                    "checked_add" => Val::some(Val::int(r)),
                                    "saturating_sub" => Val::int(r.max(0)),
                                    _ => Val::int(r),
                                })
                            }
                            _ => Err(format!("{}: bad arguments", name)),
                        }
                    }
                    "next_multiple_of" | "div_ceil" if matches!(recv, Val::Int { input: false, .. }) && mc.args.len() == 1 => {
                        if let (Val::Int { v: a, .. }, Val::Int { v: b, input: false }) = (&recv, self.eval(&mc.args[0], env)?) {
                            if b > 0 && *a >= 0 {
                                let q = (*a + b - 1) / b;
                                return Ok(Val::int(if name == "div_ceil" { q } else { q * b }));
                            }
                        }
                        return Err(format!("{} with unsupported operands", name));
                    }
                    "pow" if matches!(recv, Val::Int { input: false, .. }) => {
                        let e = self.eval(&mc.args[0], env)?;
                        match (&recv, e) {
                            (Val::Int { v, .. }, Val::Int { v: e, .. }) if (0..=126).contains(&e) => Ok(Val::int(v.checked_pow(e as u32).ok_or("pow overflow")?)),
                            _ => Err("pow: bad arguments".into()),
                        }
                    }
                    "is_some" if is_some || is_none => Ok(Val::Bool(is_some)),
                    "is_none" if is_some || is_none => Ok(Val::Bool(is_none)),
                    "unwrap_or" if is_some || is_none => {
                        if is_some {
                            Ok(inner.unwrap())
                        } else {
                            self.eval(&mc.args[0], env)
                        }
                    }
                    "unwrap_or_else" if is_some => Ok(inner.unwrap()),
                    "unwrap_or_else" if is_none && mc.args.len() == 1 => self.apply_closure_mut(&mc.args[0], &[], env),
                    "unwrap_or_default" if is_some => Ok(inner.unwrap()),
                    "transpose" if is_none => Ok(Val::Ctor("Ok".into(), vec![Val::none()], BTreeMap::new())),
                    "transpose" if is_some => match inner.clone().unwrap() {
                        Val::Ctor(n, p, _) if n == "Ok" => Ok(Val::Ctor("Ok".into(), vec![Val::some(p.into_iter().next().unwrap_or(Val::Unit))], BTreeMap::new())),
                        Val::Ctor(n, p, f) if n == "Err" => Ok(Val::Ctor(n, p, f)),
                        o => Err(format!("transpose on Some({})", o.show())),
                    },
                    "or_else" if is_some => Ok(recv.clone()),
                    "or_else" if is_none && mc.args.len() == 1 => self.apply_closure_mut(&mc.args[0], &[], env),
                    "ok_or" | "ok_or_else" if is_some => Ok(Val::Ctor("Ok".into(), vec![inner.unwrap()], BTreeMap::new())),
                    "ok_or" if is_none && mc.args.len() == 1 => Ok(Val::Ctor("Err".into(), vec![self.eval(&mc.args[0], env).unwrap_or(Val::Opaque("error".into()))], BTreeMap::new())),
                    "ok_or_else" if is_none && mc.args.len() == 1 => Ok(Val::Ctor("Err".into(), vec![self.apply_closure_mut(&mc.args[0], &[], env).unwrap_or(Val::Opaque("error".into()))], BTreeMap::new())),
                    "zip" if (is_some || is_none) && mc.args.len() == 1 => {
                        let other = self.eval(&mc.args[0], env)?;
                        match (&inner, &other) {
                            (Some(a), Val::Ctor(n, p, _)) if n == "Some" => Ok(Val::some(Val::Tuple(vec![a.clone(), p.first().cloned().unwrap_or(Val::Unit)]))),
                            (None, Val::Ctor(n, _, _)) | (Some(_), Val::Ctor(n, _, _)) if n == "None" || n == "Some" => Ok(Val::none()),
                            (_, o) => Err(format!("zip with {}", o.show())),
                        }
                    }
                    "filter" if is_none => Ok(Val::none()),
                    "filter" if is_some && mc.args.len() == 1 => match self.apply_closure_mut(&mc.args[0], &[inner.clone().unwrap()], env)? {
                        Val::Bool(true) => Ok(recv.clone()),
                        Val::Bool(false) => Ok(Val::none()),
                        o => Err(format!("filter closure returned {}", o.show())),
                    },
                    // Result combinators
                    "map" | "and_then" | "map_err" | "or_else" | "is_ok" | "is_err" | "err" | "unwrap_or" | "unwrap_or_else" | "is_ok_and"
                        if matches!(&recv, Val::Ctor(n, p, _) if (n == "Ok" || n == "Err") && p.len() <= 1) =>
                    {
                        let Val::Ctor(tag, p, _) = recv.clone() else { unreachable!() };
                        let is_ok = tag == "Ok";
                        let payload = p.into_iter().next().unwrap_or(Val::Unit);
                        let wrap = |t: &str, v: Val| Val::Ctor(t.into(), vec![v], BTreeMap::new());
                        match (name.as_str(), is_ok) {
                            ("is_ok", _) => Ok(Val::Bool(is_ok)),
                            ("is_err", _) => Ok(Val::Bool(!is_ok)),
                            ("err", _) => Ok(if is_ok { Val::none() } else { Val::some(payload) }),
                            ("map", true) => Ok(wrap("Ok", self.apply_closure_mut(&mc.args[0], &[payload], env)?)),
                            ("and_then", true) | ("is_ok_and", true) => self.apply_closure_mut(&mc.args[0], &[payload], env),
                            ("is_ok_and", false) => Ok(Val::Bool(false)),
                            ("map", false) | ("and_then", false) => Ok(recv.clone()),
                            ("map_err", false) => Ok(wrap("Err", self.apply_closure_mut(&mc.args[0], &[payload], env).unwrap_or(Val::Opaque("error".into())))),
                            ("or_else", false) => self.apply_closure_mut(&mc.args[0], &[payload], env),
                            ("map_err", true) | ("or_else", true) => Ok(recv.clone()),
                            ("unwrap_or", true) | ("unwrap_or_else", true) => Ok(payload),
                            ("unwrap_or", false) => self.eval(&mc.args[0], env),
                            ("unwrap_or_else", false) => self.apply_closure_mut(&mc.args[0], &[payload], env),
                            _ => Err(format!(".{}() on {}", name, recv.show())),
                        }
                    }
                    "ok" if matches!(&recv, Val::Ctor(n, ..) if n == "Ok" || n == "Err") => match recv {
                        Val::Ctor(n, p, _) if n == "Ok" => Ok(Val::some(p.into_iter().next().unwrap_or(Val::Unit))),
                        _ => Ok(Val::none()),
                    },
                    "flatten" if is_some || is_none => Ok(if is_some { inner.unwrap() } else { Val::none() }),
                    "unwrap_or_default" if mc.args.is_empty() && matches!(&recv, Val::Ctor(n, ..) if n == "Some" || n == "Ok") => match recv {
                        Val::Ctor(_, p, _) => Ok(p.into_iter().next().unwrap_or(Val::Unit)),
                        _ => unreachable!(),
                    },
                    "unwrap_or_default" if mc.args.is_empty() && matches!(&recv, Val::Ctor(n, ..) if n == "None" || n == "Err") => Ok(Val::Opaque("Default::default()".into())),
                    "cmp" | "partial_cmp" if mc.args.len() == 1 && cmp_vals(&recv, &recv).is_some() => {
                        let other = self.eval(&mc.args[0], env)?;
                        let o = cmp_vals(&recv, &other).ok_or_else(|| format!(".cmp() of {} and {}", recv.show(), other.show()))?;
                        let v = Val::ctor(match o { std::cmp::Ordering::Less => "Less", std::cmp::Ordering::Equal => "Equal", std::cmp::Ordering::Greater => "Greater" });
                        Ok(if name == "cmp" { v } else { Val::some(v) })
                    }
                    "is_some_and" | "map_or" | "map" | "and_then" | "then" | "then_some" | "or" | "min" | "max" => {
                        self.eval_combinator(&name, recv, mc, env)
                    }
                    _ => {
                        let mut args = vec![recv.clone()];
                        for a in mc.args.iter() {
                            args.push(self.eval(a, env).unwrap_or(Val::Opaque("arg".into())));
                        }
                        if let Some(r) = (self.call_hook)(self, &format!(".{}", name), &args) {
                            return r;
                        }
                        // a modelled collection answers every method it is asked, or the analysis stops: an unknown method
                        // treated as an opaque no-op would silently drop an update
                        if matches!(&recv, Val::Ctor(n, _, _) if n == "$map" || n == "$set") || matches!(&recv, Val::List(_)) {
                            return Err(format!("unmodelled method .{}() on {}", name, recv.show().chars().take(80).collect::<String>()));
                        }
                        Ok(Val::Opaque(format!("method .{}() on {}", name, recv.show())))
                    }
                }
            }
            Expr::Closure(cl) => Ok(Val::Closure(Box::new(cl.clone()), Box::new(env.clone()))),
            Expr::ForLoop(fl) => {
                let it = self.eval(&fl.expr, env)?;
                let items = match it {
                    Val::List(l) => l,
                    // a map is visited in key order, as (key, value) pairs; a set in element order
                    Val::Ctor(n, _, f) if n == "$map" => f.into_iter().map(|(k, v)| Val::Tuple(vec![Val::Str(k), v])).collect(),
                    Val::Ctor(n, _, f) if n == "$set" => f.into_values().collect(),
                    o => return Err(format!("for loop over {}", o.show())),
                };
                // `for x in &mut place` / `for x in place.iter_mut()`: what the body does to `x` is done to the element
                let mut_place = match &*fl.expr {
                    Expr::Reference(r) if r.mutability.is_some() => self.place_of(&r.expr),
                    Expr::MethodCall(mc) if mc.method == "iter_mut" && mc.args.is_empty() => self.place_of(&mc.receiver),
                    _ => None,
                };
                let elem_name = match &*fl.pat {
                    syn::Pat::Ident(pi) if pi.subpat.is_none() => Some(pi.ident.to_string()),
                    _ => None,
                };
                for (idx, item) in items.into_iter().enumerate() {
                    let mut e2 = env.clone();
                    match self.pat_match(&fl.pat, &item, &mut e2) {
                        PatM::Yes => {}
                        o => return Err(format!("for pattern: {:?}", o)),
                    }
                    let r = self.eval_block(&fl.body, &mut e2)?;
                    merge_back_shadow_safe(env, &e2, &fl.pat);
                    if let (Some(place), Some(en)) = (&mut_place, &elem_name) {
                        if let (Some(nv), Some(Val::List(l))) = (e2.get(en).cloned(), place_get_mut(env, place)) {
                            if idx < l.len() {
                                l[idx] = nv;
                            }
                        }
                    }
                    if let Val::Ctor(n, _, _) = &r {
                        if n == "$return" {
                            return Ok(r);
                        }
                        if n == "$break" {
                            break;
                        }
                    }
                }
                Ok(Val::Unit)
            }
            Expr::Loop(l) => {
                for _ in 0..100_000 {
                    let mut e2 = env.clone();
                    let r = self.eval_block(&l.body, &mut e2)?;
                    merge_back(env, &e2);
                    if let Val::Ctor(n, _, _) = &r {
                        if n == "$return" {
                            return Ok(r);
                        }
                        if n == "$break" {
                            return Ok(Val::Unit);
                        }
                    }
                }
                Err("loop did not terminate within 100000 iterations".into())
            }
            Expr::While(w) => {
                // bounded unrolling: a loop that does not finish within the bound is an analysis failure, not a result
                for _ in 0..WHILE_BOUND.with(|b| b.get()) {
                    if let Expr::Let(l) = &*w.cond {
                        // `while let PAT = EXPR` (the scrutinee may consume from an iterator held in a variable: the body sees that)
                        let v = self.eval(&l.expr, env)?;
                        let mut e2 = env.clone();
                        match self.pat_match(&l.pat, &v, &mut e2) {
                            PatM::Yes => {}
                            PatM::No => return Ok(Val::Unit),
                            PatM::Unknown(s) => return Err(s),
                        }
                        let r = self.eval_block(&w.body, &mut e2)?;
                        merge_back_shadow_safe(env, &e2, &l.pat);
                        if let Val::Ctor(n, _, _) = &r {
                            if n == "$return" {
                                return Ok(r);
                            }
                            if n == "$break" {
                                return Ok(Val::Unit);
                            }
                        }
                        continue;
                    }
                    match self.eval(&w.cond, env)? {
                        Val::Bool(false) => return Ok(Val::Unit),
                        Val::Bool(true) => {}
                        o => return Err(format!("while condition evaluated to {}", o.show())),
                    }
                    let mut e2 = env.clone();
                    let r = self.eval_block(&w.body, &mut e2)?;
                    merge_back(env, &e2);
                    if let Val::Ctor(n, _, _) = &r {
                        if n == "$return" {
                            return Ok(r);
                        }
                        if n == "$break" {
                            return Ok(Val::Unit);
                        }
                    }
                }
                Err(format!("while loop did not terminate within {} iterations", WHILE_BOUND.with(|b| b.get())))
            }
            Expr::Try(t) => match self.eval(&t.expr, env)? {
                Val::Ctor(n, p, _) if n == "Ok" || n == "Some" => Ok(p.into_iter().next().unwrap_or(Val::Unit)),
                Val::Ctor(n, p, f) if n == "Err" || n == "None" => Ok(Val::Ctor("$return".into(), vec![Val::Ctor(n, p, f)], BTreeMap::new())),
                o => Ok(o),
            },
            Expr::Range(r) => {
                let lo = match &r.start { Some(e) => self.eval(e, env)?, None => Val::int(0) };
                let hi = match &r.end {
                    Some(e) => self.eval(e, env)?,
                    // `a..`: a range value (only meaningful as an index / slice argument)
                    None => return Ok(Val::Ctor("$range".into(), vec![lo, Val::Unit], BTreeMap::new())),
                };
                match (lo, hi) {
                    (Val::Int { v: a, .. }, Val::Int { v: b, .. }) => {
                        let b = if matches!(r.limits, syn::RangeLimits::Closed(_)) { b } else { b - 1 };
                        if b - a > 100_000 {
                            return Err("range too large to enumerate".into());
                        }
                        Ok(Val::List((a..=b).map(Val::int).collect()))
                    }
                    (a, b) => Err(format!("range {}..{}", a.show(), b.show())),
                }
            }
            Expr::Break(_) => Ok(Val::Ctor("$break".into(), vec![], BTreeMap::new())),
            Expr::Continue(_) => Ok(Val::Ctor("$continue".into(), vec![], BTreeMap::new())),
            Expr::Index(ix) if matches!(self.eval(&ix.expr, env), Ok(Val::Str(_))) => {
                // string slicing: `s[a..b]`, `s[..b]`, `s[a..]`, or `s[r]` with r a `$range` value
                let Ok(Val::Str(st)) = self.eval(&ix.expr, env) else { unreachable!() };
                let int = |v: Val| match v { Val::Int { v, .. } => Ok(v as usize), o => Err(format!("string index {}", o.show())) };
                let (lo, hi) = match &*ix.index {
                    Expr::Range(r) => {
                        let lo = match &r.start { Some(e) => int(self.eval(e, env)?)?, None => 0 };
                        let hi = match &r.end { Some(e) => int(self.eval(e, env)?)? + if matches!(r.limits, syn::RangeLimits::Closed(_)) { 1 } else { 0 }, None => st.len() };
                        (lo, hi)
                    }
                    other => match self.eval(other, env)? {
                        Val::Ctor(n, p, _) if n == "$range" && p.len() == 2 => {
                            let lo = match &p[0] { Val::Int { v, .. } => *v as usize, _ => 0 };
                            let hi = match &p[1] { Val::Int { v, .. } => *v as usize, _ => st.len() };
                            (lo, hi)
                        }
                        o => return Err(format!("string indexed by {}", o.show())),
                    },
                };
                if lo > hi || hi > st.len() || !st.is_char_boundary(lo) || !st.is_char_boundary(hi) {
                    return Err(format!("string slice {}..{} out of range / not on a char boundary (the code would panic here)", lo, hi));
                }
                Ok(Val::Str(st[lo..hi].to_string()))
            }
            Expr::Index(ix) => {
                let base = self.eval(&ix.expr, env)?;
                let idx = self.eval(&ix.index, env)?;
                match (base, idx) {
                    (Val::Ctor(n, _, f), k) if n == "$map" => f.get(&map_key(&k)).cloned().ok_or_else(|| format!("map index: key {} not present (the code would panic here)", k.show())),
                    (Val::List(l), Val::Int { v, .. }) => l.get(v as usize).cloned().ok_or_else(|| "index out of range (the code would panic here)".to_string()),
                    // `l[a..]`: an open range value
                    (Val::List(l), Val::Ctor(n, p, _)) if n == "$range" && p.len() == 2 => {
                        let lo = match &p[0] { Val::Int { v, .. } => *v as usize, _ => 0 };
                        let hi = match &p[1] { Val::Int { v, .. } => *v as usize, _ => l.len() };
                        if lo > hi || hi > l.len() {
                            return Err(format!("slice {}..{} of a list of {} out of range (the code would panic here)", lo, hi, l.len()));
                        }
                        Ok(Val::List(l[lo..hi].to_vec()))
                    }
                    // `l[a..b]` evaluates its bounds to a list of indices
                    (Val::List(l), Val::List(ix)) if ix.iter().all(|v| matches!(v, Val::Int { .. })) => {
                        let mut out = vec![];
                        for i in &ix {
                            if let Val::Int { v, .. } = i {
                                out.push(l.get(*v as usize).cloned().ok_or_else(|| "slice out of range (the code would panic here)".to_string())?);
                            }
                        }
                        Ok(Val::List(out))
                    }
                    (b, i) => Err(format!("index {}[{}]", b.show(), i.show())),
                }
            }
            Expr::Array(a) => {
                let mut v = vec![];
                for e in a.elems.iter() {
                    v.push(self.eval(e, env)?);
                }
                Ok(Val::List(v))
            }
            Expr::Field(f) => {
                let base = self.eval(&f.base, env)?;
                let member = tok(&f.member);
                match (&base, &f.member) {
                    (Val::Ctor(_, _, named), syn::Member::Named(_)) => named
                        .get(&member)
                        .cloned()
                        .ok_or_else(|| format!("field {} not modelled on {}", member, base.show())),
                    (Val::Ctor(_, pos, _), syn::Member::Unnamed(i)) => pos
                        .get(i.index as usize)
                        .cloned()
                        .ok_or_else(|| format!("field {} not modelled on {}", member, base.show())),
                    (Val::Tuple(t), syn::Member::Unnamed(i)) => t
                        .get(i.index as usize)
                        .cloned()
                        .ok_or_else(|| format!("tuple index {} out of range", member)),
                    (Val::Opaque(s), _) => Ok(Val::Opaque(s.clone())),
                    _ => Err(format!("field access .{} on {}", member, base.show())),
                }
            }
            Expr::Struct(st) => {
                let name = st.path.segments.last().unwrap().ident.to_string();
                let mut named = BTreeMap::new();
                if let Some(rest) = &st.rest {
                    if let Val::Ctor(_, _, n) = self.eval(rest, env)? {
                        named = n;
                    }
                }
                for f in st.fields.iter() {
                    named.insert(tok(&f.member), self.eval(&f.expr, env)?);
                }
                Ok(Val::Ctor(name, vec![], named))
            }
            other => Err(format!("unsupported expression `{}`", tok(other))),
        }
    }

    /// closure application that lets assignments to captured variables persist
    pub fn apply_closure_mut(&self, c: &syn::Expr, args: &[Val], env: &mut Env) -> Result<Val, String> {
        match c {
            syn::Expr::Closure(cl) => {
                let mut e2 = env.clone();
                let mut bound = vec![];
                for (p, a) in cl.inputs.iter().zip(args) {
                    crate::model::collect_idents(&quote::ToTokens::to_token_stream(p), &mut bound);
                    match self.pat_match(p, a, &mut e2) {
                        PatM::Yes => {}
                        o => return Err(format!("closure param: {:?}", o)),
                    }
                }
                let r = self.eval(&cl.body, &mut e2)?;
                // names the body declares itself (`let x = ..`) shadow the captured ones: they are the closure's own
                struct Lets<'b> { out: &'b mut Vec<String> }
                impl<'b> crate::model::DeepCb for Lets<'b> {
                    fn local(&mut self, l: &syn::Local) {
                        crate::model::collect_idents(&quote::ToTokens::to_token_stream(&l.pat), self.out);
                    }
                }
                if let syn::Expr::Block(b) = &*cl.body {
                    crate::model::deep_walk_block(&b.block, &mut Lets { out: &mut bound });
                }
                let keys: Vec<String> = env.keys().cloned().collect();
                for k in keys {
                    if !bound.contains(&k) {
                        if let Some(v) = e2.get(&k) {
                            env.insert(k, v.clone());
                        }
                    }
                }
                Ok(match r {
                    Val::Ctor(n, mut p, _) if n == "$return" => p.pop().unwrap_or(Val::Unit),
                    o => o,
                })
            }
            syn::Expr::Path(p) if p.path.segments.len() == 1 && matches!(env.get(&p.path.segments[0].ident.to_string()), Some(Val::Closure(..))) => {
                if let Some(Val::Closure(cl, cenv)) = env.get(&p.path.segments[0].ident.to_string()).cloned() {
                    return self.apply_closure(&syn::Expr::Closure(*cl), args, &cenv);
                }
                Err("closure value vanished".into())
            }
            syn::Expr::Path(p) => {
                // a fn item passed by path: ask the hook
                let name = tok(p);
                match (self.call_hook)(self, &name, args) {
                    Some(r) => r,
                    None => {
                        let last = p.path.segments.last().unwrap().ident.to_string();
                        if let Some(tbl) = self.inline {
                            if let Some((params, body)) = tbl.get(&last) {
                                let mut e2 = Env::new();
                                for (pn, a) in params.iter().zip(args.iter()) {
                                    e2.insert(pn.clone(), a.clone());
                                }
                                return self.eval_fn_body(body, &mut e2);
                            }
                        }
                        // `char::method` / `str::method` given by path: the same as calling the method on the argument
                        if let (Some(Val::Char(ch)), true) = (args.first(), name.starts_with("char::")) {
                            let r = match &name["char::".len()..] {
                                "len_utf8" => Some(Val::int(ch.len_utf8() as i128)),
                                "is_whitespace" => Some(Val::Bool(ch.is_whitespace())),
                                "is_alphanumeric" => Some(Val::Bool(ch.is_alphanumeric())),
                                "is_ascii_alphanumeric" => Some(Val::Bool(ch.is_ascii_alphanumeric())),
                                "is_ascii_digit" => Some(Val::Bool(ch.is_ascii_digit())),
                                "is_numeric" => Some(Val::Bool(ch.is_numeric())),
                                "is_uppercase" => Some(Val::Bool(ch.is_uppercase())),
                                "is_lowercase" => Some(Val::Bool(ch.is_lowercase())),
                                "to_ascii_uppercase" => Some(Val::Char(ch.to_ascii_uppercase())),
                                "to_ascii_lowercase" => Some(Val::Char(ch.to_ascii_lowercase())),
                                _ => None,
                            };
                            if let Some(r) = r {
                                return Ok(r);
                            }
                        }
                        if let (Some(Val::Str(st)), true) = (args.first(), name == "str::len" || name == "String::len") {
                            return Ok(Val::int(st.len() as i128));
                        }
                        // conversions that leave the abstract value as it is
                        if ["String::as_str", "String::as_ref", "String::from", "String::clone", "str::to_string", "str::to_owned", "ToString::to_string", "ToOwned::to_owned", "Clone::clone", "AsRef::as_ref", "Into::into", "From::from"].contains(&name.as_str()) && args.len() == 1 {
                            return Ok(args[0].clone());
                        }
                        if is_upper_first(&last) {
                            Ok(Val::Ctor(last, args.to_vec(), BTreeMap::new()))
                        } else {
                            Ok(Val::Opaque(format!("fn {}", name)))
                        }
                    }
                }
            }
            _ => Err("expected closure".into()),
        }
    }

    /// `x`, `x.f`, `x.0.1` as a place (variable + field path)
    /// `<place>.entry(k)[.and_modify(..)][.or_insert(..)|.or_insert_with(..)|.or_default()]` on a `$map` place
    fn entry_chain(&self, mc: &syn::ExprMethodCall, env: &mut Env) -> Option<((String, Vec<String>), syn::Expr, Vec<(String, Vec<syn::Expr>)>)> {
        let mut ops: Vec<(String, Vec<syn::Expr>)> = vec![];
        let mut cur: &syn::ExprMethodCall = mc;
        loop {
            let m = cur.method.to_string();
            if m == "entry" {
                let place = self.place_of(&cur.receiver)?;
                let mut e2 = env.clone();
                if !matches!(self.eval(&cur.receiver, &mut e2), Ok(Val::Ctor(n, _, _)) if n == "$map") {
                    return None;
                }
                ops.reverse();
                return Some((place, cur.args.first()?.clone(), ops));
            }
            if !["or_insert", "or_insert_with", "or_default", "and_modify"].contains(&m.as_str()) {
                return None;
            }
            ops.push((m, cur.args.iter().cloned().collect()));
            match &*cur.receiver {
                syn::Expr::MethodCall(inner) => cur = inner,
                _ => return None,
            }
        }
    }

    pub fn place_of(&self, e: &syn::Expr) -> Option<(String, Vec<String>)> {
        match e {
            syn::Expr::Path(p) if p.path.segments.len() == 1 => Some((p.path.segments[0].ident.to_string(), vec![])),
            syn::Expr::Field(f) => {
                let (v, mut path) = self.place_of(&f.base)?;
                path.push(tok(&f.member));
                Some((v, path))
            }
            syn::Expr::Paren(p) => self.place_of(&p.expr),
            syn::Expr::Reference(r) => self.place_of(&r.expr),
            syn::Expr::Unary(u) if matches!(u.op, syn::UnOp::Deref(_)) => self.place_of(&u.expr),
            _ => None,
        }
    }

    pub fn apply_closure(&self, c: &syn::Expr, args: &[Val], env: &Env) -> Result<Val, String> {
        match c {
            syn::Expr::Closure(cl) => {
                let mut e2 = env.clone();
                for (p, a) in cl.inputs.iter().zip(args) {
                    match self.pat_match(p, a, &mut e2) {
                        PatM::Yes => {}
                        o => return Err(format!("closure param: {:?}", o)),
                    }
                }
                // a `return` inside the closure ends the closure
                Ok(match self.eval(&cl.body, &mut e2)? {
                    Val::Ctor(n, mut p, _) if n == "$return" => p.pop().unwrap_or(Val::Unit),
                    o => o,
                })
            }
            syn::Expr::Path(_) => {
                let mut e2 = env.clone();
                self.apply_closure_mut(c, args, &mut e2)
            }
            _ => Err("expected closure".into()),
        }
    }

    fn eval_combinator(&self, name: &str, recv: Val, mc: &syn::ExprMethodCall, env: &mut Env) -> Result<Val, String> {
        let inner = match &recv {
            Val::Ctor(n, p, _) if n == "Some" => Some(p.first().cloned().unwrap_or(Val::Unit)),
            Val::Ctor(n, _, _) if n == "None" => None,
            Val::Bool(b) if name == "then" || name == "then_some" => {
                return if *b {
                    let v = if name == "then" {
                        self.apply_closure(&mc.args[0], &[], env)?
                    } else {
                        self.eval(&mc.args[0], env)?
                    };
                    Ok(Val::some(v))
                } else {
                    Ok(Val::none())
                };
            }
            Val::Int { v: x, input } if name == "min" || name == "max" => {
                let o = self.eval(&mc.args[0], env)?;
                if let Val::Int { v: y, input: i2 } = o {
                    let r = if name == "min" { (*x).min(y) } else { (*x).max(y) };
                    return Ok(Val::Int { v: r, input: *input || i2 });
                }
                return Err("min/max on non-int".into());
            }
            o => return Err(format!(".{}() on {}", name, o.show())),
        };
        match name {
            "max" | "min" => {
                // Option<T: Ord>: None < Some(_)
                let o = self.eval(&mc.args[0], env)?;
                let oi = match &o {
                    Val::Ctor(n, p, _) if n == "Some" => Some(p.first().cloned().unwrap_or(Val::Unit)),
                    Val::Ctor(n, _, _) if n == "None" => None,
                    x => return Err(format!("Option::{}({})", name, x.show())),
                };
                let as_int = |v: &Val| match v { Val::Int { v, .. } => Ok(*v), x => Err(format!("Option::{} on non-integer {}", name, x.show())) };
                Ok(match (inner, oi) {
                    (None, None) => Val::none(),
                    (Some(a), None) => if name == "max" { Val::some(a) } else { Val::none() },
                    (None, Some(b)) => if name == "max" { Val::some(b) } else { Val::none() },
                    (Some(a), Some(b)) => {
                        let (x, y) = (as_int(&a)?, as_int(&b)?);
                        let pick_a = if name == "max" { x >= y } else { x <= y };
                        Val::some(if pick_a { a } else { b })
                    }
                })
            }
            "is_some_and" => match inner {
                Some(v) => self.apply_closure(&mc.args[0], &[v], env),
                None => Ok(Val::Bool(false)),
            },
            "map_or" => match inner {
                Some(v) => self.apply_closure(&mc.args[1], &[v], env),
                None => self.eval(&mc.args[0], env),
            },
            "map" => match inner {
                Some(v) => Ok(Val::some(self.apply_closure(&mc.args[0], &[v], env)?)),
                None => Ok(Val::none()),
            },
            "and_then" => match inner {
                Some(v) => self.apply_closure(&mc.args[0], &[v], env),
                None => Ok(Val::none()),
            },
            "or" => match inner {
                Some(v) => Ok(Val::some(v)),
                None => self.eval(&mc.args[0], env),
            },
            _ => Err(format!("unsupported combinator {}", name)),
        }
    }
}

/// The decision table of one `match`: for every cell of `domain` the index of the selected arm.
pub fn decision_table(
    ev: &Evaluator,
    m: &syn::ExprMatch,
    domain: &[Val],
    env: &Env,
) -> Result<Vec<(Val, usize, Env)>, String> {
    let mut out = vec![];
    for cell in domain {
        let (i, e2) = ev
            .select_arm(m, cell, env)
            .map_err(|e| format!("cell {}: {}", cell.show(), e))?;
        out.push((cell.clone(), i, e2));
    }
    Ok(out)
}

pub fn no_consts(_: &str) -> Option<Val> {
    None
}

/// Render a quote! body with interpolations replaced by the bound symbolic values.
pub fn subst_quote(q: &[crate::quotex::QTok], env: &Env) -> String {
    use crate::quotex::QTok;
    let mut s = String::new();
    for t in q {
        let piece = match t {
            QTok::Ident(v) => v.clone(),
            QTok::Punct(c) => c.to_string(),
            QTok::Lit(l) => l.clone(),
            QTok::Interp(v) => match env.get(v) {
                Some(Val::Sym(x)) => x.clone(),
                Some(Val::Str(x)) => format!("{:?}", x),
                Some(Val::Opaque(_)) | None => format!("#{}", v),
                Some(o) => o.show(),
            },
            QTok::Rep(b, sep) => {
                // `#(#list),*`: expanded when the interpolated variables are lists of known items
                fn interps(q: &[crate::quotex::QTok], out: &mut Vec<String>) {
                    for t in q {
                        match t {
                            crate::quotex::QTok::Interp(v) => out.push(v.clone()),
                            crate::quotex::QTok::Group(_, b) | crate::quotex::QTok::Rep(b, _) => interps(b, out),
                            _ => {}
                        }
                    }
                }
                let mut vars = vec![];
                interps(b, &mut vars);
                let lists: Vec<(String, Vec<Val>)> = vars.iter().filter_map(|v| match env.get(v) { Some(Val::List(l)) => Some((v.clone(), l.clone())), _ => None }).collect();
                if !lists.is_empty() && lists.iter().all(|(_, l)| l.len() == lists[0].1.len()) {
                    let mut parts = vec![];
                    for i in 0..lists[0].1.len() {
                        let mut e2 = env.clone();
                        for (v, l) in &lists {
                            e2.insert(v.clone(), l[i].clone());
                        }
                        parts.push(subst_quote(b, &e2));
                    }
                    parts.join(&sep.map(|c| c.to_string()).unwrap_or_else(|| " ".to_string()))
                } else {
                    format!("#({}){}*", subst_quote(b, env), sep.map(|c| c.to_string()).unwrap_or_default())
                }
            }
            QTok::Group(d, b) => {
                let (o, c) = match d {
                    '(' => ("(", ")"),
                    '{' => ("{", "}"),
                    '[' => ("[", "]"),
                    _ => ("", ""),
                };
                format!("{}{}{}", o, subst_quote(b, env), c)
            }
        };
        if piece.is_empty() {
            continue;
        }
        if !s.is_empty() {
            s.push(' ');
        }
        s.push_str(&piece);
    }
    crate::model::norm_tokens(&s)
}

pub fn place_get_mut<'e>(env: &'e mut Env, place: &(String, Vec<String>)) -> Option<&'e mut Val> {
    let mut cur = env.get_mut(&place.0)?;
    for seg in &place.1 {
        cur = match cur {
            Val::Tuple(t) => t.get_mut(seg.parse::<usize>().ok()?)?,
            Val::Ctor(_, pos, named) => {
                if let Ok(i) = seg.parse::<usize>() {
                    pos.get_mut(i)?
                } else {
                    named.get_mut(seg)?
                }
            }
            _ => return None,
        };
    }
    Some(cur)
}
