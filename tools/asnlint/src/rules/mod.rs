use crate::model::Model;
use crate::report::Ctx;
use serde_json::Value;

pub mod util;
pub mod c03;

pub fn dispatch(prop: &str, m: &Model, ctx: &mut Ctx, facts: Option<&Value>) -> bool {
    let _ = facts;
    match prop {
        "C03" => c03::run(m, ctx),
        _ => return false,
    }
    true
}
