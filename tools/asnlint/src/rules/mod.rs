use crate::mir::Facts;
use crate::model::Model;
use crate::report::Ctx;
use serde_json::Value;

pub mod util;
pub mod c01;
pub mod c02;
pub mod c03;
pub mod c04;
pub mod c05;
pub mod c06;
pub mod c07;
pub mod c08;
pub mod c09;
pub mod c10;
pub mod c11;
pub mod c12;
pub mod c13;
pub mod c14;
pub mod c15;
pub mod c16;
pub mod c17;
pub mod c18;
pub mod c19;
pub mod c20;

const NEEDS_MIR: [&str; 5] = ["C08", "C11", "C12", "C16", "C20"];

pub fn dispatch(prop: &str, m: &Model, ctx: &mut Ctx, facts: Option<&Value>) -> bool {
    let mut loaded: Option<Facts> = None;
    if NEEDS_MIR.contains(&prop) {
        match facts {
            None => {
                ctx.fail_closed("facts", "this property needs the MIR fact file (--facts)");
                return true;
            }
            Some(v) => match Facts::load(v) {
                Ok(f) => {
                    ctx.extra.insert("mir_crates".into(), serde_json::json!(f.crates));
                    loaded = Some(f)
                }
                Err(e) => {
                    ctx.fail_closed("facts", &e);
                    return true;
                }
            },
        }
    }
    match prop {
        "C01" => c01::run(m, ctx),
        "C02" => c02::run(m, ctx),
        "C03" => c03::run(m, ctx),
        "C04" => c04::run(m, ctx),
        "C05" => c05::run(m, ctx),
        "C06" => c06::run(m, ctx),
        "C07" => c07::run(m, ctx),
        "C09" => c09::run(m, ctx),
        "C10" => c10::run(m, ctx),
        "C13" => c13::run(m, ctx),
        "C14" => c14::run(m, ctx),
        "C15" => c15::run(m, ctx),
        "C17" => c17::run(m, ctx),
        "C18" => c18::run(m, ctx),
        "C19" => c19::run(m, ctx),
        "C08" => c08::run(m, ctx, loaded.as_ref().unwrap()),
        "C11" => c11::run(m, ctx, loaded.as_ref().unwrap()),
        "C12" => c12::run(m, ctx, loaded.as_ref().unwrap()),
        "C16" => c16::run(m, ctx, loaded.as_ref().unwrap()),
        "C20" => c20::run(m, ctx, loaded.as_ref().unwrap()),
        _ => return false,
    }
    true
}
