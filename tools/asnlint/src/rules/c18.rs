//! C18 — TypeScript declarations have the JER shape of each type (string-template discipline).
use crate::eval::{Env, Evaluator, Val};
use crate::model::{self, tok, FnInfo, Model};
use crate::report::Ctx;
use crate::rules::util::*;
use serde_json::json;
use std::collections::BTreeMap;

/// all string literals (incl. raw) inside a block: (text, is_format_template, line)
fn literals(b: &syn::Block) -> Vec<(String, bool, usize)> {
    let mut out = vec![];
    fn walk_tokens(ts: proc_macro2::TokenStream, fmt: bool, out: &mut Vec<(String, bool, usize)>, first: &mut bool) {
        for t in ts {
            match t {
                proc_macro2::TokenTree::Literal(l) => {
                    if let Ok(syn::Lit::Str(s)) = syn::parse_str::<syn::Lit>(&l.to_string()) {
                        out.push((s.value(), fmt && *first, l.span().start().line));
                    }
                    *first = false;
                }
                proc_macro2::TokenTree::Group(g) => {
                    let mut f2 = false;
                    walk_tokens(g.stream(), false, out, &mut f2);
                    *first = false;
                }
                _ => {
                    *first = false;
                }
            }
        }
    }
    struct V<'a> {
        out: &'a mut Vec<(String, bool, usize)>,
    }
    impl<'a> model::DeepCb for V<'a> {
        fn mac(&mut self, m: &syn::Macro) {
            let name = m.path.segments.last().map(|s| s.ident.to_string()).unwrap_or_default();
            if name == "format" {
                // first literal is the template; nested macros are visited separately by the deep walker
                let mut first = true;
                let mut it = m.tokens.clone().into_iter();
                if let Some(proc_macro2::TokenTree::Literal(l)) = it.next() {
                    if let Ok(syn::Lit::Str(s)) = syn::parse_str::<syn::Lit>(&l.to_string()) {
                        self.out.push((s.value(), true, l.span().start().line));
                    }
                }
                let _ = &mut first;
            }
        }
        fn expr(&mut self, e: &syn::Expr) {
            if let syn::Expr::Lit(l) = e {
                if let syn::Lit::Str(s) = &l.lit {
                    self.out.push((s.value(), false, s.span().start().line));
                }
            }
        }
    }
    let _ = walk_tokens;
    let mut v = V { out: &mut out };
    model::deep_walk_block(b, &mut v);
    out
}

/// strip format placeholders, unescape {{ }}
fn render_template(t: &str) -> String {
    let cs: Vec<char> = t.chars().collect();
    let mut out = String::new();
    let mut i = 0;
    while i < cs.len() {
        if cs[i] == '{' {
            if i + 1 < cs.len() && cs[i + 1] == '{' {
                out.push('{');
                i += 2;
                continue;
            }
            // placeholder up to the matching }
            let mut j = i + 1;
            while j < cs.len() && cs[j] != '}' {
                j += 1;
            }
            out.push('\u{1}'); // placeholder marker
            i = j + 1;
            continue;
        }
        if cs[i] == '}' {
            if i + 1 < cs.len() && cs[i + 1] == '}' {
                out.push('}');
                i += 2;
                continue;
            }
        }
        out.push(cs[i]);
        i += 1;
    }
    out
}

fn balance(s: &str) -> Result<(), String> {
    let mut stack = vec![];
    let mut in_str = false;
    for c in s.chars() {
        if c == '"' {
            in_str = !in_str;
            continue;
        }
        if in_str {
            continue;
        }
        match c {
            '(' | '[' | '{' => stack.push(c),
            ')' | ']' | '}' => {
                let want = match c { ')' => '(', ']' => '[', _ => '{' };
                if stack.pop() != Some(want) {
                    return Err(format!("unmatched `{}`", c));
                }
            }
            _ => {}
        }
    }
    if let Some(c) = stack.pop() {
        return Err(format!("unclosed `{}`", c));
    }
    Ok(())
}

pub fn run(m: &Model, ctx: &mut Ctx) {
    ctx.explanation = "C18.balance: every format template and string fragment of the TypeScript generator is bracket-balanced after `{{ }}` unescaping (fragments that are opened and closed by sibling literals must balance per fn). \
C18.cat: a producer of a union (`join(\" | \")`) is never placed under a postfix `[]` without parentheses (syntactic-category typing of the 20-odd producers). \
C18.one: every template contains exactly one `export`; the type dispatch of generate() maps every non-parameterized type kind to exactly one template call (or an error). \
C18.shape: `?` iff the component is not Required; index signature iff the type has an extension marker (and, by the property, iff its module says EXTENSIBILITY IMPLIED); enum members `mangled = \"original\"`; CHOICE = union of single-key objects; arrays for SEQUENCE OF and SET OF. \
Not decided: that every mentioned name is declared or imported (program dependent); JER conformance of values.".into();
    ctx.assumptions = vec!["TypeScript grammar: `A | B[]` parses as `A | (B[])`".into()];
    ctx.rule("template balance; category typing of producers; exhaustive guard tables");

    let ts: Vec<&FnInfo> = m.fns.iter().filter(|f| f.module.starts_with("generator::typescript")).collect();
    ctx.floor("C18/typescript-fns", ts.len(), 25);
    // ---------------- balance ----------------
    let mut n_lits = 0;
    for f in &ts {
        ctx.func(&f.key);
        let lits = literals(&f.block);
        let mut total = String::new();
        let mut seen = std::collections::BTreeSet::new();
        for (text, is_fmt, line) in &lits {
            if !seen.insert((text.clone(), *line)) {
                continue;
            }
            n_lits += 1;
            let rendered = if *is_fmt { render_template(text) } else { text.clone() };
            total.push_str(&rendered);
            if *is_fmt {
                ctx.oblige("C18.balance", &format!("{}:{}", f.key, text.chars().filter(|c| !c.is_whitespace()).take(40).collect::<String>()), text.contains('{') || text.contains('['));
                if let Err(e) = balance(&rendered) {
                    ctx.violate("C18.balance", &format!("template:{}", f.key), &f.file, *line,
                        &format!("the template `{}` in {} is not bracket-balanced ({}): the emitted declaration would not parse", text.split_whitespace().collect::<Vec<_>>().join(" "), f.name, e));
                }
            }
        }
        if !lits.is_empty() {
            ctx.oblige("C18.balance", &format!("{}:all-fragments", f.key), false);
            if let Err(e) = balance(&total) {
                ctx.violate("C18.balance", &format!("fragments:{}", f.key), &f.file, f.line, &format!("the string fragments of {} do not balance in total ({})", f.name, e));
            }
        }
    }
    ctx.floor("C18.balance/literals", n_lits, 40);

    // ---------------- one export per template ----------------
    let templates: Vec<&&FnInfo> = ts.iter().filter(|f| f.module.ends_with("template")).collect();
    ctx.floor("C18.one/templates", templates.len(), 13);
    for f in templates {
        ctx.oblige("C18.one", &f.name, true);
        let lits = literals(&f.block);
        let n: usize = lits.iter().filter(|(_, is_fmt, _)| *is_fmt).map(|(t, _, _)| t.matches("export ").count()).sum();
        if n != 1 {
            ctx.violate("C18.one", &format!("exports:{}", f.name), &f.file, f.line, &format!("{} emits {} `export` declarations; every type assignment yields exactly one exported declaration", f.name, n));
        }
        // the declared name is the {name} placeholder right after the keyword
        let ok = lits.iter().any(|(t, is_fmt, _)| *is_fmt && (t.contains("export type {name} =") || t.contains("export enum {name} {{") || t.contains("export const {name} =")));
        if !ok {
            ctx.violate("C18.one", &format!("declared-name:{}", f.name), &f.file, f.line, &format!("{} must declare `{{name}}` right after export type/enum/const", f.name));
        }
    }
    // callers pass the hyphen-mangled own name
    for f in ts.iter().filter(|f| f.module.ends_with("builder")) {
        for c in model::calls_in(&f.block) {
            if model::callee_name(&c).map(|n| n.ends_with("_template")).unwrap_or(false) {
                ctx.oblige("C18.one", &format!("{}:name-arg", f.name), true);
                let a1 = c.args.iter().nth(1).map(|a| tok(a)).unwrap_or_default();
                if a1 != "&to_jer_identifier(&tld.name)" {
                    ctx.violate("C18.one", &format!("{}:name-arg", f.name), &f.file, span_line(&c), &format!("{} declares `{}`; the declaration must carry the definition's own hyphen-mangled name", f.name, a1));
                }
            }
        }
    }

    shapes(m, ctx);
    dispatch_agreement(m, ctx, "C18.dispatch", "Typescript", "generate", "t.ty");
    comment_lines(m, ctx);
    crate::rules::c01::instance_of(m, ctx, "C18.instanceof");
    enumeral_comment_lines(m, ctx);
    bit_string_shape(m, ctx);
    imports(m, ctx);
    values(m, ctx);
    categories(m, ctx, &ts);
}

/// C18.dispatch (also usable for the rasn backend): the dispatcher routes each kind of type assignment to a generator method,
/// and each generator method begins by testing that it was given the kind it is written for (`if let ASN1Type::K(..) = tld.ty
/// { .. } else { Err(mismatch) }`). Both tables are extracted and composed: for every ASN1Type variant the method the
/// dispatcher chooses must accept that variant — otherwise a type assignment the backend means to support yields a warning
/// and no declaration.
pub fn dispatch_agreement(m: &Model, ctx: &mut Ctx, rule: &str, self_ty: &str, dispatcher: &str, scrutinee: &str) {
    use crate::eval::{Env, Evaluator, Val, PatM};
    let Some(d) = m.fns.iter().find(|f| f.name == dispatcher && f.self_ty.as_deref() == Some(self_ty)) else {
        ctx.fail_closed(rule, &format!("anchor not found: {}::{}", self_ty, dispatcher));
        return;
    };
    let Ok(types) = m.find_enum("ASN1Type") else {
        ctx.fail_closed(rule, "enum ASN1Type not found");
        return;
    };
    let Some(mt) = model::matches_in(&d.block).into_iter().find(|mt| tok(&mt.expr) == scrutinee) else {
        ctx.fail_closed(rule, &format!("{}::{}: no match over `{}`", self_ty, dispatcher, scrutinee));
        return;
    };
    let consts = const_resolver(m);
    let ev = Evaluator { consts: &consts, call_hook: &crate::eval::no_hook, inline: None };
    let value_of = |v: &str| -> Val {
        let fields = types.variant_fields.get(v).cloned().unwrap_or_default();
        Val::Ctor(v.to_string(), fields.iter().map(|_| Val::Opaque("payload".into())).collect(), Default::default())
    };
    let mut routed = 0;
    for v in &types.variants {
        let val = value_of(v);
        let Ok((i, _)) = ev.select_arm(&mt, &val, &Env::new()) else { continue };
        // the arm hands the definition to exactly one generator method
        let calls: Vec<String> = model::method_calls_in(&syn::Block { brace_token: Default::default(), stmts: vec![syn::Stmt::Expr((*mt.arms[i].body).clone(), None)] }).into_iter().filter(|mc| tok(&mc.receiver) == "self" && mc.method.to_string().starts_with("generate_")).map(|mc| mc.method.to_string()).collect();
        let [callee] = calls.as_slice() else { continue };
        let Some(g) = m.fns.iter().find(|f| &f.name == callee && f.self_ty.as_deref() == Some(self_ty)) else { continue };
        // its own test of the kind: the first `if let PAT = <x>.ty` of its body
        // (an `if let` over the kind whose else branch is the mismatch error; other tests of the kind are decisions, not guards)
        struct C { out: Option<syn::Pat> }
        impl model::DeepCb for C {
            fn expr(&mut self, e: &syn::Expr) {
                if self.out.is_some() { return }
                if let syn::Expr::If(i) = e {
                    if let syn::Expr::Let(l) = &*i.cond {
                        let t = tok(&l.expr);
                        let rejects = i.else_branch.as_ref().map(|(_, b)| { let b = tok(b); b.contains("mismatch") || b.contains("Err(") }).unwrap_or(false);
                        if (t.ends_with(".ty") || t.ends_with(".ty()")) && tok(&l.pat).contains("ASN1Type::") && rejects {
                            self.out = Some((*l.pat).clone());
                        }
                    }
                }
            }
        }
        let mut c = C { out: None };
        model::deep_walk_block(&g.block, &mut c);
        let pat = match c.out {
            Some(p) => p,
            None => {
                // or a `match` over the kind whose wildcard arm is the mismatch error
                let guard = model::matches_in(&g.block).into_iter().find(|mt2| { let t = tok(&mt2.expr); (t.ends_with(".ty") || t.ends_with(".ty()")) && mt2.arms.iter().any(|a| tok(&a.pat) == "_" && { let b = tok(&a.body); b.contains("mismatch") || b.contains("Err(") }) });
                let Some(g2) = guard else { continue };
                routed += 1;
                ctx.func(&g.key);
                ctx.oblige(rule, &format!("{}->{}", v, callee), true);
                // the kind alone decides the question asked here; an arm that also tests the payload (`Set(s) if s.members.is_empty()`)
                // is taken to decline, so that the kind is followed to the arm that accepts it unconditionally
                let by_kind = || -> Result<(usize, Env), String> {
                    for (j, arm) in g2.arms.iter().enumerate() {
                        let mut e2 = Env::new();
                        match ev.pat_match(&arm.pat, &val, &mut e2) {
                            PatM::No => continue,
                            PatM::Unknown(s) => return Err(format!("arm {} `{}`: {}", j, tok(&arm.pat), s)),
                            PatM::Yes => {
                                if let Some((_, g)) = &arm.guard {
                                    if !matches!(ev.eval(g, &mut e2), Ok(Val::Bool(true))) {
                                        continue;
                                    }
                                }
                                return Ok((j, e2));
                            }
                        }
                    }
                    Err(format!("no arm matches {}", val.show()))
                };
                match by_kind() {
                    Ok((j, _)) if tok(&g2.arms[j].pat) == "_" => ctx.violate(rule, &format!("generator-rejects:{}->{}", v, callee), &g.file, g.line,
                        &format!("{}::{} hands a type assignment of kind {} to {}, whose own test of the kind sends it to the mismatch arm: the assignment yields a warning and no declaration", self_ty, dispatcher, v, callee)),
                    Ok(_) => {}
                    Err(e) => ctx.fail_closed(rule, &format!("[{} -> {}]: {}", v, callee, e)),
                }
                continue;
            }
        };
        routed += 1;
        ctx.func(&g.key);
        ctx.oblige(rule, &format!("{}->{}", v, callee), true);
        match ev.pat_match(&pat, &val, &mut Env::new()) {
            PatM::Yes => {}
            PatM::No => ctx.violate(rule, &format!("generator-rejects:{}->{}", v, callee), &g.file, g.line,
                &format!("{}::{} hands a type assignment of kind {} to {}, which accepts only `{}` and answers anything else with a type-mismatch error: the assignment yields a warning and no declaration", self_ty, dispatcher, v, callee, tok(&pat))),
            PatM::Unknown(e) => ctx.fail_closed(rule, &format!("[{} -> {}]: {}", v, callee, e)),
        }
    }
    ctx.floor(&format!("{}/routed-kinds", rule), routed, 8);
}

/// C18.comment: the comments of a definition are written in front of its declaration as `//` comments. A `//` comment ends at
/// the next ECMAScript line terminator (LF, CR, U+2028, U+2029), and an ASN.1 comment may contain any of them except LF, so
/// format_comments is evaluated on texts with each of them: every line of what it returns starts a comment of its own —
/// otherwise the rest of the ASN.1 comment is read as TypeScript.
fn comment_lines(m: &Model, ctx: &mut Ctx) {
    use crate::eval::{Env, Evaluator, Val};
    let Some(f) = m.fns.iter().find(|f| f.name == "format_comments" && f.module.starts_with("generator::typescript")) else {
        ctx.fail_closed("C18.comment", "anchor not found: typescript format_comments");
        return;
    };
    ctx.func(&f.key);
    let consts = const_resolver(m);
    let ev = Evaluator { consts: &consts, call_hook: &crate::eval::no_hook, inline: None };
    let p = f.sig.inputs.iter().filter_map(|a| match a { syn::FnArg::Typed(t) => Some(tok(&t.pat)), _ => None }).next().unwrap_or("comments".into());
    for (label, text) in [("LF", " one\n two */ export x"), ("CR", " one\r two */ export x"), ("CRLF", " one\r\n two */ export x"), ("U+2028", " one\u{2028} two */ export x"), ("U+2029", " one\u{2029} two */ export x"), ("none", " one two")] {
        ctx.oblige("C18.comment", label, true);
        let mut env = Env::new();
        env.insert(p.clone(), Val::Str(text.to_string()));
        match ev.eval_fn_body(&f.block, &mut env) {
            Ok(Val::Str(out)) => {
                let bad: Vec<&str> = out.split(['\n', '\r', '\u{2028}', '\u{2029}']).filter(|l| !l.trim().is_empty() && !l.trim_start().starts_with("//")).collect();
                if !bad.is_empty() || !out.ends_with('\n') {
                    ctx.violate("C18.comment", &format!("line-outside-comment:{}", label), &f.file, f.line,
                        &format!("format_comments on a comment containing {} returns {:?}: the line {:?} is not inside a `//` comment — the rest of the ASN.1 comment is read as TypeScript", label, out, bad.first().unwrap_or(&"<no final line break>")));
                }
            }
            Ok(o) => ctx.fail_closed("C18.comment", &format!("[{}]: {}", label, o.show())),
            Err(e) => ctx.fail_closed("C18.comment", &format!("[{}]: {}", label, e)),
        }
    }
}

/// C18.comment (enumerals): the description of an enumeral (the ASN.1 comment behind its comma) is written behind the member
/// as a `//` comment. The fold closure of Typescript::generate_enumerated is evaluated on descriptions containing each
/// ECMAScript line terminator: whatever follows the member's own line must again be inside a `//` comment.
fn enumeral_comment_lines(m: &Model, ctx: &mut Ctx) {
    use crate::eval::{Env, Evaluator, Val};
    use std::collections::BTreeMap as Map;
    let Some(f) = m.fns.iter().find(|f| f.name == "generate_enumerated" && f.self_ty.as_deref() == Some("Typescript")) else {
        ctx.fail_closed("C18.comment", "anchor not found: Typescript::generate_enumerated");
        return;
    };
    ctx.func(&f.key);
    struct C { out: Vec<syn::ExprClosure> }
    impl model::DeepCb for C {
        fn expr(&mut self, e: &syn::Expr) {
            if let syn::Expr::MethodCall(mc) = e {
                if mc.method == "fold" && mc.args.len() == 2 {
                    if let syn::Expr::Closure(c) = &mc.args[1] {
                        self.out.push(c.clone());
                    }
                }
            }
        }
    }
    let mut c = C { out: vec![] };
    model::deep_walk_block(&f.block, &mut c);
    let Some(clo) = c.out.into_iter().find(|c| tok(&c.body).contains("description")) else {
        // the members are rendered some other way: the description may not be written at all, which is fine
        ctx.oblige("C18.comment", "enumeral:not-rendered-by-a-fold", true);
        return;
    };
    let consts = const_resolver(m);
    let mut inl = inline_all(m, &[]);
    inl.retain(|k, _| k == "format_comments" || k == "to_jer_identifier");
    let ev = Evaluator { consts: &consts, call_hook: &crate::eval::no_hook, inline: Some(&inl) };
    for (label, text) in [("LF", " one\n two */ export x"), ("CR", " one\r two */ export x"), ("CRLF", " one\r\n two"), ("U+2028", " one\u{2028} two"), ("U+2029", " one\u{2029} two"), ("none", " one two")] {
        ctx.oblige("C18.comment", &format!("enumeral:{}", label), true);
        let en = Val::Ctor("Enumeral".into(), vec![], [("name".to_string(), Val::Str("red".into())), ("index".to_string(), Val::int(0)), ("description".to_string(), Val::some(Val::Str(text.into())))].into_iter().collect::<Map<_, _>>());
        match ev.apply_closure(&syn::Expr::Closure(clo.clone()), &[Val::Str(String::new()), en], &Env::new()) {
            Ok(Val::Str(out)) => {
                let mut lines = out.split(['\n', '\r', '\u{2028}', '\u{2029}']);
                let _member_line = lines.next();
                let bad: Vec<&str> = lines.filter(|l| !l.trim().is_empty() && !l.trim_start().starts_with("//")).collect();
                if !bad.is_empty() {
                    ctx.violate("C18.comment", &format!("enumeral-line-outside-comment:{}", label), &f.file, f.line,
                        &format!("an enumeral whose comment contains {} is rendered {:?}: the line {:?} is not inside a `//` comment — the rest of the ASN.1 comment is read as TypeScript inside the enum", label, out, bad[0]));
                }
            }
            Ok(o) => ctx.fail_closed("C18.comment", &format!("[enumeral {}]: {}", label, o.show().chars().take(100).collect::<String>())),
            Err(e) => ctx.fail_closed("C18.comment", &format!("[enumeral {}]: {}", label, e)),
        }
    }
}

/// C18.bits: the JER shape of a BIT STRING is a string when the type has a fixed size and `{ value, length }` otherwise
/// (X.697 24). `is_fixed_size` decides; it is evaluated on constraint lists as the lexer builds them: `SIZE (8)` and a single
/// value are fixed, no constraint, `SIZE (1..8)`, `SIZE (8, ...)` and two constraints are not.
fn bit_string_shape(m: &Model, ctx: &mut Ctx) {
    use crate::eval::{Env, Evaluator, Val};
    use std::collections::BTreeMap as Map;
    let Some(f) = m.fns.iter().find(|f| f.name == "is_fixed_size" && f.module.starts_with("generator::typescript")) else {
        ctx.fail_closed("C18.bits", "anchor not found: typescript is_fixed_size");
        return;
    };
    ctx.func(&f.key);
    let consts = const_resolver(m);
    let inl = inline_all(m, &["Constraint"]);
    let ev = Evaluator { consts: &consts, call_hook: &crate::eval::no_hook, inline: Some(&inl) };
    let named = |n: &str, fields: Vec<(&str, Val)>| Val::Ctor(n.to_string(), vec![], fields.into_iter().map(|(k, v)| (k.to_string(), v)).collect::<Map<_, _>>());
    let element = |e: Val| Val::Ctor("Element".into(), vec![e], Map::new());
    let single = |ext: bool| named("SingleValue", vec![("value", Val::Ctor("Integer".into(), vec![Val::int(8)], Map::new())), ("extensible", Val::Bool(ext))]);
    let range = named("ValueRange", vec![("min", Val::some(Val::Ctor("Integer".into(), vec![Val::int(1)], Map::new()))), ("max", Val::some(Val::Ctor("Integer".into(), vec![Val::int(8)], Map::new()))), ("extensible", Val::Bool(false))]);
    let subtype = |set: Val, ext: bool| Val::Ctor("Subtype".into(), vec![named("ElementSetSpecs", vec![("set", set), ("extensible", Val::Bool(ext))])], Map::new());
    let size = |inner: Val| element(Val::Ctor("SizeConstraint".into(), vec![element(inner)], Map::new()));
    let p = f.sig.inputs.iter().filter_map(|a| match a { syn::FnArg::Typed(t) => Some(tok(&t.pat)), _ => None }).next().unwrap_or("bit_str".into());
    for (what, constraints, want) in [
        ("BIT STRING", vec![], false),
        ("BIT STRING (SIZE (8))", vec![subtype(size(single(false)), false)], true),
        ("BIT STRING (SIZE (1..8))", vec![subtype(size(range.clone()), false)], false),
        ("BIT STRING (SIZE (8, ...))", vec![subtype(size(single(true)), false)], false),
        ("BIT STRING (SIZE (8), ...)", vec![subtype(size(single(false)), true)], false),
        ("BIT STRING ('1010'B)", vec![subtype(element(single(false)), false)], true),
        ("BIT STRING (SIZE (8)) (SIZE (1..8))", vec![subtype(size(single(false)), false), subtype(size(range.clone()), false)], false),
    ] {
        ctx.oblige("C18.bits", what, true);
        let mut env = Env::new();
        env.insert(p.clone(), named("BitString", vec![("constraints", Val::List(constraints)), ("distinguished_values", Val::none())]));
        match ev.eval_fn_body(&f.block, &mut env) {
            Ok(Val::Bool(got)) => {
                if got != want {
                    ctx.violate("C18.bits", &format!("fixed-size:{}", if want { "not-recognised" } else { "wrongly-assumed" }), &f.file, f.line,
                        &format!("is_fixed_size for `{}` is {}: a BIT STRING of fixed size is a JSON string in JER, any other an object `{{ value, length }}`; expected {}", what, got, want));
                }
            }
            Ok(o) => ctx.fail_closed("C18.bits", &format!("[{}]: {}", what, o.show())),
            Err(e) => ctx.fail_closed("C18.bits", &format!("[{}]: {}", what, e)),
        }
    }
}

/// C18.imports: "every type name it mentions is declared in the namespace or imported". The import loop of
/// generate_module decides per imported symbol whether an `import X = NS.X;` line is written; the decision is evaluated
/// on symbol spellings. A type reference may be spelled with capitals, digits and hyphens only (`PDU`, `T1`, `X509`), so
/// a decision made from the spelling drops imports of real types.
fn imports(m: &Model, ctx: &mut Ctx) {
    let Some(f) = m.fns.iter().find(|f| f.name == "generate_module" && f.self_ty.as_deref() == Some("Typescript")) else {
        ctx.fail_closed("C18.imports", "anchor not found: Typescript::generate_module");
        return;
    };
    ctx.func(&f.key);
    struct C {
        out: Vec<syn::ExprIf>,
    }
    impl model::DeepCb for C {
        fn expr(&mut self, e: &syn::Expr) {
            if let syn::Expr::If(i) = e {
                if tok(&i.then_branch).contains("import {") || literals(&i.then_branch).iter().any(|(t, _, _)| t.starts_with("import ")) {
                    self.out.push(i.clone());
                }
            }
        }
    }
    let mut c = C { out: vec![] };
    model::deep_walk_block(&f.block, &mut c);
    // innermost such `if`
    let Some(site) = c.out.iter().min_by_key(|i| tok(*i).len()) else {
        ctx.fail_closed("C18.imports", "generate_module: the `if` guarding the import line was not found");
        return;
    };
    // the loop variable: the `for <v> in &import.types`
    struct F {
        var: Option<String>,
    }
    impl model::DeepCb for F {
        fn expr(&mut self, e: &syn::Expr) {
            if let syn::Expr::ForLoop(fl) = e {
                if tok(&fl.expr).contains(".types") && self.var.is_none() {
                    self.var = Some(tok(&fl.pat));
                }
            }
        }
    }
    let mut fv = F { var: None };
    model::deep_walk_block(&f.block, &mut fv);
    let var = fv.var.unwrap_or("usage".into());
    let consts = const_resolver(m);
    let ev = Evaluator { consts: &consts, call_hook: &crate::eval::no_hook, inline: None };
    let classes: [(&str, &str, bool); 8] = [
        ("mixed-case", "Label", true),
        ("mixed-case-with-hyphen", "My-Type", true),
        ("mixed-case-with-digit", "Type2", true),
        ("caps-and-digits", "T1", true),
        ("caps-and-digits", "X509", true),
        ("all-caps", "PDU", true),
        ("all-caps-with-hyphen", "RRC-PDU", true),
        ("parameterized", "Param{}", false),
    ];
    for (class, name, want) in classes {
        ctx.oblige("C18.imports", &format!("{}:{}", class, name), true);
        let mut env = Env::new();
        env.insert(var.clone(), Val::Str(name.into()));
        match ev.eval(&site.cond, &mut env) {
            Ok(Val::Bool(b)) => {
                if b != want {
                    ctx.violate("C18.imports", &format!("spelling-heuristic:{}", class), &f.file, span_line(site),
                        &format!("an imported symbol spelled `{}` ({}) {} an `import` line; a type reference may be spelled like this (X.680 12.2), so a type `{}` imported from another module is mentioned in the namespace without being imported (the decision whether a symbol is a class must come from the definitions, not from the spelling)", name, class, if b { "gets" } else { "does not get" }, name));
                }
            }
            Ok(o) => ctx.fail_closed("C18.imports", &format!("[{}]: condition evaluated to {}", name, o.show())),
            Err(e) => ctx.fail_closed("C18.imports", &format!("[{}]: {}", name, e)),
        }
    }
}

/// C18.values: list and structure values are rendered with balanced brackets for every length, including the empty
/// list (value_to_tokens is evaluated on lists of 0, 1 and 3 elements, nested lists, and through LinkedNestedValue).
fn values(m: &Model, ctx: &mut Ctx) {
    let Some(f) = m.fns.iter().find(|f| f.name == "value_to_tokens" && f.module.starts_with("generator::typescript")) else {
        ctx.fail_closed("C18.values", "anchor not found: typescript::utils::value_to_tokens");
        return;
    };
    ctx.func(&f.key);
    let consts = const_resolver(m);
    let inl = inline_all(m, &[]);
    let ev = Evaluator { consts: &consts, call_hook: &crate::eval::no_hook, inline: Some(&inl) };
    let p = f.sig.inputs.iter().filter_map(|a| match a { syn::FnArg::Typed(t) => Some(tok(&t.pat)), _ => None }).next().unwrap_or("value".into());
    let int = |i: i128| Val::Ctor("Integer".into(), vec![Val::int(i)], BTreeMap::new());
    let list = |v: Vec<Val>| Val::Ctor("LinkedArrayLikeValue".into(), vec![Val::List(v)], BTreeMap::new());
    let cases: Vec<(&str, Val, &str)> = vec![
        ("empty list {}", list(vec![]), "[]"),
        ("list of one", list(vec![int(7)]), "[7]"),
        ("list of three", list(vec![int(1), int(2), int(3)]), "[1,2,3]"),
        ("list of lists", list(vec![list(vec![]), list(vec![int(1)])]), "[[],[1]]"),
        ("boolean", Val::Ctor("Boolean".into(), vec![Val::Bool(true)], BTreeMap::new()), "true"),
    ];
    for (what, v, want) in cases {
        ctx.oblige("C18.values", what, true);
        let mut env = Env::new();
        env.insert(p.clone(), v);
        match ev.eval_fn_body(&f.block, &mut env) {
            Ok(Val::Ctor(ok, pl, _)) if ok == "Ok" => {
                let got = match pl.first() { Some(Val::Str(s)) => s.chars().filter(|c| !c.is_whitespace()).collect::<String>(), Some(o) => o.show(), None => "?".into() };
                if got != want {
                    ctx.violate("C18.values", &format!("list-brackets:{}", what.replace(' ', "-")), &f.file, f.line,
                        &format!("the value `{}` is rendered `{}`, expected `{}`: brackets must balance for every list length", what, got, want));
                }
            }
            Ok(o) => ctx.fail_closed("C18.values", &format!("[{}]: {}", what, o.show().chars().take(120).collect::<String>())),
            Err(e) => ctx.fail_closed("C18.values", &format!("[{}]: {}", what, e)),
        }
    }
    // character string values: what is rendered is one TypeScript string literal that denotes the ASN.1 string
    fn js_unescape(lit: &str) -> Option<String> {
        let inner = lit.strip_prefix('"')?.strip_suffix('"')?;
        let mut out = String::new();
        let mut it = inner.chars();
        while let Some(c) = it.next() {
            match c {
                '"' | '\n' | '\r' | '\u{2028}' | '\u{2029}' => return None, // ends the literal / not allowed inside one
                '\\' => match it.next()? {
                    'n' => out.push('\n'),
                    'r' => out.push('\r'),
                    't' => out.push('\t'),
                    '"' => out.push('"'),
                    '\\' => out.push('\\'),
                    'u' => {
                        let hex: String = it.by_ref().take(4).collect();
                        out.push(char::from_u32(u32::from_str_radix(&hex, 16).ok()?)?);
                    }
                    _ => return None,
                },
                c => out.push(c),
            }
        }
        Some(out)
    }
    let string_cases: Vec<(&str, &str)> = vec![("plain", "abc"), ("quote", "he said \"hi\""), ("backslash", "a\\b"), ("line break", "a\nb"), ("template characters", "`${x}`"), ("empty", "")];
    for (ctor, wrap) in [("String", false), ("LinkedCharStringValue", true)] {
        for (what, text) in &string_cases {
            ctx.oblige("C18.values", &format!("string:{}:{}", ctor, what), true);
            let v = if wrap { Val::Ctor(ctor.into(), vec![Val::ctor("UTF8String"), Val::Str(text.to_string())], BTreeMap::new()) } else { Val::Ctor(ctor.into(), vec![Val::Str(text.to_string())], BTreeMap::new()) };
            let mut env = Env::new();
            env.insert(p.clone(), v);
            match ev.eval_fn_body(&f.block, &mut env) {
                Ok(Val::Ctor(ok, pl, _)) if ok == "Ok" => {
                    let got = match pl.first() { Some(Val::Str(s)) => s.clone(), Some(o) => o.show(), None => "?".into() };
                    if js_unescape(&got).as_deref() != Some(*text) {
                        ctx.violate("C18.values", &format!("string-literal:{}", ctor), &f.file, f.line,
                            &format!("the character string value {:?} ({}) is rendered `{}`, which is not one TypeScript string literal denoting that string: quotation marks, backslashes and line breaks must be escaped", text, what, got));
                    }
                }
                Ok(o) => ctx.fail_closed("C18.values", &format!("[string {}]: {}", what, o.show().chars().take(120).collect::<String>())),
                Err(e) => ctx.fail_closed("C18.values", &format!("[string {}]: {}", what, e)),
            }
        }
    }
    // SEQUENCE / SET values: the member names are the ones of the declaration (hyphens mangled)
    {
        ctx.oblige("C18.values", "struct-member-names", true);
        let field = Val::Tuple(vec![Val::Str("a-b".into()), Val::ctor("Integer"), Val::Ctor("Explicit".into(), vec![int(5)], BTreeMap::new())]);
        let hook = |_: &Evaluator, name: &str, a: &[Val]| -> Option<Result<Val, String>> {
            if name == ".value" { if let Some(Val::Ctor(_, p, _)) = a.first() { return p.first().cloned().map(Ok); } }
            None
        };
        let ev2 = Evaluator { consts: &consts, call_hook: &hook, inline: Some(&inl) };
        let mut env = Env::new();
        env.insert(p.clone(), Val::Ctor("LinkedStructLikeValue".into(), vec![Val::List(vec![field])], BTreeMap::new()));
        match ev2.eval_fn_body(&f.block, &mut env) {
            Ok(Val::Ctor(ok, pl, _)) if ok == "Ok" => {
                let got = match pl.first() { Some(Val::Str(s)) => s.chars().filter(|c| !c.is_whitespace()).collect::<String>(), Some(o) => o.show(), None => "?".into() };
                if !got.contains("a_b:5") {
                    ctx.violate("C18.values", "struct-member-names", &f.file, f.line, &format!("the value `{{ a-b 5 }}` is rendered `{}`: the member must be named `a_b` like in the type's declaration (`a-b: 5` is not TypeScript)", got));
                }
            }
            Ok(o) => ctx.fail_closed("C18.values", &format!("[struct value]: {}", o.show().chars().take(120).collect::<String>())),
            Err(e) => ctx.fail_closed("C18.values", &format!("[struct value]: {}", e)),
        }
    }
}

fn shapes(m: &Model, ctx: &mut Ctx) {
    let consts = const_resolver(m);
    let hook = |_: &Evaluator, name: &str, args: &[Val]| -> Option<Result<Val, String>> {
        match name {
            "to_jer_identifier" => Some(Ok(match args.first() { Some(Val::Str(s)) => Val::Str(s.replace('-', "_")), _ => Val::Str("id".into()) })),
            "type_to_tokens" => Some(Ok(Val::Str("T".into()))),
            _ => None,
        }
    };
    let ev = Evaluator { consts: &consts, call_hook: &hook, inline: None };
    let member = |name: &str, opt: &str| {
        let mut f = BTreeMap::new();
        f.insert("name".to_string(), Val::Str(name.into()));
        f.insert("optionality".to_string(), if opt == "Default" { Val::Ctor("Default".into(), vec![Val::Sym("v".into())], BTreeMap::new()) } else { Val::ctor(opt) });
        f.insert("ty".to_string(), Val::Opaque("ty".into()));
        Val::Ctor("SequenceOrSetMember".into(), vec![], f)
    };
    if let Some(f) = anchor_fn(m, ctx, "C18.shape", None, "format_sequence_or_set_members", Some("typescript")) {
        let p = f.sig.inputs.iter().filter_map(|a| match a { syn::FnArg::Typed(t) => Some(tok(&t.pat)), _ => None }).next().unwrap_or("se".into());
        let extra: Vec<String> = f.sig.inputs.iter().filter_map(|a| match a { syn::FnArg::Typed(t) => Some(tok(&t.pat)), _ => None }).skip(1).collect();
        for (ext, implied) in [(None, false), (Some(1usize), false), (None, true), (Some(1usize), true)] {
            if implied && extra.is_empty() {
                continue; // a renderer without access to the module default: reported by the extensibility-implied rule below
            }
            for (opts, want_marks) in [(vec!["Required"], vec![false]), (vec!["Optional", "Required", "Default"], vec![true, false, true]), (vec![], vec![])] {
                let key = format!("ext={:?} implied={} members={:?}", ext, implied, opts);
                ctx.oblige("C18.shape", &key, true);
                let mut se = BTreeMap::new();
                se.insert("members".to_string(), Val::List(opts.iter().enumerate().map(|(i, o)| member(&format!("m-{}", i), o)).collect()));
                se.insert("extensible".to_string(), ext.map(|e| Val::some(Val::int(e as i128))).unwrap_or(Val::none()));
                let mut env = Env::new();
                env.insert(p.clone(), Val::Ctor("SequenceOrSet".into(), vec![], se));
                for x in &extra {
                    env.insert(x.clone(), Val::Bool(implied));
                }
                match ev.eval_fn_body(&f.block, &mut env) {
                    Ok(Val::Str(s)) => {
                        let compact: String = s.chars().filter(|c| !c.is_whitespace()).collect();
                        let mut want = String::from("{");
                        for (i, q) in want_marks.iter().enumerate() {
                            want.push_str(&format!("m_{}{}:T,", i, if *q { "?" } else { "" }));
                        }
                        if ext.is_some() || implied {
                            want.push_str("[key:string]:any");
                        }
                        want.push('}');
                        if compact != want {
                            let k = if compact.contains("[key:string]") != (ext.is_some() || implied) { "index-signature" } else if compact.matches('?').count() != want.matches('?').count() { "optional-mark" } else { "member-list" };
                            ctx.violate("C18.shape", &format!("object:{}", k), &f.file, f.line, &format!("[{}] rendered `{}`, the JER shape is `{}`", key, compact, want));
                        }
                    }
                    Ok(o) => ctx.fail_closed("C18.shape", &format!("[{}]: {}", key, o.show())),
                    Err(e) => ctx.fail_closed("C18.shape", &format!("[{}]: {}", key, e)),
                }
            }
        }
    }
    // an extension addition group `[[ b T, c U OPTIONAL ]]` arrives as one synthetic member named with the group prefix
    // (Required in the IR; the rasn backend makes it Option<Group>): a value of an earlier version has no such group at all, so
    // the member is optional in the declaration
    if let Some(f) = m.fns.iter().find(|f| f.name == "format_sequence_or_set_members" && f.module.starts_with("generator::typescript")) {
        let prefix = m.consts.iter().find(|c| c.name == "INTERNAL_EXTENSION_GROUP_NAME_PREFIX").and_then(|c| lit_of(&c.expr));
        ctx.oblige("C18.shape", "extension-group-member", true);
        match prefix {
            Some(Val::Str(prefix)) => {
                let p = f.sig.inputs.iter().filter_map(|a| match a { syn::FnArg::Typed(t) => Some(tok(&t.pat)), _ => None }).next().unwrap_or("se".into());
                let extra: Vec<String> = f.sig.inputs.iter().filter_map(|a| match a { syn::FnArg::Typed(t) => Some(tok(&t.pat)), _ => None }).skip(1).collect();
                let mut se = BTreeMap::new();
                se.insert("members".to_string(), Val::List(vec![member("a", "Required"), member(&format!("{}b", prefix), "Required")]));
                se.insert("extensible".to_string(), Val::some(Val::int(1)));
                let mut env = Env::new();
                env.insert(p, Val::Ctor("SequenceOrSet".into(), vec![], se));
                for x in &extra {
                    env.insert(x.clone(), Val::Bool(false));
                }
                match ev.eval_fn_body(&f.block, &mut env) {
                    Ok(Val::Str(s)) => {
                        let compact: String = s.chars().filter(|c| !c.is_whitespace()).collect();
                        if !compact.contains(&format!("{}b?:", prefix)) || !compact.contains("a:T") {
                            ctx.violate("C18.shape", "object:extension-group-required", &f.file, f.line, &format!("`SEQUENCE {{ a T, ..., [[ b U ]] }}` is rendered `{}`: the extension addition group is a required member — a value without the group (every value of the first version) does not fit the declaration; the rasn backend declares it Option<Group>", compact));
                        }
                    }
                    Ok(o) => ctx.fail_closed("C18.shape", &format!("[extension group member]: {}", o.show())),
                    Err(e) => ctx.fail_closed("C18.shape", &format!("[extension group member]: {}", e)),
                }
            }
            _ => ctx.fail_closed("C18.shape", "INTERNAL_EXTENSION_GROUP_NAME_PREFIX not found"),
        }
    }
    if let Some(f) = anchor_fn(m, ctx, "C18.shape", None, "format_choice_options", Some("typescript")) {
        let p = f.sig.inputs.iter().filter_map(|a| match a { syn::FnArg::Typed(t) => Some(tok(&t.pat)), _ => None }).next().unwrap_or("choice".into());
        for n in [1usize, 2, 3] {
            ctx.oblige("C18.shape", &format!("choice:{}", n), true);
            let mut c = BTreeMap::new();
            c.insert("options".to_string(), Val::List((0..n).map(|i| member(&format!("o-{}", i), "Required")).collect()));
            let mut env = Env::new();
            env.insert(p.clone(), Val::Ctor("Choice".into(), vec![], c));
            for x in f.sig.inputs.iter().filter_map(|a| match a { syn::FnArg::Typed(t) => Some(tok(&t.pat)), _ => None }).skip(1) {
                env.insert(x, Val::Bool(false));
            }
            match ev.eval_fn_body(&f.block, &mut env) {
                Ok(Val::Str(s)) => {
                    let compact: String = s.chars().filter(|c| !c.is_whitespace()).collect();
                    let want = (0..n).map(|i| format!("{{o_{}:T}}", i)).collect::<Vec<_>>().join("|");
                    if compact != want {
                        ctx.violate("C18.shape", "choice", &f.file, f.line, &format!("a CHOICE of {} alternatives is rendered `{}`; the JER shape is the union of single-key objects `{}`", n, compact, want));
                    }
                }
                Ok(o) => ctx.fail_closed("C18.shape", &o.show()),
                Err(e) => ctx.fail_closed("C18.shape", &e),
            }
        }
    }

    // type_to_tokens: the JER shape of each type kind (nested anonymous types go through this fn)
    if let Some(f) = anchor_fn(m, ctx, "C18.shape", None, "type_to_tokens", Some("typescript")) {
        let inl = inline_all(m, &[]);
        let hook2 = |_: &Evaluator, name: &str, _args: &[Val]| -> Option<Result<Val, String>> {
            match name {
                "is_fixed_size" => Some(Ok(Val::Bool(false))),
                _ => None,
            }
        };
        let ev2 = Evaluator { consts: &consts, call_hook: &hook2, inline: Some(&inl) };
        let p = f.sig.inputs.iter().filter_map(|a| match a { syn::FnArg::Typed(t) => Some(tok(&t.pat)), _ => None }).next().unwrap_or("ty".into());
        let unit = |n: &str| Val::Ctor(n.into(), vec![Val::Opaque("payload".into())], BTreeMap::new());
        let enumerated = |names: &[&str]| {
            let mut e = BTreeMap::new();
            e.insert("members".to_string(), Val::List(names.iter().enumerate().map(|(i, n)| {
                let mut f = BTreeMap::new();
                f.insert("name".to_string(), Val::Str(n.to_string()));
                f.insert("index".to_string(), Val::int(i as i128));
                f.insert("description".to_string(), Val::none());
                Val::Ctor("Enumeral".into(), vec![], f)
            }).collect()));
            e.insert("extensible".to_string(), Val::none());
            Val::Ctor("Enumerated".into(), vec![Val::Ctor("Enumerated".into(), vec![], e)], BTreeMap::new())
        };
        let elsewhere_in = |module: Option<&str>, id: &str| {
            let mut e = BTreeMap::new();
            e.insert("identifier".to_string(), Val::Str(id.into()));
            e.insert("module".to_string(), module.map(|x| Val::some(Val::Str(x.into()))).unwrap_or(Val::none()));
            e.insert("parent".to_string(), Val::none());
            e.insert("constraints".to_string(), Val::List(vec![]));
            Val::Ctor("ElsewhereDeclaredType".into(), vec![Val::Ctor("DeclarationElsewhere".into(), vec![], e)], BTreeMap::new())
        };
        let elsewhere = |id: &str| {
            let mut e = BTreeMap::new();
            e.insert("identifier".to_string(), Val::Str(id.into()));
            e.insert("module".to_string(), Val::none());
            e.insert("parent".to_string(), Val::none());
            e.insert("constraints".to_string(), Val::List(vec![]));
            Val::Ctor("ElsewhereDeclaredType".into(), vec![Val::Ctor("DeclarationElsewhere".into(), vec![], e)], BTreeMap::new())
        };
        let seq_of = |kind: &str, el: Val| {
            let mut e = BTreeMap::new();
            e.insert("element_type".to_string(), el);
            e.insert("constraints".to_string(), Val::List(vec![]));
            e.insert("is_recursive".to_string(), Val::Bool(false));
            Val::Ctor(kind.into(), vec![Val::Ctor("SequenceOrSetOf".into(), vec![], e)], BTreeMap::new())
        };
        let choice = |names: &[&str]| {
            let mut c = BTreeMap::new();
            c.insert("options".to_string(), Val::List(names.iter().map(|n| {
                let mut f = BTreeMap::new();
                f.insert("name".to_string(), Val::Str(n.to_string()));
                f.insert("ty".to_string(), Val::Ctor("Boolean".into(), vec![Val::Opaque("b".into())], BTreeMap::new()));
                Val::Ctor("ChoiceOption".into(), vec![], f)
            }).collect()));
            c.insert("extensible".to_string(), Val::none());
            Val::Ctor("Choice".into(), vec![Val::Ctor("Choice".into(), vec![], c)], BTreeMap::new())
        };
        let cases: Vec<(&str, Val, &str)> = vec![
            ("NULL", Val::ctor("Null"), "null"),
            ("BOOLEAN", unit("Boolean"), "boolean"),
            ("INTEGER", unit("Integer"), "number"),
            ("REAL", unit("Real"), "number"),
            ("OCTET STRING", unit("OctetString"), "string"),
            ("character string", unit("CharacterString"), "string"),
            ("OBJECT IDENTIFIER", unit("ObjectIdentifier"), "string"),
            ("UTCTime", unit("UTCTime"), "string"),
            ("GeneralizedTime", unit("GeneralizedTime"), "string"),
            ("BIT STRING (variable size)", unit("BitString"), "{value:string,length:number}"),
            ("anonymous ENUMERATED { not-started, in-progress }", enumerated(&["not-started", "in-progress"]), "\"not-started\"|\"in-progress\""),
            ("anonymous ENUMERATED { a }", enumerated(&["a"]), "\"a\""),
            ("type reference My-Type", elsewhere("My-Type"), "My_Type"),
            // "every type name it mentions is declared in the namespace or imported": a reference written `Mod-B.Width` names the
            // type inside the namespace of that module (the bare name is neither declared nor imported where it is used)
            ("qualified type reference Mod-B.My-Type", elsewhere_in(Some("Mod-B"), "My-Type"), "Mod_B.My_Type"),
            ("SEQUENCE OF Mod-B.My-Type", seq_of("SequenceOf", elsewhere_in(Some("Mod-B"), "My-Type")), "Mod_B.My_Type[]"),
            ("SEQUENCE OF BOOLEAN", seq_of("SequenceOf", unit("Boolean")), "boolean[]"),
            ("SET OF My-Type", seq_of("SetOf", elsewhere("My-Type")), "My_Type[]"),
            ("SEQUENCE OF ENUMERATED { x-y, z }", seq_of("SequenceOf", enumerated(&["x-y", "z"])), "(\"x-y\"|\"z\")[]"),
            ("SEQUENCE OF SEQUENCE OF BOOLEAN", seq_of("SequenceOf", seq_of("SequenceOf", unit("Boolean"))), "boolean[][]"),
            ("anonymous CHOICE { a-b BOOLEAN, c BOOLEAN }", choice(&["a-b", "c"]), "{a_b:boolean}|{c:boolean}"),
            ("SET OF CHOICE { a BOOLEAN, b BOOLEAN }", seq_of("SetOf", choice(&["a", "b"])), "({a:boolean}|{b:boolean})[]"),
        ];
        for (what, v, want) in cases {
            ctx.oblige("C18.shape", &format!("type_to_tokens:{}", what), true);
            let mut env = Env::new();
            env.insert(p.clone(), v);
            for x in f.sig.inputs.iter().filter_map(|a| match a { syn::FnArg::Typed(t) => Some(tok(&t.pat)), _ => None }).skip(1) {
                env.insert(x, Val::Bool(false));
            }
            match ev2.eval_fn_body(&f.block, &mut env) {
                Ok(Val::Str(s)) => {
                    let compact: String = s.chars().filter(|c| !c.is_whitespace()).collect();
                    if compact != want {
                        ctx.violate("C18.shape", &format!("type_to_tokens:{}", what), &f.file, f.line,
                            &format!("a nested {} is rendered `{}`; its JER shape is `{}` (enumeral names are the original ones, names of types and keys are hyphen-mangled, unions are parenthesised under [])", what, compact, want));
                    }
                }
                Ok(o) => ctx.fail_closed("C18.shape", &format!("[type_to_tokens {}]: {}", what, o.show())),
                Err(e) => ctx.fail_closed("C18.shape", &format!("[type_to_tokens {}]: {}", what, e)),
            }
        }
    }
    // enum members: mangled = "original"
    if let Some(f) = anchor_fn(m, ctx, "C18.shape", Some("Typescript"), "generate_enumerated", None) {
        ctx.func(&f.key);
        let hook3 = |_: &Evaluator, name: &str, args: &[Val]| -> Option<Result<Val, String>> {
            match name {
                "to_jer_identifier" => Some(Ok(match args.first() { Some(Val::Str(s)) => Val::Str(s.replace('-', "_")), _ => Val::Str("id".into()) })),
                "format_comments" => Some(Ok(Val::Str(String::new()))),
                "enumerated_template" => Some(Ok(Val::Tuple(args.to_vec()))),
                _ => None,
            }
        };
        let ev3 = Evaluator { consts: &consts, call_hook: &hook3, inline: None };
        for names in [vec!["not-started", "done"], vec!["a"], vec!["x", "y-z", "w"]] {
            let key = format!("enum-members:{:?}", names);
            ctx.oblige("C18.shape", &key, true);
            let mut e = BTreeMap::new();
            e.insert("members".to_string(), Val::List(names.iter().enumerate().map(|(i, n)| {
                let mut f = BTreeMap::new();
                f.insert("name".to_string(), Val::Str(n.to_string()));
                f.insert("index".to_string(), Val::int(i as i128));
                f.insert("description".to_string(), Val::none());
                Val::Ctor("Enumeral".into(), vec![], f)
            }).collect()));
            e.insert("extensible".to_string(), Val::none());
            let mut t = BTreeMap::new();
            t.insert("ty".to_string(), Val::Ctor("Enumerated".into(), vec![Val::Ctor("Enumerated".into(), vec![], e)], BTreeMap::new()));
            t.insert("name".to_string(), Val::Str("My-Enum".into()));
            t.insert("comments".to_string(), Val::Str(String::new()));
            let p = f.sig.inputs.iter().filter_map(|a| match a { syn::FnArg::Typed(t) => Some(tok(&t.pat)), _ => None }).next().unwrap_or("tld".into());
            let mut env = Env::new();
            env.insert(p, Val::Ctor("ToplevelTypeDefinition".into(), vec![], t));
            let want: String = names.iter().map(|n| format!("{}=\"{}\",", n.replace('-', "_"), n)).collect();
            match ev3.eval_fn_body(&f.block, &mut env) {
                Ok(Val::Ctor(ok, pos, _)) if ok == "Ok" && matches!(pos.first(), Some(Val::Tuple(a)) if a.len() == 3) => {
                    let Some(Val::Tuple(a)) = pos.first() else { unreachable!() };
                    let name_ok = matches!(&a[1], Val::Str(s) if s == "My_Enum");
                    if !name_ok {
                        ctx.violate("C18.one", "enum-declared-name", &f.file, f.line, &format!("[{}] the enum must be declared under the hyphen-mangled assignment name `My_Enum`, got {}", key, a[1].show()));
                    }
                    match &a[2] {
                        Val::Str(s) => {
                            let compact: String = s.chars().filter(|c| !c.is_whitespace()).collect();
                            if compact != want {
                                ctx.violate("C18.shape", "enum-members", &f.file, f.line, &format!("[{}] enum members are rendered `{}`; they must be `<mangled> = \"<original enumeral name>\"` once each, in order: `{}`", key, compact, want));
                            }
                        }
                        o => ctx.fail_closed("C18.shape", &format!("[{}]: member list is {}", key, o.show())),
                    }
                }
                Ok(o) => ctx.fail_closed("C18.shape", &format!("[{}]: {}", key, o.show())),
                Err(e) => ctx.fail_closed("C18.shape", &format!("[{}]: {}", key, e)),
            }
        }
    }
    // arrays
    if let Ok(f) = m.find_fn(None, "sequence_or_set_of_template", Some("typescript")) {
        ctx.oblige("C18.shape", "array-template", true);
        let lits = literals(&f.block);
        let direct = lits.iter().any(|(t, is_fmt, _)| *is_fmt && t.contains("= {member_type}[];"));
        let via_helper = lits.iter().any(|(t, is_fmt, _)| *is_fmt && t.contains("= {array_type};"));
        if !direct && !via_helper {
            ctx.violate("C18.shape", "array-template", &f.file, f.line, "SEQUENCE OF / SET OF must be rendered as an array type");
        }
    }
    implied_flag(m, ctx, "C18.shape");
    ctx.sample(json!({"shape_checks": ["object members/optional marks/index signature", "choice union", "enum members", "array template"]}));
}

/// EXTENSIBILITY IMPLIED in the TypeScript backend: the module default is reset per module, read by the renderers and handed
/// on unchanged to every nested renderer (shared by C18.shape and C05.ts: "extensible exactly when it contains a marker or
/// its module says EXTENSIBILITY IMPLIED" — an enclosing type's marker is not the module default).
pub fn implied_flag(m: &Model, ctx: &mut Ctx, rule: &str) {
    let env_rule = if rule.starts_with("C18") { "C18.env".to_string() } else { format!("{}:env", rule) };
    // EXTENSIBILITY IMPLIED: the module default reaches the renderers
    let gm = m.fns.iter().find(|f| f.name == "generate_module" && f.self_ty.as_deref() == Some("Typescript"));
    if let Some(gm) = gm {
        ctx.oblige(rule, "extensibility-implied", true);
        let has_field = m.find_struct("Typescript", Some("typescript")).map(|st| st.fields.iter().any(|(n, _, _)| n == "extensibility_environment")).unwrap_or(false);
        let reads_env = m.fns.iter().filter(|f| f.module.starts_with("generator::typescript")).any(|f| tok(&f.block).contains("extensibility_environment"));
        if !reads_env || !has_field {
            ctx.violate(rule, "extensibility-implied-ignored", &gm.file, gm.line, "no fn of the TypeScript backend reads the module's extensibility default: in an EXTENSIBILITY IMPLIED module SEQUENCE/SET types without a marker get no index signature");
        } else {
            // the field is reset from the module's own header before anything is rendered (as for the rasn backend)
            reset_rule_for(m, ctx, &env_rule, "extensibility_environment", "Typescript");
            // every call of a renderer that takes the flag passes the backend's flag (not a constant)
            let takes_flag: Vec<String> = m.fns.iter().filter(|f| f.module.starts_with("generator::typescript") && f.self_ty.is_none() && f.sig.inputs.iter().any(|a| matches!(a, syn::FnArg::Typed(t) if tok(&t.ty) == "bool"))).map(|f| f.name.clone()).collect();
            let mut sites = 0;
            for f in m.fns.iter().filter(|f| f.module.starts_with("generator::typescript") && !f.module.contains("tests")) {
                let own_flag: Vec<String> = f.sig.inputs.iter().filter_map(|a| match a { syn::FnArg::Typed(t) if tok(&t.ty) == "bool" => Some(tok(&t.pat)), _ => None }).collect();
                for c in model::calls_in(&f.block) {
                    let n = model::callee_name(&c).unwrap_or_default();
                    if !takes_flag.contains(&n) {
                        continue;
                    }
                    sites += 1;
                    let last = c.args.iter().last().map(|a| tok(a)).unwrap_or_default();
                    let ok = own_flag.contains(&last) || last == "self.extensibility_implied()" || last.contains("self.extensibility_environment");
                    ctx.oblige(rule, &format!("implied-flag:{}->{}", f.name, n), true);
                    if !ok {
                        ctx.violate(rule, &format!("implied-flag-not-passed-on:{}->{}", f.name, n), &f.file, model::line_of(syn::spanned::Spanned::span(&c)),
                            &format!("{} calls {}(.., {}): the module's EXTENSIBILITY IMPLIED default must be handed on unchanged (nested anonymous SEQUENCE / SET types are extensible too)", f.name, n, last));
                    }
                }
            }
            ctx.floor(&format!("{}/implied-flag-call-sites", rule), sites, 7);
            if let Some(h) = m.fns.iter().find(|f| f.name == "extensibility_implied" && f.self_ty.as_deref() == Some("Typescript")) {
                ctx.oblige(rule, "extensibility_implied()", true);
                if tok(&h.block) != "{self.extensibility_environment==ExtensibilityEnvironment::Implied}" {
                    ctx.violate(rule, "extensibility_implied()", &h.file, h.line, "extensibility_implied() must be `self.extensibility_environment == ExtensibilityEnvironment::Implied`");
                }
            }
        }
    }
}

/// producers of category Union must not be placed under a postfix []
fn categories(m: &Model, ctx: &mut Ctx, ts: &[&FnInfo]) {
    // union producers: fns (or match arms) whose result ends in .join(" | ")
    let union_fns: Vec<String> = ts.iter().filter(|f| tok(&f.block).contains(".join(\" | \")") || tok(&f.block).contains(".join(\"|\")")).map(|f| f.name.clone()).collect();
    ctx.floor("C18.cat/union-producers", union_fns.len(), 2);
    // postfix [] consumers
    let mut consumers = 0;
    for f in ts {
        let b = tok(&f.block);
        // `X + "[]"`
        if b.contains("+\"[]\"") {
            consumers += 1;
            ctx.oblige("C18.cat", &format!("{}:plus-brackets", f.name), true);
            // the left operand
            let left = b.split("+\"[]\"").next().unwrap_or("").rsplit("=>").next().unwrap_or("").to_string();
            let may_be_union = union_fns.iter().any(|u| left.contains(&format!("{}(", u)));
            if may_be_union {
                ctx.violate("C18.cat", "array-of-union-unparenthesized", &f.file, f.line,
                    &format!("{} appends `[]` to `{}`, which can be a union (`A | B`): `A | B[]` means `A | (B[])` in TypeScript", f.name, left.chars().take(60).collect::<String>()));
            }
        }
        for (t, is_fmt, line) in literals(&f.block) {
            if f.name == "array_of" {
                continue; // checked below: it is the one place that may append [] and must parenthesize unions
            }
            if is_fmt && t.contains("}[]") {
                consumers += 1;
                ctx.oblige("C18.cat", &format!("{}:template-brackets", f.name), true);
                let guarded = t.contains("({") && t.contains("})[]");
                if !guarded {
                    // who fills the placeholder?
                    let callers_pass_union = m.fns.iter().filter(|g| g.module.starts_with("generator::typescript")).any(|g| {
                        model::calls_in(&g.block).iter().any(|c| model::callee_name(c).as_deref() == Some(f.name.as_str()) && c.args.iter().any(|a| union_fns.iter().any(|u| tok(a).contains(&format!("{}(", u)))))
                    });
                    if callers_pass_union || f.module.ends_with("template") {
                        ctx.violate("C18.cat", "array-of-union-unparenthesized", &f.file, line,
                            &format!("{} applies `[]` to an interpolated type without parentheses; the argument can be a union", f.name));
                    }
                }
            }
        }
    }
    // the array constructor, if any, parenthesizes unions
    if let Ok(f) = m.find_fn(None, "array_of", Some("typescript")) {
        consumers += 1;
        ctx.oblige("C18.cat", "array_of", true);
        let b = tok(&f.block);
        let ok = b.contains(&model::norm_tokens("contains(\" | \")")) && literals(&f.block).iter().any(|(t, is_fmt, _)| *is_fmt && t == "({element})[]");
        if !ok {
            ctx.violate("C18.cat", "array-of-union-unparenthesized", &f.file, f.line, "array_of must parenthesize an element type that contains ` | `");
        }
    }
    // type_to_tokens is a union producer through its Choice / Enumerated arms
    ctx.floor("C18.cat/array-consumers", consumers, 1);
}
