//! C01 — warning-free compilations yield Rust bindings that type-check against rasn (necessary conditions).
use crate::eval::{Env, Evaluator, Val};
use crate::model::{self, tok, FnInfo, Model};
use crate::rules::util::*;
use crate::quotex::{self, QTok};
use crate::report::Ctx;
use serde_json::json;
use std::collections::{BTreeMap, BTreeSet};
use std::path::PathBuf;

pub fn registry_src(repo: &std::path::Path, name: &str) -> Option<PathBuf> {
    // version pinned by /repo/Cargo.lock, source in the cargo registry
    let lock = std::fs::read_to_string(repo.join("Cargo.lock")).ok()?;
    let mut version = None;
    let mut it = lock.lines();
    while let Some(l) = it.next() {
        if l.trim() == format!("name = \"{}\"", name) {
            if let Some(v) = it.next() {
                version = v.trim().strip_prefix("version = \"").and_then(|s| s.strip_suffix('"')).map(|s| s.to_string());
            }
            break;
        }
    }
    let version = version?;
    let home = std::env::var("CARGO_HOME").map(PathBuf::from).unwrap_or_else(|_| PathBuf::from(std::env::var("HOME").unwrap_or("/root".into())).join(".cargo"));
    let reg = home.join("registry/src");
    for e in std::fs::read_dir(reg).ok()?.flatten() {
        let p = e.path().join(format!("{}-{}", name, version));
        if p.is_dir() {
            return Some(p);
        }
    }
    None
}

fn use_tree_leaves(t: &syn::UseTree, out: &mut BTreeSet<String>) {
    match t {
        syn::UseTree::Path(p) => use_tree_leaves(&p.tree, out),
        syn::UseTree::Name(n) => {
            out.insert(n.ident.to_string());
        }
        syn::UseTree::Rename(r) => {
            out.insert(r.rename.to_string());
        }
        syn::UseTree::Group(g) => {
            for i in g.items.iter() {
                use_tree_leaves(i, out);
            }
        }
        syn::UseTree::Glob(_) => {}
    }
}

/// names exported by `rasn::prelude::*`
fn rasn_prelude(src: &std::path::Path) -> Result<BTreeSet<String>, String> {
    let mut out = BTreeSet::new();
    let lib = std::fs::read_to_string(src.join("src/lib.rs")).map_err(|e| e.to_string())?;
    let ast = syn::parse_file(&lib).map_err(|e| e.to_string())?;
    let mut found = false;
    for it in &ast.items {
        if let syn::Item::Mod(md) = it {
            if md.ident == "prelude" {
                found = true;
                if let Some((_, items)) = &md.content {
                    for i in items {
                        if let syn::Item::Use(u) = i {
                            use_tree_leaves(&u.tree, &mut out);
                        }
                    }
                }
            }
        }
    }
    if !found {
        return Err("rasn::prelude not found".into());
    }
    out.remove("types");
    // types::*
    let types = std::fs::read_to_string(src.join("src/types.rs")).map_err(|e| e.to_string())?;
    let ast = syn::parse_file(&types).map_err(|e| e.to_string())?;
    for it in &ast.items {
        match it {
            syn::Item::Use(u) if matches!(u.vis, syn::Visibility::Public(_)) => use_tree_leaves(&u.tree, &mut out),
            syn::Item::Struct(s) if matches!(s.vis, syn::Visibility::Public(_)) => {
                out.insert(s.ident.to_string());
            }
            syn::Item::Enum(s) if matches!(s.vis, syn::Visibility::Public(_)) => {
                out.insert(s.ident.to_string());
            }
            syn::Item::Type(s) if matches!(s.vis, syn::Visibility::Public(_)) => {
                out.insert(s.ident.to_string());
            }
            syn::Item::Trait(s) if matches!(s.vis, syn::Visibility::Public(_)) => {
                out.insert(s.ident.to_string());
            }
            syn::Item::Mod(s) if matches!(s.vis, syn::Visibility::Public(_)) => {
                out.insert(s.ident.to_string());
            }
            _ => {}
        }
    }
    Ok(out)
}

/// attribute keys accepted by rasn-derive-impl per position (impl block self type -> is_ident("..") literals)
fn derive_keys(src: &std::path::Path) -> Result<BTreeMap<String, BTreeSet<String>>, String> {
    let cfg = std::fs::read_to_string(src.join("src/config.rs")).map_err(|e| e.to_string())?;
    let ast = syn::parse_file(&cfg).map_err(|e| e.to_string())?;
    let mut out: BTreeMap<String, BTreeSet<String>> = BTreeMap::new();
    for it in &ast.items {
        if let syn::Item::Impl(i) = it {
            let name = tok(&i.self_ty).split('<').next().unwrap_or("").to_string();
            for ii in &i.items {
                if let syn::ImplItem::Fn(f) = ii {
                    let t = tok(&f.block);
                    for part in t.split("is_ident(\"").skip(1) {
                        if let Some(k) = part.split('"').next() {
                            out.entry(name.clone()).or_default().insert(k.to_string());
                        }
                    }
                }
            }
        }
    }
    Ok(out)
}

fn capitalized_idents(q: &[QTok], out: &mut Vec<String>, bound: &mut BTreeSet<String>) {
    // generic parameters `<D: Decoder>` bind D locally
    let mut i = 0;
    while i < q.len() {
        if let (QTok::Punct('<'), Some(QTok::Ident(id)), Some(QTok::Punct(':'))) = (&q[i], q.get(i + 1), q.get(i + 2)) {
            bound.insert(id.clone());
        }
        match &q[i] {
            QTok::Ident(id) if id.chars().next().map(|c| c.is_uppercase()).unwrap_or(false) => {
                // skip path segments after `::` whose head is lowercase (e.g. rasn::error::DecodeError is fully qualified)
                let qualified = i >= 2 && matches!((&q[i - 1], &q[i - 2]), (QTok::Punct(':'), QTok::Punct(':')));
                let assoc = qualified && i >= 3 && matches!(&q[i - 3], QTok::Ident(h) if h.chars().next().map(|c| c.is_uppercase()).unwrap_or(false));
                if !qualified || assoc && false {
                    out.push(id.clone());
                }
            }
            QTok::Rep(b, _) | QTok::Group(_, b) => capitalized_idents(b, out, bound),
            _ => {}
        }
        i += 1;
    }
}

/// C01.fromimpl: with generate_from_impls a `impl From<T> for Choice` is emitted per alternative — two impls for one `T`
/// conflict (E0119), so alternatives whose Rust type occurs more than once get none. The block guarded by
/// `config.generate_from_impls` in generate_choice is evaluated on alternative lists with repeated types.
pub fn from_impls(m: &Model, ctx: &mut Ctx, rule: &str) {
    use crate::eval::{new_map, Env, Evaluator, Val};
    use std::collections::BTreeMap as Map;
    let Some(f) = m.fns.iter().find(|f| f.name == "generate_choice" && f.self_ty.as_deref() == Some("Rasn")) else {
        ctx.fail_closed(rule, "anchor not found: Rasn::generate_choice");
        return;
    };
    struct F { out: Vec<syn::ExprIf> }
    impl model::DeepCb for F {
        fn expr(&mut self, e: &syn::Expr) {
            if let syn::Expr::If(i) = e {
                if tok(&i.cond).contains("generate_from_impls") {
                    self.out.push(i.clone());
                }
            }
        }
    }
    let mut c = F { out: vec![] };
    model::deep_walk_block(&f.block, &mut c);
    let Some(iff) = c.out.first() else {
        ctx.fail_closed(rule, "generate_choice: no block guarded by config.generate_from_impls");
        return;
    };
    ctx.func(&f.key);
    let consts = const_resolver(m);
    for types in [vec!["A"], vec!["A", "B"], vec!["A", "A"], vec!["A", "A", "B"], vec!["A", "B", "A"], vec!["A", "A", "A"], vec!["A", "B", "A", "B", "C"]] {
        let key = format!("alternative-types:{}", types.join(","));
        ctx.oblige(rule, &key, true);
        let log = std::cell::RefCell::new(Vec::<String>::new());
        let hook = |_: &Evaluator, name: &str, a: &[Val]| -> Option<Result<Val, String>> {
            match name {
                "BTreeMap::new" | "HashMap::new" | "BTreeMap::default" | "HashMap::default" => Some(Ok(new_map())),
                ".constraints_and_type_name" => match a.get(1) {
                    Some(Val::Str(t)) => Some(Ok(Val::Ctor("Ok".into(), vec![Val::Tuple(vec![Val::Unit, Val::Sym(t.clone())])], Map::new()))),
                    _ => None,
                },
                // a helper that answers with the declared payload type of the alternative (here: the symbol standing for it)
                ".choice_option_type" | ".option_type" | ".variant_type" => match a.get(1) {
                    Some(Val::Ctor(_, _, fl)) => match fl.get("ty") { Some(Val::Str(t)) => Some(Ok(Val::Ctor("Ok".into(), vec![Val::Sym(t.clone())], Map::new()))), _ => None },
                    _ => None,
                },
                ".to_rust_enum_identifier" => match a.get(1) { Some(Val::Str(n)) => Some(Ok(Val::Sym(n.clone()))), _ => None },
                "choice_from_impl_template" => {
                    log.borrow_mut().push(match a.get(2) { Some(Val::Sym(t)) | Some(Val::Str(t)) => t.clone(), o => format!("{:?}", o.map(|x| x.show())) });
                    Some(Ok(Val::Sym("from_impl".into())))
                }
                "std::iter::once" | "iter::once" | "once" => Some(Ok(Val::List(a.to_vec()))),
                _ => None,
            }
        };
        let ev = Evaluator { consts: &consts, call_hook: &hook, inline: None };
        let mut ch = Map::new();
        ch.insert("options".to_string(), Val::List(types.iter().enumerate().map(|(i, t)| {
            let mut o = Map::new();
            o.insert("name".to_string(), Val::Str(format!("alt{}", i)));
            o.insert("ty".to_string(), Val::Str(t.to_string()));
            o.insert("is_recursive".to_string(), Val::Bool(false));
            Val::Ctor("ChoiceOption".into(), vec![], o)
        }).collect()));
        let mut env = Env::new();
        env.insert("choice".into(), Val::Ctor("Choice".into(), vec![], ch));
        env.insert("name".into(), Val::Sym("Name".into()));
        env.insert("choice_str".into(), Val::Sym("choice_str".into()));
        env.insert("self".into(), Val::Opaque("self".into()));
        match ev.eval_block(&iff.then_branch, &mut env) {
            Ok(r) => {
                // the CHOICE item itself comes first, unchanged
                let first = match &r { Val::Ctor(n, p, _) if n == "$return" || n == "Ok" => p.first().map(|x| x.show()), o => Some(o.show()) }.unwrap_or_default();
                if !first.contains("choice_str") {
                    ctx.violate(rule, "from-impl-keeps-choice", &f.file, crate::rules::util::span_line(iff), &format!("with generate_from_impls the block yields `{}`: the output must start with the unmodified CHOICE item", first.chars().take(80).collect::<String>()));
                }
                let got = log.borrow().clone();
                let want: Vec<String> = types.iter().filter(|t| types.iter().filter(|u| u == t).count() == 1).map(|t| t.to_string()).collect();
                if got != want {
                    ctx.violate(rule, "from-impl-per-unique-type", &f.file, crate::rules::util::span_line(iff),
                        &format!("alternatives of Rust types {:?}: From impls are emitted for {:?}; exactly the types that occur once ({:?}) may get one — two `impl From<{}>` conflict (E0119), a missing one changes the API", types, got, want, types[0]));
                }
            }
            Err(e) => ctx.fail_closed(rule, &format!("[{}]: {}", key, e)),
        }
    }
}

/// C01.imports: a name the importing module uses must be in scope there. The closure of Rasn::generate_module that turns one
/// IMPORTS clause into `use super::<module>::{..}` is evaluated on symbol lists of every spelling class: each imported symbol
/// is named in the list (types title-cased, values const-cased) or the clause falls back to the wildcard.
pub fn import_lists(m: &Model, ctx: &mut Ctx, rule: &str) {
    import_lists_with(m, ctx, rule, false)
}

/// the same with config.default_wildcard_imports set: then every clause is `*` and nothing else changes
pub fn import_lists_with(m: &Model, ctx: &mut Ctx, rule: &str, wildcard_option: bool) {
    use crate::eval::{Env, Evaluator, Val};
    use std::collections::BTreeMap as Map;
    let Some(f) = m.fns.iter().find(|f| f.name == "generate_module" && f.self_ty.as_deref() == Some("Rasn")) else {
        ctx.fail_closed(rule, "anchor not found: Rasn::generate_module");
        return;
    };
    struct C { out: Vec<syn::ExprClosure> }
    impl model::DeepCb for C {
        fn expr(&mut self, e: &syn::Expr) {
            if let syn::Expr::Closure(c) = e {
                let b = tok(&c.body);
                if b.contains(".types") && b.contains("super::") {
                    self.out.push(c.clone());
                }
            }
        }
    }
    let mut c = C { out: vec![] };
    model::deep_walk_block(&f.block, &mut c);
    let Some(cl) = c.out.first() else {
        ctx.fail_closed(rule, "generate_module: the closure that renders an IMPORTS clause was not found");
        return;
    };
    let syn::Expr::Block(body) = &*cl.body else {
        ctx.fail_closed(rule, "generate_module: the import closure has no block body");
        return;
    };
    ctx.func(&f.key);
    let consts = const_resolver(m);
    let hook = |_: &Evaluator, name: &str, a: &[Val]| -> Option<Result<Val, String>> {
        match name {
            ".to_rust_const_case" | ".to_rust_title_case" | ".to_rust_snake_case" => match a.get(1) { Some(Val::Str(n)) => Some(Ok(Val::Sym(format!("{}:{}", &name[9..], n)))), _ => None },
            ".to_token_stream" if a.len() == 1 => Some(Ok(a[0].clone())),
            "TokenStream::from_str" => match a.first() { Some(Val::Str(t)) => Some(Ok(Val::Ctor("Ok".into(), vec![Val::Sym(t.clone())], Map::new()))), _ => None },
            _ => None,
        }
    };
    let ev = Evaluator { consts: &consts, call_hook: &hook, inline: None };
    let block = body.block.clone();
    let pname = cl.inputs.first().map(|p| tok(p)).unwrap_or("import".into());
    for symbols in [vec!["Port"], vec!["Port", "URL"], vec!["DATE-TIME"], vec!["max-level", "Level"], vec!["T1", "X509-Cert"], vec!["PDU", "port"], vec!["Param{}", "Port"], vec!["MY-CLASS", "Port"]] {
        let key = format!("symbols:{}", symbols.join(","));
        ctx.oblige(rule, &key, true);
        let mut gm = Map::new();
        gm.insert("module_reference".to_string(), Val::Str("Mod-B".into()));
        let mut imp = Map::new();
        imp.insert("global_module_reference".to_string(), Val::Ctor("GlobalModuleReference".into(), vec![], gm));
        imp.insert("types".to_string(), Val::List(symbols.iter().map(|s| Val::Str(s.to_string())).collect()));
        let mut cfg = Map::new();
        cfg.insert("default_wildcard_imports".to_string(), Val::Bool(wildcard_option));
        let mut me = Map::new();
        me.insert("config".to_string(), Val::Ctor("Config".into(), vec![], cfg));
        let mut env = Env::new();
        env.insert("self".into(), Val::Ctor("Rasn".into(), vec![], me));
        env.insert(pname.clone(), Val::Ctor("Import".into(), vec![], imp));
        // the closure's result is the whole declaration: `use super::<snake(module)>::{<list>};`
        match ev.eval_block(&block, &mut env) {
            Ok(v) => {
                let text = match &v { Val::Sym(t) | Val::Str(t) => t.replace(' ', ""), o => o.show().replace(' ', "") };
                let inner = text.strip_prefix("usesuper::snake_case:Mod-B::{").and_then(|r| r.strip_suffix("};"));
                let Some(inner) = inner else {
                    ctx.violate(rule, "imports:use-line-shape", &f.file, crate::rules::util::span_line(cl),
                        &format!("IMPORTS {} FROM Mod-B is rendered as `{}`: expected `use super::<snake_case(Mod-B)>::{{..}};` (the sibling Rust module of the module imported from)", symbols.join(", "), text));
                    continue;
                };
                let names: Vec<String> = inner.split(',').filter(|x| !x.is_empty()).map(|x| x.to_string()).collect();
                let wildcard = names.iter().any(|n| n == "*");
                if wildcard_option {
                    if names != vec!["*".to_string()] {
                        ctx.violate(rule, "imports:wildcard", &f.file, crate::rules::util::span_line(cl), &format!("with default_wildcard_imports the clause IMPORTS {} is rendered as {{{}}}; the option only replaces the list by `*`", symbols.join(", "), names.join(", ")));
                    }
                    continue;
                }
                // "exactly the imported symbols" (C12): the wildcard is the fallback for clauses with a symbol that may be an
                // information object class (capitals and hyphens only) or a parameterized reference, and for nothing else
                if rule.starts_with("C12") {
                    let needs_fallback = symbols.iter().any(|s| s.contains("{}") || s.chars().all(|c| c.is_uppercase() || c == '-'));
                    if wildcard != needs_fallback {
                        ctx.violate(rule, "imports:wildcard-fallback", &f.file, crate::rules::util::span_line(cl),
                            &format!("IMPORTS {} FROM Mod-B is rendered as `use super::mod_b::{{{}}}`: {}", symbols.join(", "), names.join(", "),
                                if wildcard { "a clause of ordinary type and value references becomes a use declaration of exactly those symbols, not `*`" } else { "a symbol that may be a class or a parameterized reference needs the `*` fallback" }));
                    }
                }
                let missing: Vec<&&str> = symbols.iter().filter(|s| !names.iter().any(|n| n.ends_with(&format!(":{}", s)))).collect();
                if !wildcard && !missing.is_empty() {
                    ctx.violate(rule, "imported-symbol-not-in-scope", &f.file, crate::rules::util::span_line(cl),
                        &format!("IMPORTS {} FROM Mod-B is rendered as `use super::mod_b::{{{}}}`: {:?} is imported by the ASN.1 module but not by the Rust module, so a use of it is E0425 (an all-capital name such as URL or PDU is a type reference as well as a possible class reference)", symbols.join(", "), names.join(", "), missing));
                }
                // each symbol goes through the mangler of its kind: value references const-cased, type references title-cased
                if !wildcard {
                    for n in &names {
                        let (mangler, sym) = n.split_once(':').unwrap_or(("?", n.as_str()));
                        let want = if sym.starts_with(|c: char| c.is_lowercase()) { "const_case" } else { "title_case" };
                        if mangler != want {
                            ctx.violate(rule, "imports:mangler", &f.file, crate::rules::util::span_line(cl), &format!("the imported symbol `{}` is rendered through `{}`; it is declared through to_rust_{} in the module it comes from, so the name does not resolve", sym, mangler, want));
                        }
                    }
                }
            }
            Err(e) => ctx.fail_closed(rule, &format!("[{}]: {}", key, e)),
        }
    }
}

pub fn run(m: &Model, ctx: &mut Ctx) {
    ctx.explanation = "Necessary conditions only. C01.vocab: every capitalised free identifier in type or expression position of every quote! template of the rasn generator is nameable inside the emitted module: exported by the pinned rasn::prelude (parsed from the rasn sources that /repo/Cargo.lock pins), a fixed import of the module wrapper, part of the Rust prelude, or bound locally in the template. \
C01.attrs: every key the generator emits inside #[rasn(..)] is accepted by the pinned rasn-derive-impl for the position it is emitted at (container / field / variant): writer's and reader's tables agree. \
C01.lazy: LazyLock vs lazy_static! templates and the matching import (shared with C19). \
C01.text2tok: every text-to-token site (TokenStream::from_str, parse::<TokenStream>, Ident::new, format_ident!) is enumerated; sites per fn may not grow unnoticed. \
C01.defined: wherever constraints_and_type_name renders a component with the `<Parent><Field>` inner name, needs_unnesting requests the definition (both evaluated over all nestings of anonymous types under SEQUENCE OF / SET OF up to depth 3). Not decided: type coherence of arbitrary programs (recursion x nesting x DEFAULT x naming x imports), name collisions, const-vs-lazy legality.".into();
    ctx.assumptions = vec!["the rasn and rasn-derive-impl sources in the cargo registry are the versions /repo/Cargo.lock pins".into(), "Rust prelude (edition 2021) names".into()];
    ctx.rule("template vocabulary against the parsed rasn prelude; attribute keys against rasn-derive-impl's accepted keys per position");

    let rasn = registry_src(&m.repo, "rasn");
    let derive = registry_src(&m.repo, "rasn-derive-impl");
    let (Some(rasn), Some(derive)) = (rasn, derive) else {
        ctx.fail_closed("C01.vocab", "pinned rasn / rasn-derive-impl sources not found in the cargo registry");
        return;
    };
    ctx.anchor(&format!("rasn sources: {}", rasn.display()));
    let prelude = match rasn_prelude(&rasn) {
        Ok(p) => p,
        Err(e) => {
            ctx.fail_closed("C01.vocab", &e);
            return;
        }
    };
    ctx.floor("C01.vocab/rasn-prelude-names", prelude.len(), 40);
    let rust_prelude: BTreeSet<&str> = ["Option", "Some", "None", "Result", "Ok", "Err", "Box", "Vec", "String", "From", "Into", "Default", "Clone", "Copy", "Debug", "PartialEq", "Eq", "Hash", "PartialOrd", "Ord", "Self", "Send", "Sync", "Sized", "Iterator", "ToString", "AsRef", "TryFrom", "TryInto", "Fn", "FnMut", "FnOnce", "Drop"].into_iter().collect();
    let wrapper_imports: BTreeSet<&str> = ["Borrow", "LazyLock"].into_iter().collect();

    let gen_fns: Vec<&FnInfo> = m.fns.iter().filter(|f| f.module.starts_with("generator::rasn")).collect();
    let mut n_quotes = 0;
    let mut names: BTreeMap<String, (String, usize, String)> = BTreeMap::new();
    for f in &gen_fns {
        for q in model::macros_named(&f.block, "quote") {
            n_quotes += 1;
            let body = quotex::parse_quote_body(&q.tokens);
            let mut ids = vec![];
            let mut bound = BTreeSet::new();
            capitalized_idents(&body, &mut ids, &mut bound);
            for id in ids {
                if bound.contains(&id) {
                    continue;
                }
                names.entry(id).or_insert((f.file.clone(), q.path.segments[0].ident.span().start().line, f.name.clone()));
            }
        }
        ctx.func(&f.key);
    }
    ctx.floor("C01.vocab/quote-templates", n_quotes, 120);
    for (id, (file, line, fname)) in &names {
        ctx.oblige("C01.vocab", id, true);
        let ok = prelude.contains(id) || rust_prelude.contains(id.as_str()) || wrapper_imports.contains(id.as_str());
        if !ok {
            ctx.violate("C01.vocab", &format!("unknown-name:{}", id), file, *line,
                &format!("`{}` (emitted by {}) is not exported by rasn::prelude (pinned version), not a wrapper import and not in the Rust prelude: the bindings would not resolve this name", id, fname));
        }
    }
    // ---------------- shadow ----------------
    // the templates name these types unqualified, and every type assignment becomes an item of the same module: an item
    // shadows a glob import, so an ASN.1 type whose Rust name is one of them (`Integer ::= BOOLEAN`, `Option ::= ..`) takes the
    // name over for the whole module. to_rust_title_case — the one function that names the items — is evaluated on each.
    if let Some(f) = m.fns.iter().find(|f| f.name == "to_rust_title_case" && f.self_ty.as_deref() == Some("Rasn")) {
        use crate::eval::{Env, Evaluator, Val};
        let cr0 = const_resolver(m);
        // associated string tables (`Self::RUST_KEYWORDS`) by their last path segment
        let tables: BTreeMap<String, Val> = m.consts.iter().filter_map(|c| str_array(&c.expr).map(|v| (c.name.clone(), Val::List(v.into_iter().map(Val::Str).collect())))).collect();
        let consts = move |name: &str| -> Option<Val> {
            let last = name.rsplit("::").next().unwrap_or(name).trim();
            tables.get(last).cloned().or_else(|| cr0(name))
        };
        let hook = |_: &Evaluator, name: &str, a: &[Val]| -> Option<Result<Val, String>> {
            match name {
                "TokenStream::from_str" => Some(Ok(Val::Ctor("Ok".into(), vec![a.first().cloned().unwrap_or(Val::Unit)], BTreeMap::new()))),
                _ => None,
            }
        };
        let ev = Evaluator { consts: &consts, call_hook: &hook, inline: None };
        let param = f.sig.inputs.iter().filter_map(|a| match a { syn::FnArg::Typed(t) => Some(tok(&t.pat)), _ => None }).next().unwrap_or("input".into());
        let mut kept: Vec<String> = vec![];
        let type_like: Vec<&String> = names.keys().filter(|n| (prelude.contains(*n) || ["Option", "Box", "Vec", "String"].contains(&n.as_str())) && !["Self"].contains(&n.as_str())).collect();
        ctx.oblige("C01.shadow", "prelude-names-escaped", true);
        let mut failed = None;
        for n in &type_like {
            let mut env = Env::new();
            env.insert("self".into(), Val::ctor("Rasn"));
            env.insert(param.clone(), Val::Str((*n).clone()));
            match ev.eval_fn_body(&f.block, &mut env) {
                Ok(Val::Str(out)) | Ok(Val::Sym(out)) => {
                    if &out == *n {
                        kept.push((*n).clone());
                    }
                }
                Ok(o) => { failed = Some(format!("to_rust_title_case({}) = {}", n, o.show())); break }
                Err(e) => { failed = Some(format!("to_rust_title_case({}): {}", n, e)); break }
            }
        }
        if let Some(e) = failed {
            ctx.fail_closed("C01.shadow", &e);
        } else if !kept.is_empty() {
            ctx.violate("C01.shadow", "type-named-like-prelude-item", &f.file, f.line,
                &format!("a type assignment named like a type the templates use unqualified keeps that name ({} of {}: {} …): `Integer ::= BOOLEAN  B ::= SEQUENCE {{ x INTEGER }}` emits `pub struct Integer(pub bool)` and `pub x: Integer` — the item shadows rasn::prelude::Integer for the whole module; `Option ::= INTEGER` makes every `Option<..>` fail to resolve", kept.len(), type_like.len(), kept.iter().take(8).cloned().collect::<Vec<_>>().join(", ")));
        }
    } else {
        ctx.fail_closed("C01.shadow", "anchor not found: Rasn::to_rust_title_case");
    }
    // names built from string literals: string_type / int_type_token results are covered by quote!; format_ident!("Integer")
    ctx.sample(json!({"emitted_type_names": names.keys().collect::<Vec<_>>(), "rasn_prelude_size": prelude.len()}));

    // ---------------- attrs ----------------
    let keys = match derive_keys(&derive) {
        Ok(k) => k,
        Err(e) => {
            ctx.fail_closed("C01.attrs", &e);
            return;
        }
    };
    let container = keys.get("Config").cloned().unwrap_or_default();
    let variant = keys.get("VariantConfig").cloned().unwrap_or_default();
    let field = keys.get("FieldConfig").cloned().unwrap_or_default();
    ctx.floor("C01.attrs/container-keys", container.len(), 10);
    ctx.floor("C01.attrs/field-keys", field.len(), 8);
    ctx.floor("C01.attrs/variant-keys", variant.len(), 6);
    let everywhere: BTreeSet<String> = container.intersection(&field).cloned().collect::<BTreeSet<_>>().intersection(&variant).cloned().collect();
    // writer side: quote! bodies of the shape key | key(..) | key = ..
    let rust_kw = ["pub", "impl", "fn", "use", "lazy_static", "super", "alloc", "rasn", "i8", "u8", "i16", "u16", "i32", "u32", "i64", "u64", "f64", "bool", "extern", "match", "i", "std", "identifier"];
    let mut emitted: Vec<(String, String, String, usize)> = vec![];
    for f in &gen_fns {
        if f.module.ends_with("template") {
            continue;
        }
        for q in model::macros_named(&f.block, "quote") {
            let body = quotex::parse_quote_body(&q.tokens);
            let key = match (body.first(), body.get(1)) {
                (Some(QTok::Ident(k)), None) => Some(k.clone()),
                (Some(QTok::Ident(k)), Some(QTok::Group('(', _))) if body.len() == 2 => Some(k.clone()),
                (Some(QTok::Ident(k)), Some(QTok::Punct('='))) => Some(k.clone()),
                _ => None,
            };
            if let Some(k) = key {
                if k.chars().next().map(|c| c.is_lowercase()).unwrap_or(false) && (!rust_kw.contains(&k.as_str()) || k == "identifier") {
                    emitted.push((k, f.name.clone(), f.file.clone(), q.path.segments[0].ident.span().start().line));
                }
            }
        }
    }
    // `#range_prefix(..)`: size / value are produced by quote!(size) / quote!(value)
    let position_of = |fname: &str| -> &'static str {
        match fname {
            "format_sequence_or_set_members" | "format_sequence_member" => "field",
            "format_choice_options" | "format_enum_members" | "format_choice_option" => "variant",
            "format_range_annotations" | "format_alphabet_annotations" | "format_tag" | "format_identifier_annotation" | "format_member_or_option" => "any",
            _ => "container",
        }
    };
    ctx.floor("C01.attrs/emitted-keys", emitted.len(), 20);
    let mut distinct = BTreeSet::new();
    for (k, fname, file, line) in &emitted {
        let pos = position_of(fname);
        distinct.insert(k.clone());
        ctx.oblige("C01.attrs", &format!("{}@{}:{}", k, pos, fname), true);
        // quote!(()) style non-attribute bodies are filtered by the lowercase-ident shape; `explicit`, class names live inside tag(..)
        let inner_tag = ["explicit", "universal", "application", "private", "context", "extensible"].contains(&k.as_str());
        if inner_tag {
            continue;
        }
        let accepted = match pos {
            "container" => container.contains(k),
            "field" => field.contains(k),
            "variant" => variant.contains(k) || (k == "extension_addition_group" && fname == "format_choice_options"),
            _ => everywhere.contains(k),
        };
        if !accepted {
            ctx.violate("C01.attrs", &format!("{}@{}:{}", k, pos, fname), file, *line,
                &format!("{} emits the rasn attribute key `{}` at {} position; rasn-derive-impl (pinned) accepts there: {:?}", fname, k, pos, match pos { "container" => &container, "field" => &field, "variant" => &variant, _ => &everywhere }));
        }
    }
    ctx.floor("C01.attrs/distinct-keys", distinct.len(), 12);
    ctx.sample(json!({"emitted_attribute_keys": distinct, "accepted": {"container": container, "field": field, "variant": variant}}));
    ctx.notes.push("format_choice_options can emit extension_addition_group at variant position, which rasn-derive-impl does not accept; audited benign: CHOICE extension groups are flattened by the lexer, so no alternative ever carries the ext-group name prefix".into());

    // ---------------- lazy ----------------
    crate::rules::c19::no_std(m, ctx, "C01.lazy");

    // ---------------- text2tok ----------------
    let mut sites: BTreeMap<String, usize> = BTreeMap::new();
    for f in &gen_fns {
        let b = tok(&f.block);
        let n = b.matches("TokenStream::from_str(").count() + b.matches(".parse::<TokenStream>()").count() + b.matches("Ident::new(").count() + b.matches("format_ident!(").count() + b.matches(".map(TokenStream::from_str)").count() + b.matches("let alphabet_ts:TokenStream=").count();
        if n > 0 {
            sites.insert(f.name.clone(), n);
        }
    }
    let audit: serde_json::Value = std::fs::read_to_string(ctx.verif.join("audit/text2tok.json")).ok().and_then(|s| serde_json::from_str(&s).ok()).unwrap_or(json!({"sites": {}}));
    for (fname, n) in &sites {
        ctx.oblige("C01.text2tok", fname, true);
        let allowed = audit["sites"][fname]["count"].as_u64().unwrap_or(0) as usize;
        if *n > allowed {
            let f = gen_fns.iter().find(|f| f.name == *fname).unwrap();
            ctx.violate("C01.text2tok", &format!("{}:count", fname), &f.file, f.line,
                &format!("{} has {} text-to-token conversions, the audited table covers {}: text that does not lex as Rust (or is not a legal identifier) fails or panics here", fname, n, allowed));
        }
    }
    ctx.floor("C01.text2tok/fns-with-sites", sites.len(), 12);
    ctx.extra.insert("text2tok_sites".into(), json!(sites));
    defined(m, ctx, "C01.defined");
    inner_names(m, ctx, "C01.inner");
    empty_set(m, ctx, "C01.emptyset", &derive);
    unsupported_kinds(m, ctx, "C01.unsupported");
    fixed_values(m, ctx, "C01.fixed");
    instance_of(m, ctx, "C01.instanceof");
    collisions(m, ctx, "C01.collide");
    list_values(m, ctx, "C01.listvalue");
    // "the generated text parses as Rust items": a component, alternative or enumeral spelled like a keyword is emitted behind an
    // escape only if the generators' keyword table lists it (the table's containment in the compiler's own list is C16.kw)
    keyword_table(m, ctx);
    // an hstring under an OCTET STRING reached through a type reference stays a list of bits: E0277 in the bindings (= C07.hex)
    crate::rules::c07::octets_through_reference(m, ctx, "C01.hex");
    crate::rules::c07::guard_contradictions(m, ctx, "C01.guard");
    // a DEFAULT taken over by a SEQUENCE value that omits the component is linked once: linked twice it is wrapped in its own
    // type (`Severity(Severity::minor)`, E0423 in the bindings) without a warning (= C07.struct, implicit DEFAULTs)
    crate::rules::c07::implicit_defaults(m, ctx, "C01.struct", false);
    crate::rules::c02::lazy_default_refs(m, ctx, "C01.lazyref");
    // two enumerals with one number are two variants with one discriminant (E0081): the numbering analysis lives with C14
    borrow(ctx, "C14", "C14.num", "C01.discr", &mut |sub| crate::rules::c14::run(m, sub));
    // names that are referred to are the names that are generated (shared with C02.defname)
    crate::rules::c02::defname(m, ctx, "C01.defname");
    // the type of a component and the type of its DEFAULT function / value are chosen by two selectors (shared with C06.agree)
    crate::rules::c06::agree(m, ctx, "C01.agree");
    from_impls(m, ctx, "C01.fromimpl");
    crate::rules::c19::from_payload(m, ctx, "C01.frompayload");
    import_lists(m, ctx, "C01.imports");
}

/// C01.defined: a component's type is rendered by `constraints_and_type_name`, which names an anonymous inner type
/// `<Parent><Field>` (inner_name); the definition of that type is only emitted when `needs_unnesting` says so. The two
/// are evaluated on every nesting shape of anonymous types under SEQUENCE OF / SET OF up to depth 3: wherever the
/// rendered type mentions the inner name, the definition must be requested.
/// C01.inner: an anonymous constructed component is hoisted into a type of its own, *defined* under
/// inner_name(<ASN.1 identifier>, <parent>) and *referred to* from the parent's field. Both sides must build the name from the
/// same spelling. (1) format_member_or_option — the reference side — is evaluated with a component whose Rust identifier
/// differs from its ASN.1 identifier (`stationID` / `station_id`): the type it returns is inner_name(ASN.1 identifier, parent).
/// (2) no call of inner_name anywhere is fed a rendered Rust identifier (an Ident / TokenStream / the result of a to_rust_*
/// mangler, directly or through `.to_string()`).
/// rasn's derive refuses `#[rasn(set)]` on a struct without fields (read from the pinned rasn-derive-impl). A SET type
/// without components must therefore be reported, or be rendered without the `set` key — generate_sequence_or_set is
/// evaluated whole (sub-formatters symbolic) on empty and non-empty SEQUENCE / SET types.
pub fn empty_set(m: &Model, ctx: &mut Ctx, rule: &str, derive: &std::path::Path) {
    let refuses = std::fs::read_dir(derive.join("src")).map(|d| d.flatten().any(|e| std::fs::read_to_string(e.path()).map(|t| t.contains("struct without fields not allowed to be a `set`")).unwrap_or(false))).unwrap_or(false);
    ctx.oblige(rule, "rasn-derive:empty-set-restriction-read", true);
    if !refuses {
        // the pinned derive accepts it: nothing to demand
        return;
    }
    let Some(f) = anchor_fn(m, ctx, rule, Some("Rasn"), "generate_sequence_or_set", None) else { return };
    let consts = const_resolver(m);
    let ok = |v: Val| Val::Ctor("Ok".into(), vec![v], BTreeMap::new());
    let hook = move |_: &Evaluator, name: &str, a: &[Val]| -> Option<Result<Val, String>> {
        match name {
            ".to_rust_title_case" => Some(Ok(Val::Sym("Name".into()))),
            ".format_sequence_or_set_members" => {
                let mut fm = BTreeMap::new();
                for k in ["struct_body", "nested_anonymous_types", "name_types"] {
                    fm.insert(k.to_string(), Val::Sym(format!("<{}>", k)));
                }
                Some(Ok(ok(Val::Ctor("FormattedMembers".into(), vec![], fm))))
            }
            ".format_tag" | ".format_comments" | ".format_new_impl" | ".format_default_impl" | ".format_identifier_annotation" => Some(Ok(Val::Sym(String::new()))),
            ".format_default_methods" => Some(Ok(ok(Val::Sym(String::new())))),
            ".join_annotations" => Some(Ok(ok(Val::Sym(match a.get(1) {
                Some(Val::List(l)) => format!("<annotations {}>", l.iter().map(|v| match v { Val::Sym(s) | Val::Str(s) => s.clone(), o => o.show() }).filter(|s| !s.is_empty()).collect::<Vec<_>>().join(",")),
                o => format!("<annotations ?{}>", o.map(|v| v.show()).unwrap_or_default()),
            })))),
            "sequence_or_set_template" => Some(Ok(Val::Sym(a.iter().map(|v| match v { Val::Sym(s) | Val::Str(s) => s.clone(), o => o.show() }).collect::<Vec<_>>().join(" ")))),
            ".type_mismatch_error" | "GeneratorError::new" => Some(Ok(Val::Ctor(if name == "GeneratorError::new" { "GeneratorError" } else { "Err" }.into(), vec![Val::Sym("error".into())], BTreeMap::new()))),
            _ => None,
        }
    };
    let ev = Evaluator { consts: &consts, call_hook: &hook, inline: None };
    let param = f.sig.inputs.iter().filter_map(|a| match a { syn::FnArg::Typed(t) => Some(tok(&t.pat)), _ => None }).next().unwrap_or("tld".into());
    let named = |n: &str, fields: Vec<(&str, Val)>| Val::Ctor(n.to_string(), vec![], fields.into_iter().map(|(k, v)| (k.to_string(), v)).collect::<BTreeMap<_, _>>());
    let member = named("SequenceOrSetMember", vec![
        ("name", Val::Str("a".into())), ("tag", Val::none()), ("ty", Val::Ctor("Boolean".into(), vec![Val::Opaque("b".into())], BTreeMap::new())),
        ("optionality", Val::ctor("Required")), ("is_recursive", Val::Bool(false)), ("constraints", Val::List(vec![])),
    ]);
    // (a SET whose marker comes first, `SET { ..., a T }`, has components — all of them additions)
    for (kind, n_members, extensible) in [("Set", 0usize, false), ("Set", 0, true), ("Set", 1, false), ("Set", 1, true), ("Set", 2, true), ("Sequence", 0, false), ("Sequence", 1, false), ("Sequence", 1, true)] {
        let key = format!("{}:{}-components{}", kind, n_members, if extensible { ":extensible" } else { "" });
        ctx.oblige(rule, &key, true);
        let seq = named("SequenceOrSet", vec![
            ("members", Val::List((0..n_members).map(|_| member.clone()).collect())),
            ("extensible", if extensible { Val::some(Val::int(0)) } else { Val::none() }),
            ("constraints", Val::List(vec![])), ("components_of", Val::List(vec![])),
        ]);
        let tld = named("ToplevelTypeDefinition", vec![
            ("name", Val::Str("Name".into())), ("comments", Val::Str(String::new())), ("tag", Val::none()), ("parameterization", Val::none()), ("module_header", Val::none()),
            ("ty", Val::Ctor(kind.into(), vec![seq], BTreeMap::new())),
        ]);
        let mut env = Env::new();
        env.insert("self".into(), named("Rasn", vec![
            ("config", named("Config", vec![("opaque_open_types", Val::Bool(true))])),
            ("tagging_environment", Val::ctor("Explicit")), ("extensibility_environment", Val::ctor("Explicit")),
        ]));
        env.insert(param.clone(), tld);
        match ev.eval_fn_body(&f.block, &mut env) {
            Ok(Val::Ctor(c, p, _)) if c == "Ok" => {
                let text = match p.first() { Some(Val::Sym(s)) => s.clone(), Some(o) => o.show(), None => String::new() };
                let ann = text.find("<annotations ").map(|i| &text[i + 13..]).and_then(|t| t.find('>').map(|e| t[..e].to_string()));
                let Some(ann) = ann else {
                    ctx.fail_closed(rule, &format!("[{}]: the container annotations were not found in the result {}", key, text.chars().take(120).collect::<String>()));
                    continue;
                };
                let has_set = ann.split(',').any(|a| a.trim() == "set");
                if kind == "Set" && n_members == 0 && has_set {
                    ctx.violate(rule, "empty-set:rendered-as-set", &f.file, f.line,
                        &format!("`Name ::= SET {{{}}}` is rendered as a struct without fields under `#[rasn(set)]`, which the pinned rasn derive refuses (\"struct without fields not allowed to be a `set`\"): the bindings do not compile although no warning was returned", if extensible { " ... " } else { "" }));
                } else if kind == "Set" && n_members > 0 && !has_set {
                    ctx.violate(rule, "set:not-marked", &f.file, f.line, "a SET type with components is rendered without the `set` key (it would be encoded as a SEQUENCE)");
                } else if kind == "Sequence" && has_set {
                    ctx.violate(rule, "sequence:marked-set", &f.file, f.line, "a SEQUENCE type is rendered with the `set` key");
                }
            }
            Ok(Val::Ctor(c, _, _)) if c == "Err" => {
                if !(kind == "Set" && n_members == 0) {
                    ctx.violate(rule, &format!("refused:{}", key), &f.file, f.line, &format!("a {} type with {} component(s) is refused by generate_sequence_or_set: rasn supports it, the definition is lost to a warning", kind.to_uppercase(), n_members));
                }
            }
            Ok(o) => ctx.fail_closed(rule, &format!("[{}]: result {}", key, o.show().chars().take(120).collect::<String>())),
            Err(e) => ctx.fail_closed(rule, &format!("[{}]: {}", key, e)),
        }
    }
}

/// Sibling agreement: a kind of type that generate_type refuses as an assignment (`R ::= REAL` -> "unsupported", a warning)
/// must be refused as the type of a component too — `S ::= SEQUENCE { r REAL }` otherwise compiles without a warning to a
/// field of a Rust type the container's derives (`Eq`, `Hash`) do not accept, or to a name nothing defines.
pub fn unsupported_kinds(m: &Model, ctx: &mut Ctx, rule: &str) {
    let Ok(types) = m.find_enum("ASN1Type") else {
        ctx.fail_closed(rule, "enum ASN1Type not found");
        return;
    };
    let Some(gt) = anchor_fn(m, ctx, rule, Some("Rasn"), "generate_type", None) else { return };
    let consts = const_resolver(m);
    let hook = |_: &Evaluator, name: &str, _a: &[Val]| -> Option<Result<Val, String>> {
        if name.starts_with(".generate_") {
            return Some(Ok(Val::Ctor("Ok".into(), vec![Val::Sym(format!("<{}>", &name[1..]))], BTreeMap::new())));
        }
        None
    };
    let ev = Evaluator { consts: &consts, call_hook: &hook, inline: None };
    let value_of = |v: &str| -> Val {
        let fields = types.variant_fields.get(v).cloned().unwrap_or_default();
        Val::Ctor(v.to_string(), fields.iter().map(|_| Val::Opaque("payload".into())).collect(), Default::default())
    };
    let param = |f: &FnInfo, i: usize| f.sig.inputs.iter().filter_map(|a| match a { syn::FnArg::Typed(t) => Some(tok(&t.pat)), _ => None }).nth(i).unwrap_or_default();
    let mut refused = vec![];
    for v in &types.variants {
        let mut t = BTreeMap::new();
        t.insert("name".to_string(), Val::Str("T".into()));
        t.insert("parameterization".to_string(), Val::none());
        t.insert("ty".to_string(), value_of(v));
        let mut env = Env::new();
        env.insert("self".into(), Val::ctor("Rasn"));
        env.insert(param(gt, 0), Val::Ctor("ToplevelTypeDefinition".into(), vec![], t));
        match ev.eval_fn_body(&gt.block, &mut env) {
            Ok(Val::Ctor(e, _, _)) if e == "Err" => refused.push(v.clone()),
            Ok(_) => {}
            Err(e) => {
                ctx.fail_closed(rule, &format!("generate_type on {}: {}", v, e));
                return;
            }
        }
    }
    ctx.floor(&format!("{}/refused-kinds", rule), refused.len(), 2);
    for (fname, nparams) in [("type_to_tokens", 1usize), ("constraints_and_type_name", 4)] {
        let Some(f) = anchor_fn(m, ctx, rule, Some("Rasn"), fname, None) else { continue };
        for v in &refused {
            // a selection type is resolved by the linker before any generator runs
            if v == "ChoiceSelectionType" {
                continue;
            }
            ctx.oblige(rule, &format!("{}:{}", fname, v), true);
            let mut env = Env::new();
            env.insert("self".into(), Val::ctor("Rasn"));
            env.insert(param(f, 0), value_of(v));
            if nparams == 4 {
                env.insert(param(f, 1), Val::Str("r".into()));
                env.insert(param(f, 2), Val::Str("S".into()));
                env.insert(param(f, 3), Val::Bool(false));
            }
            match ev.eval_fn_body(&f.block, &mut env) {
                Ok(Val::Ctor(e, _, _)) if e == "Err" => {}
                Ok(Val::Ctor(o, p, _)) if o == "Ok" => {
                    let shown = match p.first() { Some(Val::Sym(s)) => s.clone(), Some(Val::Tuple(t)) => t.last().map(|v| v.show()).unwrap_or_default(), Some(o) => o.show(), None => String::new() };
                    ctx.violate(rule, &format!("component-accepted:{}:{}", fname, v), &f.file, f.line,
                        &format!("a type assignment of kind {k} is refused by generate_type (a warning: unsupported), but {f} renders a component of kind {k} as `{s}`: `S ::= SEQUENCE {{ r {K} }}` compiles without a warning to bindings that do not type-check (for REAL: an `f64` field under `#[derive(Eq, Hash)]`)", k = v, f = fname, s = shown, K = v.to_uppercase()));
                }
                Ok(o) => ctx.fail_closed(rule, &format!("{} on {}: result {}", fname, v, o.show().chars().take(100).collect::<String>())),
                Err(e) => ctx.fail_closed(rule, &format!("{} on {}: {}", fname, v, e)),
            }
        }
    }
}

/// Writer/writer agreement on the string kinds with two Rust representations. A top-level `O2 ::= OCTET STRING (SIZE (2))`
/// is declared `struct O2(pub FixedOctetString<2>)`, `B8 ::= BIT STRING (SIZE (8))` `struct B8(pub FixedBitString<8>)`
/// (the generators are evaluated with fixed_size() = Some / None and the field type is read from the template they
/// pick). A value of such a type (`vo O2 ::= '0A0B'H`, a DEFAULT) is rendered by value_to_tokens, which is evaluated on
/// a value of the kind: unless the expression converts (`try_into`, `try_from`) or builds the fixed type itself, it has
/// the type of the *unconstrained* representation and the wrapper `O2(..)` does not type-check (E0308 / E0277).
pub fn fixed_values(m: &Model, ctx: &mut Ctx, rule: &str) {
    let consts = const_resolver(m);
    let Some(vt) = anchor_fn(m, ctx, rule, Some("Rasn"), "value_to_tokens", None) else { return };
    for (kind, generator, value, builds_fixed) in [
        ("OctetString", "generate_octet_string", Val::Ctor("OctetString".into(), vec![Val::List(vec![Val::int(10), Val::int(11)])], BTreeMap::new()), ["FixedOctetString", "try_into", "try_from"]),
        ("BitString", "generate_bit_string", Val::Ctor("BitString".into(), vec![Val::List(vec![Val::Bool(true), Val::Bool(false)])], BTreeMap::new()), ["FixedBitString", "BitArray", "copy_from_bitslice"]),
    ] {
        let Some(g) = anchor_fn(m, ctx, rule, Some("Rasn"), generator, None) else { continue };
        // the field types the type generator can declare
        let mut field_types: BTreeMap<bool, String> = BTreeMap::new();
        for fixed in [true, false] {
            let hook = move |_: &Evaluator, name: &str, a: &[Val]| -> Option<Result<Val, String>> {
                match name {
                    ".fixed_size" => Some(Ok(if fixed { Val::some(Val::int(2)) } else { Val::none() })),
                    ".format_name_and_common_annotations" => Some(Ok(Val::Tuple(vec![Val::Sym("Name".into()), Val::List(vec![])]))),
                    ".format_range_annotations" | ".join_annotations" => Some(Ok(Val::Ctor("Ok".into(), vec![Val::Sym(String::new())], BTreeMap::new()))),
                    ".format_comments" | ".format_tag" | ".to_token_stream" => Some(Ok(Val::Sym(String::new()))),
                    n if n.ends_with("_template") && !n.starts_with('.') => { let _ = a; Some(Ok(Val::Sym(format!("<template {}>", n)))) }
                    _ => None,
                }
            };
            let ev = Evaluator { consts: &consts, call_hook: &hook, inline: None };
            let param = g.sig.inputs.iter().filter_map(|a| match a { syn::FnArg::Typed(t) => Some(tok(&t.pat)), _ => None }).next().unwrap_or("tld".into());
            let mut t = BTreeMap::new();
            t.insert("name".to_string(), Val::Str("Name".into()));
            t.insert("comments".to_string(), Val::Str(String::new()));
            t.insert("tag".to_string(), Val::none());
            t.insert("ty".to_string(), Val::Ctor(kind.into(), vec![Val::Ctor(kind.into(), vec![], [("constraints".to_string(), Val::List(vec![]))].into_iter().collect())], BTreeMap::new()));
            let mut env = Env::new();
            env.insert("self".into(), Val::ctor("Rasn"));
            env.insert(param, Val::Ctor("ToplevelTypeDefinition".into(), vec![], t));
            match ev.eval_fn_body(&g.block, &mut env) {
                Ok(Val::Ctor(ok, p, _)) if ok == "Ok" => {
                    let tn = match p.first() { Some(Val::Sym(s)) => s.trim_start_matches("<template ").trim_end_matches('>').to_string(), _ => String::new() };
                    let Some(tf) = m.fns.iter().find(|f| f.name == tn && f.module.starts_with("generator::rasn")) else {
                        ctx.fail_closed(rule, &format!("{}: template `{}` not found", generator, tn));
                        continue;
                    };
                    // `pub struct #name(pub <FieldType> ..);`
                    let body = tok(&tf.block);
                    let ft = body.split("(pub ").nth(1).map(|r| r.split(|c: char| !(c.is_alphanumeric() || c == '_')).next().unwrap_or("").to_string()).unwrap_or_default();
                    if ft.is_empty() {
                        ctx.fail_closed(rule, &format!("{}: no field type in template {}", generator, tn));
                        continue;
                    }
                    field_types.insert(fixed, ft);
                }
                Ok(o) => ctx.fail_closed(rule, &format!("{} (fixed_size {}): result {}", generator, fixed, o.show().chars().take(100).collect::<String>())),
                Err(e) => ctx.fail_closed(rule, &format!("{} (fixed_size {}): {}", generator, fixed, e)),
            }
        }
        let (Some(fixed_ty), Some(plain_ty)) = (field_types.get(&true), field_types.get(&false)) else { continue };
        ctx.oblige(rule, &format!("{}:value-of-fixed-size-type", kind), true);
        if fixed_ty == plain_ty {
            continue; // one representation: nothing to agree on
        }
        // the value expression (it is the same whatever the governing type: value_to_tokens is not told)
        let ev = Evaluator { consts: &consts, call_hook: &crate::eval::no_hook, inline: None };
        let ps: Vec<String> = vt.sig.inputs.iter().filter_map(|a| match a { syn::FnArg::Typed(t) => Some(tok(&t.pat)), _ => None }).collect();
        let mut env = Env::new();
        env.insert("self".into(), Val::ctor("Rasn"));
        env.insert(ps.first().cloned().unwrap_or("value".into()), value.clone());
        env.insert(ps.get(1).cloned().unwrap_or("type_name".into()), Val::none());
        match ev.eval_fn_body(&vt.block, &mut env) {
            Ok(Val::Ctor(ok, p, _)) if ok == "Ok" => {
                let text = match p.first() { Some(Val::Sym(s)) => s.clone(), Some(o) => o.show(), None => String::new() };
                if !builds_fixed.iter().any(|b| text.contains(b)) {
                    ctx.violate(rule, &format!("{}:value-of-fixed-size-type", kind), &vt.file, vt.line,
                        &format!("a top-level {k} type with a fixed SIZE is declared with the field type `{f}<N>`, any other with `{p}`; value_to_tokens renders every {k} value as `{t}` — an expression of the unconstrained representation — so `vo O2 ::= '0A0B'H` / a DEFAULT of the fixed-size type `O2` becomes `O2({t})`: mismatched types, no warning", k = kind, f = fixed_ty, p = plain_ty, t = text.chars().take(70).collect::<String>()));
                }
            }
            Ok(Val::Ctor(e, _, _)) if e == "Err" => {}
            Ok(o) => ctx.fail_closed(rule, &format!("value_to_tokens on {}: result {}", kind, o.show().chars().take(100).collect::<String>())),
            Err(e) => ctx.fail_closed(rule, &format!("value_to_tokens on {}: {}", kind, e)),
        }
    }
}

/// `T ::= INSTANCE OF CLS` (X.681 Annex C: `[UNIVERSAL 8] IMPLICIT SEQUENCE { type-id CLS.&id, value [0] CLS.&Type }`).
/// The lexer's `instance_of` is evaluated on a class name: if what it builds is a plain type reference to the *class*, the
/// bindings name a Rust type nothing defines — classes are a silent category (C10.empty), no declaration exists for them.
pub fn instance_of(m: &Model, ctx: &mut Ctx, rule: &str) {
    let Some(f) = m.fns.iter().find(|f| f.name == "instance_of" && f.module.starts_with("lexer")) else {
        // no such notation in the lexer: `INSTANCE OF` is then a syntax error, which is an answer
        ctx.oblige(rule, "instance-of:not-parsed", true);
        return;
    };
    ctx.func(&f.key);
    ctx.oblige(rule, "instance-of:what-it-becomes", true);
    struct C { out: Vec<syn::ExprClosure> }
    impl model::DeepCb for C {
        fn expr(&mut self, e: &syn::Expr) {
            if let syn::Expr::Closure(c) = e {
                self.out.push(c.clone());
            }
        }
    }
    let mut c = C { out: vec![] };
    model::deep_walk_block(&f.block, &mut c);
    let Some(clo) = c.out.into_iter().find(|c| c.inputs.len() == 1) else {
        ctx.fail_closed(rule, "instance_of: the closure building the type was not found");
        return;
    };
    let consts = const_resolver(m);
    let ev = Evaluator { consts: &consts, call_hook: &crate::eval::no_hook, inline: None };
    match ev.apply_closure(&syn::Expr::Closure(clo.clone()), &[Val::Tuple(vec![Val::Str("CLS".into()), Val::none()])], &Env::new()) {
        Ok(Val::Ctor(n, p, _)) if n == "ElsewhereDeclaredType" => {
            let id = match p.first() { Some(Val::Ctor(_, _, fl)) => match fl.get("identifier") { Some(Val::Str(s)) => s.clone(), Some(o) => o.show(), None => String::new() }, _ => String::new() };
            if id == "CLS" {
                ctx.violate(rule, "instance-of:reference-to-the-class", &f.file, span_line(&clo),
                    "`T ::= INSTANCE OF CLS` is read as the type reference `CLS`: the bindings declare `struct T(pub CLS)`, but an information object class has no Rust declaration (classes generate nothing) — E0425 without a warning; X.681 Annex C defines the notation as `[UNIVERSAL 8] IMPLICIT SEQUENCE { type-id CLS.&id, value [0] CLS.&Type }`");
            }
        }
        Ok(_) => {}
        Err(e) => ctx.fail_closed(rule, &format!("instance_of: {}", e)),
    }
}

/// Distinct ASN.1 names that the case rules map to one Rust identifier (`ub-localeContextSyntax` / `ub-locale-context-syntax`,
/// both value references of X.520 UpperBounds; `Foo-Bar` / `FooBar`): the manglers are evaluated on such pairs. Where a
/// pair collides, two items of one module get the same name (E0428) unless a collision is noticed and reported.
pub fn collisions(m: &Model, ctx: &mut Ctx, rule: &str) {
    let consts = const_resolver(m);
    let hook = |_: &Evaluator, name: &str, a: &[Val]| -> Option<Result<Val, String>> {
        match name {
            "Ident::new" | "proc_macro2::Ident::new" => Some(Ok(a.first().cloned().unwrap_or(Val::Unit))),
            "Span::call_site" | "proc_macro2::Span::call_site" => Some(Ok(Val::Unit)),
            "TokenStream::from_str" => Some(Ok(Val::Ctor("Ok".into(), vec![a.first().cloned().unwrap_or(Val::Unit)], BTreeMap::new()))),
            _ => None,
        }
    };
    let inl = inline_all(m, &["Rasn"]);
    let inl: BTreeMap<_, _> = inl.into_iter().filter(|(k, _)| k.contains("to_rust_")).collect();
    // none of the probed names is a keyword
    let no_keywords = |name: &str| -> Option<Val> { if name.ends_with("RUST_KEYWORDS") { Some(Val::List(vec![])) } else { consts(name) } };
    let ev = Evaluator { consts: &no_keywords, call_hook: &hook, inline: Some(&inl) };
    let mut colliding = vec![];
    for (fname, a, b) in [("to_rust_const_case", "ub-localeContextSyntax", "ub-locale-context-syntax"), ("to_rust_title_case", "Foo-Bar", "FooBar"), ("to_rust_snake_case", "localeContext", "locale-context")] {
        let Some(f) = anchor_fn(m, ctx, rule, Some("Rasn"), fname, None) else { continue };
        ctx.oblige(rule, &format!("{}:{}~{}", fname, a, b), true);
        let p = f.sig.inputs.iter().filter_map(|x| match x { syn::FnArg::Typed(t) => Some(tok(&t.pat)), _ => None }).next().unwrap_or("input".into());
        let mut out = vec![];
        for name in [a, b] {
            let mut env = Env::new();
            env.insert("self".into(), Val::ctor("Rasn"));
            env.insert(p.clone(), Val::Str(name.into()));
            match ev.eval_fn_body(&f.block, &mut env) {
                Ok(Val::Str(s)) | Ok(Val::Sym(s)) => out.push(s),
                Ok(Val::Ctor(ok, pp, _)) if ok == "Ok" => out.push(pp.first().map(|v| match v { Val::Str(s) | Val::Sym(s) => s.clone(), o => o.show() }).unwrap_or_default()),
                Ok(o) => { ctx.fail_closed(rule, &format!("{}({:?}): result {}", fname, name, o.show().chars().take(80).collect::<String>())); break; }
                Err(e) => { ctx.fail_closed(rule, &format!("{}({:?}): {}", fname, name, e)); break; }
            }
        }
        if out.len() == 2 && out[0] == out[1] {
            colliding.push(format!("{}: `{}` and `{}` -> `{}`", fname, a, b, out[0]));
        }
    }
    if !colliding.is_empty() {
        let f = m.fns.iter().find(|f| f.name == "to_rust_const_case");
        ctx.violate(rule, "distinct-names-one-identifier", f.map(|f| f.file.as_str()).unwrap_or(""), f.map(|f| f.line).unwrap_or(0),
            &format!("distinct ASN.1 names are given one Rust identifier ({}), and nothing between the manglers and the emitted module notices two items of one name: `ub-localeContextSyntax INTEGER ::= 128  ub-locale-context-syntax INTEGER ::= 64` (X.520 UpperBounds) compiles without a warning to two constants `UB_LOCALE_CONTEXT_SYNTAX` (E0428)", colliding.join("; ")));
    }
}

/// Values of a *named* SEQUENCE OF / SET OF type. `Tt ::= SET OF BOOLEAN` is declared `struct Tt(pub SetOf<AnonymousTt>)`
/// with a wrapper struct for the element (generate_sequence_or_set_of is evaluated and the element type read from what it
/// hands to its template); a value `vt Tt ::= { TRUE }` is rendered by value_to_tokens (evaluated on a list value) as
/// `Tt(alloc::vec![true])`. Unless the rendering wraps the elements in the declared element type (and builds a SetOf for
/// SET OF), the value does not type-check.
pub fn list_values(m: &Model, ctx: &mut Ctx, rule: &str) {
    let Some(g) = anchor_fn(m, ctx, rule, Some("Rasn"), "generate_sequence_or_set_of", None) else { return };
    let Some(vt) = anchor_fn(m, ctx, rule, Some("Rasn"), "value_to_tokens", None) else { return };
    let consts = const_resolver(m);
    let captured = std::cell::RefCell::new(None::<(String, String)>);
    let sym = |v: &Val| match v { Val::Sym(s) | Val::Str(s) => s.clone(), o => o.show() };
    let hook = |_: &Evaluator, name: &str, a: &[Val]| -> Option<Result<Val, String>> {
        match name {
            ".to_rust_title_case" => Some(Ok(Val::Sym("Tt".into()))),
            ".generate_type" => Some(Ok(Val::Ctor("Ok".into(), vec![Val::Sym("<anonymous item>".into())], BTreeMap::new()))),
            ".format_range_annotations" | ".join_annotations" => Some(Ok(Val::Ctor("Ok".into(), vec![Val::Sym(String::new())], BTreeMap::new()))),
            ".format_tag" | ".format_comments" | ".format_identifier_annotation" => Some(Ok(Val::Sym(String::new()))),
            ".to_token_stream" | ".to_string" | ".clone" | ".as_ref" if a.len() == 1 => Some(Ok(a[0].clone())),
            "sequence_or_set_of_template" => {
                *captured.borrow_mut() = Some((a.first().map(|v| v.show()).unwrap_or_default(), a.get(4).map(sym).unwrap_or_default()));
                Some(Ok(Val::Sym("<template>".into())))
            }
            _ => None,
        }
    };
    let ev = Evaluator { consts: &consts, call_hook: &hook, inline: None };
    let named = |n: &str, fields: Vec<(&str, Val)>| Val::Ctor(n.to_string(), vec![], fields.into_iter().map(|(k, v)| (k.to_string(), v)).collect::<BTreeMap<_, _>>());
    let boolean = Val::Ctor("Boolean".into(), vec![named("Boolean", vec![("constraints", Val::List(vec![]))])], BTreeMap::new());
    let gp = g.sig.inputs.iter().filter_map(|a| match a { syn::FnArg::Typed(t) => Some(tok(&t.pat)), _ => None }).next().unwrap_or("tld".into());
    for kind in ["SequenceOf", "SetOf"] {
        ctx.oblige(rule, &format!("value-of-named:{}", kind), true);
        let list = Val::Ctor(kind.into(), vec![named("SequenceOrSetOf", vec![("element_type", boolean.clone()), ("element_tag", Val::none()), ("constraints", Val::List(vec![])), ("is_recursive", Val::Bool(false))])], BTreeMap::new());
        let tld = named("ToplevelTypeDefinition", vec![("name", Val::Str("Tt".into())), ("comments", Val::Str(String::new())), ("tag", Val::none()), ("parameterization", Val::none()), ("module_header", Val::none()), ("ty", list)]);
        *captured.borrow_mut() = None;
        let mut env = Env::new();
        env.insert("self".into(), Val::ctor("Rasn"));
        env.insert(gp.clone(), tld);
        if let Err(e) = ev.eval_fn_body(&g.block, &mut env) {
            ctx.fail_closed(rule, &format!("generate_sequence_or_set_of ({}): {}", kind, e));
            continue;
        }
        let Some((is_set, elem_ty)) = captured.borrow().clone() else {
            ctx.fail_closed(rule, &format!("generate_sequence_or_set_of ({}): the template call was not reached", kind));
            continue;
        };
        // the value side
        let vps: Vec<String> = vt.sig.inputs.iter().filter_map(|a| match a { syn::FnArg::Typed(t) => Some(tok(&t.pat)), _ => None }).collect();
        let mut inl = inline_all(m, &["Rasn"]);
        inl.retain(|k, _| k == ".value_to_tokens");
        let ev2 = Evaluator { consts: &consts, call_hook: &crate::eval::no_hook, inline: Some(&inl) };
        let mut env = Env::new();
        env.insert("self".into(), Val::ctor("Rasn"));
        env.insert(vps.first().cloned().unwrap_or("value".into()), Val::Ctor("LinkedArrayLikeValue".into(), vec![Val::List(vec![Val::Ctor("Boolean".into(), vec![Val::Bool(true)], BTreeMap::new())])], BTreeMap::new()));
        env.insert(vps.get(1).cloned().unwrap_or("type_name".into()), Val::none());
        let text = match ev2.eval_fn_body(&vt.block, &mut env) {
            Ok(Val::Ctor(ok, p, _)) if ok == "Ok" => p.first().map(sym).unwrap_or_default(),
            Ok(Val::Ctor(e, _, _)) if e == "Err" => continue, // refused: a warning, nothing emitted
            Ok(o) => { ctx.fail_closed(rule, &format!("value_to_tokens on a list value: {}", o.show().chars().take(80).collect::<String>())); continue; }
            Err(e) => { ctx.fail_closed(rule, &format!("value_to_tokens on a list value: {}", e)); continue; }
        };
        let wrapper = elem_ty.starts_with("Anonymous") || elem_ty.contains("Anonymous");
        let set = is_set == "true";
        if (wrapper && !text.contains("Anonymous")) || (set && !text.contains("SetOf")) {
            ctx.violate(rule, "value-of-named-list-type", &vt.file, vt.line,
                &format!("`Tt ::= {} BOOLEAN` is declared `struct Tt(pub {}<{}>)`; a value of it (`vt Tt ::= {{ TRUE }}`, a DEFAULT `{{ TRUE }}` of a component of type Tt) is rendered `Tt({})`: {}{} — mismatched types, no warning", if set { "SET OF" } else { "SEQUENCE OF" }, if set { "SetOf" } else { "SequenceOf" }, elem_ty, text,
                    if wrapper { "the elements are not wrapped in the declared element type" } else { "" }, if set { "; a SetOf is not a Vec" } else { "" }));
        }
    }
}

pub fn inner_names(m: &Model, ctx: &mut Ctx, rule: &str) {
    if let Some(f) = anchor_fn(m, ctx, rule, Some("Rasn"), "format_member_or_option", None) {
        let consts = const_resolver(m);
        let okv = |v: Val| Val::Ctor("Ok".into(), vec![v], BTreeMap::new());
        let hook = |_: &Evaluator, name: &str, a: &[Val]| -> Option<Result<Val, String>> {
            let field = |k: &str| match a.first() { Some(Val::Ctor(_, _, f)) => f.get(k).cloned(), _ => None };
            match name {
                ".ty" | ".name" | ".is_recursive" | ".constraints" | ".tag" if a.len() == 1 => field(&name[1..]).map(Ok),
                ".constraints_and_type_name" => Some(Ok(okv(Val::Tuple(vec![Val::List(vec![]), Val::Sym("STRUCTURAL".into())])))),
                "Self::needs_unnesting" | "Rasn::needs_unnesting" => Some(Ok(Val::Bool(true))),
                ".inner_name" => Some(Ok(Val::Sym(format!("INNER<{}|{}>", a.get(1).map(|v| v.show()).unwrap_or_default().trim_matches('"'), a.get(2).map(|v| v.show()).unwrap_or_default().trim_matches('"'))))),
                ".format_range_annotations" | ".format_alphabet_annotations" | ".join_annotations" => Some(Ok(okv(Val::Sym("".into())))),
                ".format_tag" | ".format_identifier_annotation" => Some(Ok(Val::Sym("".into()))),
                ".to_token_stream" | ".to_owned" | ".clone" if a.len() == 1 => Some(Ok(a[0].clone())),
                ".to_string" if a.len() == 1 => Some(Ok(match &a[0] { Val::Sym(s) => Val::Str(s.clone()), o => o.clone() })),
                "boxed_type" => Some(Ok(a.first().cloned().unwrap_or(Val::Unit))),
                "op:ne" | "op:eq" => None,
                _ => None,
            }
        };
        let ev = Evaluator { consts: &consts, call_hook: &hook, inline: None };
        let params: Vec<String> = f.sig.inputs.iter().filter_map(|a| match a { syn::FnArg::Typed(t) => Some(tok(&t.pat)), _ => None }).collect();
        ctx.oblige(rule, "reference-side", true);
        if params.len() < 3 {
            ctx.fail_closed(rule, "format_member_or_option: expected (member, parent name, rust identifier, ..)");
        } else {
            let mut me = BTreeMap::new();
            me.insert("name".to_string(), Val::Str("stationID".into()));
            me.insert("ty".to_string(), Val::Ctor("Sequence".into(), vec![Val::Opaque("payload".into())], BTreeMap::new()));
            me.insert("is_recursive".to_string(), Val::Bool(false));
            me.insert("constraints".to_string(), Val::List(vec![]));
            me.insert("tag".to_string(), Val::none());
            let mut env = Env::new();
            env.insert("self".into(), Val::ctor("Rasn"));
            env.insert(params[0].clone(), Val::Ctor("SequenceOrSetMember".into(), vec![], me));
            env.insert(params[1].clone(), Val::Str("Station".into()));
            env.insert(params[2].clone(), Val::Sym("station_id".into()));
            for p in params.iter().skip(3) {
                env.insert(p.clone(), if p.contains("default") { Val::none() } else { Val::Sym("".into()) });
            }
            match ev.eval_fn_body(&f.block, &mut env) {
                Ok(Val::Ctor(ok, p, _)) if ok == "Ok" => {
                    let ty = match p.first() { Some(Val::Ctor(_, _, fl)) => fl.get("formatted_type_name").map(|v| v.show()).unwrap_or_default(), o => format!("{:?}", o.map(|v| v.show())) };
                    if ty != "INNER<stationID|Station>" {
                        ctx.violate(rule, "reference-side", &f.file, f.line, &format!("format_member_or_option for the hoisted component `stationID` (Rust field `station_id`) of `Station` refers to the type `{}`; the definition is emitted under inner_name(\"stationID\", \"Station\") — built from another spelling the two names differ (`StationStationID` vs `StationStationId`) and the bindings do not resolve", ty));
                    }
                }
                Ok(o) => ctx.fail_closed(rule, &format!("[format_member_or_option]: {}", o.show().chars().take(120).collect::<String>())),
                Err(e) => ctx.fail_closed(rule, &format!("[format_member_or_option]: {}", e)),
            }
        }
    }
    // (2) every call site
    let mut sites = 0;
    for f in m.fns.iter().filter(|f| f.module.starts_with("generator::rasn")) {
        for mc in model::method_calls_in(&f.block).into_iter().filter(|mc| mc.method == "inner_name") {
            sites += 1;
            let Some(arg) = mc.args.first() else { continue };
            let t = tok(arg);
            ctx.oblige(rule, &format!("call:{}:{}", f.name, t), true);
            // the spelling handed in: follow one level of `let`
            let base = t.trim_start_matches('&').split(|c: char| !(c.is_alphanumeric() || c == '_')).next().unwrap_or("").to_string();
            let mut rendered = t.contains(".to_string()") || t.contains("to_rust_") || t.contains("to_token_stream");
            for a in f.sig.inputs.iter() {
                if let syn::FnArg::Typed(pt) = a {
                    if tok(&pt.pat) == base {
                        let ty = tok(&pt.ty);
                        if ty.contains("Ident") || ty.contains("TokenStream") {
                            rendered = true;
                        }
                    }
                }
            }
            struct L<'a> { base: &'a str, hit: bool }
            impl<'a> model::DeepCb for L<'a> {
                fn local(&mut self, l: &syn::Local) {
                    if tok(&l.pat).trim_start_matches("mut ") == self.base {
                        if let Some(i) = &l.init {
                            let t = tok(&i.expr);
                            if t.contains("to_rust_") || t.contains("format_ident!") || t.contains("Ident::new") {
                                self.hit = true;
                            }
                        }
                    }
                }
            }
            let mut lc = L { base: &base, hit: false };
            model::deep_walk_block(&f.block, &mut lc);
            if rendered || lc.hit {
                ctx.violate(rule, &format!("rendered-identifier:{}", f.name), &f.file, span_line(&mc), &format!("{} calls inner_name({}, ..) with a rendered Rust identifier: the hoisted type is defined under inner_name(<ASN.1 identifier>, <parent>), and the two spellings differ for identifiers such as `stationID` or `type`", f.name, t));
            }
        }
    }
    ctx.floor(&format!("{}/inner_name-call-sites", rule), sites, 4);
}

pub fn defined(m: &Model, ctx: &mut Ctx, rule: &str) {
    let (Some(nu), Some(ct)) = (anchor_fn(m, ctx, rule, Some("Rasn"), "needs_unnesting", None), anchor_fn(m, ctx, rule, Some("Rasn"), "constraints_and_type_name", None)) else { return };
    let consts = const_resolver(m);
    let inl = inline_all(m, &["Rasn"]);
    let hook = |_: &Evaluator, name: &str, a: &[Val]| -> Option<Result<Val, String>> {
        match name {
            ".inner_name" => Some(Ok(Val::Sym("INNER".into()))),
            ".int_type" => Some(Ok(Val::Sym("INT".into()))),
            // the element's constraint is opaque: no range annotation is derived from it
            ".per_visible" => Some(Ok(Val::Bool(false))),
            ".format_range_annotations" | ".format_alphabet_annotations" => Some(Ok(Val::Ctor("Ok".into(), vec![Val::Sym("".into())], BTreeMap::new()))),
            ".to_rust_qualified_type" => Some(Ok(Val::Sym("REF".into()))),
            ".constraints" | ".constraints_mut" => Some(Ok(match a.first() {
                Some(Val::Ctor(_, p, f)) => f.get("constraints").cloned().or_else(|| p.first().and_then(|x| match x { Val::Ctor(_, _, f2) => f2.get("constraints").cloned(), _ => None })).unwrap_or(Val::List(vec![])),
                _ => Val::List(vec![]),
            })),
            ".to_token_stream" | ".to_owned" | ".clone" if a.len() == 1 => Some(Ok(a[0].clone())),
            "boxed_type" => Some(Ok(a.first().cloned().unwrap_or(Val::Unit))),
            _ => None,
        }
    };
    let ev = Evaluator { consts: &consts, call_hook: &hook, inline: Some(&inl) };
    let leaf = |k: &str| {
        let mut f = BTreeMap::new();
        f.insert("constraints".to_string(), Val::List(vec![]));
        Val::Ctor(k.into(), vec![Val::Ctor("payload".into(), vec![], f)], BTreeMap::new())
    };
    let of = |k: &str, el: Val| {
        let mut f = BTreeMap::new();
        f.insert("element_type".to_string(), el);
        f.insert("element_tag".to_string(), Val::none());
        f.insert("constraints".to_string(), Val::List(vec![]));
        f.insert("is_recursive".to_string(), Val::Bool(false));
        Val::Ctor(k.into(), vec![Val::Ctor("SequenceOrSetOf".into(), vec![], f)], BTreeMap::new())
    };
    let mut shapes: Vec<(String, Val)> = vec![];
    for k in ["Sequence", "Set", "Choice", "Enumerated", "Boolean", "OctetString"] {
        shapes.push((k.to_string(), leaf(k)));
    }
    {
        // an element with a constraint of its own: the list is hoisted although the element is a builtin type
        let mut f = BTreeMap::new();
        f.insert("constraints".to_string(), Val::List(vec![Val::Opaque("constraint".into())]));
        f.insert("distinguished_values".to_string(), Val::none());
        shapes.push(("constrained INTEGER".to_string(), Val::Ctor("Integer".into(), vec![Val::Ctor("Integer".into(), vec![], f)], BTreeMap::new())));
    }
    let mut e = BTreeMap::new();
    e.insert("identifier".to_string(), Val::Str("Other".into()));
    e.insert("module".to_string(), Val::none());
    e.insert("constraints".to_string(), Val::List(vec![]));
    shapes.push(("type reference".into(), Val::Ctor("ElsewhereDeclaredType".into(), vec![Val::Ctor("DeclarationElsewhere".into(), vec![], e)], BTreeMap::new())));
    for depth in 1..=3 {
        let base: Vec<(String, Val)> = shapes.iter().filter(|(n, _)| n.matches(" OF ").count() == depth - 1).cloned().collect();
        for (n, v) in base {
            for k in ["SequenceOf", "SetOf"] {
                shapes.push((format!("{} OF {}", if k == "SequenceOf" { "SEQUENCE" } else { "SET" }, n), of(k, v.clone())));
            }
        }
    }
    let p_nu: Vec<String> = nu.sig.inputs.iter().filter_map(|a| match a { syn::FnArg::Typed(t) => Some(tok(&t.pat)), _ => None }).collect();
    let p_ct: Vec<String> = ct.sig.inputs.iter().filter_map(|a| match a { syn::FnArg::Typed(t) => Some(tok(&t.pat)), _ => None }).collect();
    let mut n = 0;
    for (name, v) in &shapes {
        if name == "constrained INTEGER" {
            continue; // only meant as an element type
        }
        n += 1;
        ctx.oblige(rule, name, name.contains(" OF "));
        let mut e1 = Env::new();
        e1.insert(p_nu.first().cloned().unwrap_or("ty".into()), v.clone());
        let hoisted = match ev.eval_fn_body(&nu.block, &mut e1) {
            Ok(Val::Bool(b)) => b,
            Ok(o) => { ctx.fail_closed(rule, &format!("[needs_unnesting {}]: {}", name, o.show())); continue }
            Err(e) => { ctx.fail_closed(rule, &format!("[needs_unnesting {}]: {}", name, e)); continue }
        };
        // a hoisted component (needs_unnesting) is declared with its `<Parent><Field>` inner type; the function generated for its
        // DEFAULT is declared with type_to_tokens(component type) — where that succeeds with a structural type the two differ
        if hoisted && name.contains(" OF ") {
            if let Some(tt) = m.fns.iter().find(|f| f.name == "type_to_tokens" && f.self_ty.as_deref() == Some("Rasn")) {
                let p_tt: Vec<String> = tt.sig.inputs.iter().filter_map(|a| match a { syn::FnArg::Typed(t) => Some(tok(&t.pat)), _ => None }).collect();
                let mut e3 = Env::new();
                e3.insert("self".into(), Val::ctor("Rasn"));
                e3.insert(p_tt.first().cloned().unwrap_or("ty".into()), v.clone());
                if let Ok(Val::Ctor(ok, p, _)) = ev.eval_fn_body(&tt.block, &mut e3) {
                    if ok == "Ok" {
                        let helper = p.first().map(|x| x.show()).unwrap_or_default();
                        ctx.oblige(rule, &format!("default-helper-type:{}", name), true);
                        if !helper.contains("INNER") {
                            ctx.violate(rule, "default-helper-type-of-hoisted-member", &tt.file, tt.line,
                                &format!("a component of type `{}` is hoisted (declared with its `<Parent><Field>` inner type), but the function generated for its DEFAULT is declared `-> {}` (type_to_tokens): `S ::= SEQUENCE {{ n SET OF INTEGER (0..9) DEFAULT {{ 7, 8 }} }}` emits `pub n: SN` with `fn s_n_default() -> SetOf<u8>` (E0308)", name, helper));
                        }
                    }
                }
            }
        }
        if name.contains("constrained INTEGER") {
            continue; // the rendering of a constrained element is C04/C06's business
        }
        let mut e2 = Env::new();
        e2.insert("self".into(), Val::ctor("Rasn"));
        for (i, p) in p_ct.iter().enumerate() {
            e2.insert(p.clone(), match i { 0 => v.clone(), 1 => Val::Str("field".into()), 2 => Val::Str("Parent".into()), _ => Val::Bool(false) });
        }
        let rendered = match ev.eval_fn_body(&ct.block, &mut e2) {
            Ok(Val::Ctor(ok, p, _)) if ok == "Ok" => match p.first() {
                Some(Val::Tuple(t)) if t.len() == 2 => t[1].show(),
                o => { ctx.fail_closed(rule, &format!("[constraints_and_type_name {}]: {:?}", name, o.map(|x| x.show()))); continue }
            },
            Ok(o) => { ctx.fail_closed(rule, &format!("[constraints_and_type_name {}]: {}", name, o.show())); continue }
            Err(e) => { ctx.fail_closed(rule, &format!("[constraints_and_type_name {}]: {}", name, e)); continue }
        };
        if rendered.contains("INNER") && !hoisted {
            ctx.violate(rule, &format!("inner-type-not-defined:{}", name.replace(' ', "_")), &nu.file, nu.line,
                &format!("a component of type `{}` is rendered as `{}` (INNER = the `<Parent><Field>` inner type) but needs_unnesting() is false for it: the inner type is referred to and never defined (E0425 in the generated bindings)", name, rendered));
        }
    }
    ctx.floor(&format!("{}/shapes", rule), n, 100);
}


/// C01.kw: the string array the manglers consult (the one containing `fn` and `struct`) lists every strict and reserved keyword of
/// ref/rust_keywords.json.
fn keyword_table(m: &Model, ctx: &mut Ctx) {
    let rule = "C01.kw";
    let reference: serde_json::Value = match std::fs::read_to_string(ctx.verif.join("ref/rust_keywords.json")).ok().and_then(|s| serde_json::from_str(&s).ok()) {
        Some(v) => v,
        None => { ctx.fail_closed(rule, "ref/rust_keywords.json missing"); return; }
    };
    let table = m.consts.iter().filter_map(|c| str_array(&c.expr).map(|v| (c, v))).find(|(_, v)| v.iter().any(|s| s == "fn") && v.iter().any(|s| s == "struct"));
    let Some((tc, table)) = table else {
        ctx.fail_closed(rule, "keyword table (string array containing \"fn\" and \"struct\") not found");
        return;
    };
    let mut n = 0;
    for class in ["strict", "reserved"] {
        for k in reference[class].as_array().cloned().unwrap_or_default().iter().filter_map(|v| v.as_str().map(|s| s.to_string())) {
            n += 1;
            ctx.oblige(rule, &k, true);
            if !table.contains(&k) {
                ctx.violate(rule, &format!("missing-keyword:{}", k), &tc.file, tc.line,
                    &format!("`{}` is a {} Rust keyword but is not in {}: a component, alternative or enumeral named `{}` is emitted unescaped (`pub {}: u8`) and the generated text does not parse as Rust items", k, class, tc.name, k, k));
            }
        }
    }
    ctx.floor("C01.kw/keywords", n, 50);
}
