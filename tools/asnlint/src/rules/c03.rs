//! C03 — tags and tagging mode follow X.680 under the module's tagging environment.
//!
//! Decided statically: the composed decision table
//!   header clause -> TaggingEnvironment (H)
//!   tag keyword   -> TaggingEnvironment (K, absent = inherit)
//!   class keyword -> TagClass           (CL)
//!   module default (+) tag keyword      (A = `Add for &TaggingEnvironment`, as used by the tagging pass)
//!   AsnTag -> rasn `tag(..)` annotation (R = format_tag)
//! over {EXPLICIT, IMPLICIT, AUTOMATIC, none} x {none, IMPLICIT, EXPLICIT} x
//! {context, APPLICATION, PRIVATE, UNIVERSAL} = 48 cells, against X.680 §31.2.7/§13.2;
//! the CHOICE override; coverage of every `Option<AsnTag>` position by the tagging pass and by
//! the renderer; and the `automatic_tags` guard at both sites.
use crate::eval::{Env, Evaluator, Val};
use crate::model::{self, tok, FnInfo, Model};
use crate::report::Ctx;
use crate::rules::util::*;
use serde_json::json;
use std::cell::RefCell;
use std::collections::BTreeMap;

const P: &str = "C03";

fn tagenv(name: &str) -> Val {
    Val::ctor(name)
}

pub fn mk_tag(env: &str, class: &str, id: i128) -> Val {
    let mut n = BTreeMap::new();
    n.insert("environment".to_string(), tagenv(env));
    n.insert("tag_class".to_string(), Val::ctor(class));
    n.insert("id".to_string(), Val::int(id));
    Val::Ctor("AsnTag".into(), vec![], n)
}

fn ctor_name(v: &Val) -> Option<String> {
    match v {
        Val::Ctor(n, _, _) => Some(n.clone()),
        _ => None,
    }
}

fn field<'a>(v: &'a Val, f: &str) -> Option<&'a Val> {
    match v {
        Val::Ctor(_, _, n) => n.get(f),
        _ => None,
    }
}

/// collect `tag(CONST)` arguments (resolved to their string) appearing in a fn
fn tag_keywords(f: &FnInfo, consts: &dyn Fn(&str) -> Option<Val>) -> Vec<String> {
    let mut out = vec![];
    for c in model::calls_in(&f.block) {
        if model::callee_name(&c).as_deref() == Some("tag") && c.args.len() == 1 {
            let a = tok(&c.args[0]);
            if let Some(Val::Str(s)) = consts(&a) {
                out.push(s);
            } else if let syn::Expr::Lit(l) = &c.args[0] {
                if let syn::Lit::Str(s) = &l.lit {
                    out.push(s.value());
                }
            }
        }
    }
    out
}

pub struct Tables {
    /// header keyword (None = no TAGS clause) -> env
    pub h: BTreeMap<Option<String>, String>,
    /// tag keyword -> env
    pub k: BTreeMap<String, String>,
    pub class_keywords: Vec<String>,
}

pub fn run(m: &Model, ctx: &mut Ctx) {
    ctx.explanation = "Static decision of the named structural clauses of C03, not of the DER behaviour as a whole: \
(1) C03.tables: the header->environment, tag-keyword->environment, class-keyword->class, module-default(+)keyword \
and AsnTag->annotation tables are extracted from the syntax trees of environments(), asn_tag(), AsnTag::from, \
Add for &TaggingEnvironment, apply_tagging_environment() and Rasn::format_tag() by exhaustive case analysis over \
their finite enum/keyword domains, composed, and all 48 cells compared with X.680 31.2.7/13.2 (ref/x680_tagging.json); \
the top-level CHOICE override of generate_choice() is evaluated for the 3 backend environments; \
(2) C03.coverage: every IR field of type Option<AsnTag> must be written by the tagging pass (recursively through nested types) \
and must flow into format_tag in the rasn generator; the pass and set_module_header receive the same header; \
(3) C03.auto: automatic_tags is pushed iff environment == Automatic and no component carries a tag, at both sites, \
decided by exhaustive evaluation of the guard over environment x {no, some tagged components}."
        .into();
    ctx.assumptions = vec![
        "rasn's derive implements tag(explicit(..)), tag(..) and automatic_tags as X.690/X.680 describe (trusted)".into(),
        "nom's tag/alt/opt/value combinators behave as documented".into(),
        "ref/x680_tagging.json is a faithful transcription of X.680 §31.2.7, §13.2".into(),
    ];
    ctx.rule("table composition over {4 header clauses} x {3 tag keywords} x {4 classes}; position coverage; guard truth tables");

    let consts = const_resolver(m);
    let reference = load_ref(ctx);

    // the tagging pass is one of the sibling traversals of ASN1Type: it must visit every container kind (shared with C09)
    crate::rules::c09::traverse(m, ctx, "C03.traverse");

    // ---------------- H ----------------
    let mut h: BTreeMap<Option<String>, String> = BTreeMap::new();
    let mut h_site = (String::new(), 0usize);
    {
        // content-discovered: the match all of whose arms yield a TaggingEnvironment variant path,
        // with a non-tuple scrutinee, in the lexer
        let mut cands = vec![];
        for f in m.fns.iter().filter(|f| f.module.starts_with("lexer")) {
            for mt in model::matches_in(&f.block) {
                if mt.arms.is_empty() || matches!(&*mt.expr, syn::Expr::Tuple(_)) {
                    continue;
                }
                if mt.arms.iter().all(|a| tok(&a.body).starts_with("TaggingEnvironment::")) {
                    cands.push((f, mt));
                }
            }
        }
        if cands.len() != 1 {
            ctx.fail_closed("C03.tables", &format!("header TAGS table: expected exactly one match yielding TaggingEnvironment in the lexer, found {}", cands.len()));
        } else {
            let (f, mt) = &cands[0];
            ctx.func(&f.key);
            ctx.anchor(&format!("H table: match in {} @ {}:{}", f.key, f.file, span_line(mt)));
            h_site = (f.file.clone(), span_line(mt));
            let kws: Vec<String> = tag_keywords(f, &consts)
                .into_iter()
                .filter(|k| ["AUTOMATIC", "IMPLICIT", "EXPLICIT"].contains(&k.as_str()))
                .collect();
            let mut kwset: Vec<String> = kws.clone();
            kwset.sort();
            kwset.dedup();
            if kwset != vec!["AUTOMATIC".to_string(), "EXPLICIT".to_string(), "IMPLICIT".to_string()] {
                ctx.violate("C03.tables", "H:keyword-set", &f.file, f.line,
                    &format!("the header parser accepts TAGS keywords {:?}; X.680 §13.2 has exactly AUTOMATIC, EXPLICIT, IMPLICIT", kwset));
            }
            let ev = Evaluator { consts: &consts, call_hook: &crate::eval::no_hook, inline: None };
            let mut dom: Vec<(Option<String>, Val)> = vec![(None, Val::none())];
            for k in ["EXPLICIT", "IMPLICIT", "AUTOMATIC"] {
                dom.push((Some(k.to_string()), Val::some(Val::Str(k.to_string()))));
            }
            for (k, v) in dom {
                match ev.select_arm(mt, &v, &Env::new()) {
                    Ok((i, _)) => {
                        let r = tok(&mt.arms[i].body).replace("TaggingEnvironment::", "");
                        h.insert(k, r);
                    }
                    Err(e) => ctx.fail_closed("C03.tables", &format!("H table cell {:?}: {}", k, e)),
                }
            }
        }
    }

    // ---------------- K and class keywords (asn_tag) ----------------
    let mut k: BTreeMap<String, String> = BTreeMap::new();
    let mut class_kws: Vec<String> = vec![];
    let mut k_site = (String::new(), 0usize);
    if let Some(f) = anchor_fn(m, ctx, "C03.tables", None, "asn_tag", Some("lexer")) {
        k_site = (f.file.clone(), f.line);
        for c in model::calls_in(&f.block) {
            if model::callee_name(&c).as_deref() == Some("value") && c.args.len() == 2 {
                let a = tok(&c.args[0]);
                if let Some(envname) = a.strip_prefix("TaggingEnvironment::") {
                    if let syn::Expr::Call(tc) = &c.args[1] {
                        if model::callee_name(tc).as_deref() == Some("tag") {
                            if let Some(Val::Str(kw)) = consts(&tok(&tc.args[0])) {
                                k.insert(kw, envname.to_string());
                            }
                        }
                    }
                }
            }
        }
        class_kws = tag_keywords(f, &consts)
            .into_iter()
            .filter(|s| !k.contains_key(s))
            .collect();
        class_kws.sort();
        class_kws.dedup();
    }
    if k.len() < 2 {
        ctx.fail_closed("C03.tables", "tag keyword table K: fewer than two value(TaggingEnvironment::_, tag(_)) pairs found in asn_tag");
    }
    {
        let mut want = vec!["APPLICATION".to_string(), "PRIVATE".to_string(), "UNIVERSAL".to_string()];
        want.sort();
        if class_kws != want {
            ctx.violate("C03.tables", "CL:keyword-set", &k_site.0, k_site.1,
                &format!("the tag parser accepts class keywords {:?}; X.680 §31.1 has exactly APPLICATION, PRIVATE, UNIVERSAL", class_kws));
        }
    }

    // ---------------- AsnTag::from (CL + absent keyword) ----------------
    let from_fn = {
        let c: Vec<&FnInfo> = m.fns.iter().filter(|f| f.name == "from" && f.self_ty.as_deref() == Some("AsnTag")).collect();
        if c.len() == 1 {
            ctx.func(&c[0].key);
            ctx.anchor(&format!("{} @ {}:{}", c[0].key, c[0].file, c[0].line));
            Some(c[0])
        } else {
            ctx.fail_closed("C03.tables", &format!("AsnTag::from: expected one, found {}", c.len()));
            None
        }
    };
    // ---------------- A ----------------
    let add_fn = anchor_trait_fn(m, ctx, "C03.tables", "&TaggingEnvironment", "Add", "add");
    // ---------------- apply pass ----------------
    let apply_fn = anchor_fn(m, ctx, "C03.tables", Some("ToplevelDefinition"), "apply_tagging_environment", None);
    // ---------------- R ----------------
    let fmt_fn = anchor_fn(m, ctx, "C03.tables", Some("Rasn"), "format_tag", None);

    let (Some(from_fn), Some(add_fn), Some(apply_fn), Some(fmt_fn)) = (from_fn, add_fn, apply_fn, fmt_fn) else {
        return;
    };

    let add_param_names: Vec<String> = add_fn
        .sig
        .inputs
        .iter()
        .map(|a| match a {
            syn::FnArg::Receiver(_) => "self".to_string(),
            syn::FnArg::Typed(t) => tok(&t.pat),
        })
        .collect();
    let consts2 = const_resolver(m);
    let add_eval = |ev: &Evaluator, l: &Val, r: &Val| -> Result<Val, String> {
        let mut env = Env::new();
        env.insert(add_param_names[0].clone(), l.clone());
        env.insert(add_param_names.get(1).cloned().unwrap_or("rhs".into()), r.clone());
        ev.eval_fn_body(&add_fn.block, &mut env)
    };
    let hook = |ev: &Evaluator, name: &str, args: &[Val]| -> Option<Result<Val, String>> {
        if name == "op:add" && args.len() == 2 {
            if let (Val::Ctor(..), Val::Ctor(..)) = (&args[0], &args[1]) {
                return Some(add_eval(ev, &args[0], &args[1]));
            }
        }
        None
    };
    let ev = Evaluator { consts: &consts2, call_hook: &hook, inline: None };

    // A must be total over 3x3 and return a TaggingEnvironment
    let envs = ["Automatic", "Implicit", "Explicit"];
    let mut a_table = BTreeMap::new();
    for l in envs {
        for r in envs {
            match add_eval(&ev, &tagenv(l), &tagenv(r)) {
                Ok(v) => {
                    ctx.oblige("C03.tables/A", &format!("A({},{})", l, r), true);
                    a_table.insert((l, r), ctor_name(&v).unwrap_or(v.show()));
                }
                Err(e) => ctx.fail_closed("C03.tables", &format!("A({},{}): {}", l, r, e)),
            }
        }
    }

    // reconstruction sites in the pass
    let from_param = match from_fn.sig.inputs.first() {
        Some(syn::FnArg::Typed(t)) => tok(&t.pat),
        _ => "value".into(),
    };
    let apply_env_param: Option<String> = apply_fn.sig.inputs.iter().find_map(|a| match a {
        syn::FnArg::Typed(t) if tok(&t.ty).contains("TaggingEnvironment") => Some(tok(&t.pat)),
        _ => None,
    });
    let Some(apply_env_param) = apply_env_param else {
        ctx.fail_closed("C03.tables", "apply_tagging_environment has no TaggingEnvironment parameter");
        return;
    };
    // the pass: every fn of that name (the definition-level entry and the recursive walk over the type)
    let pass_fns: Vec<&FnInfo> = m.fns.iter().filter(|f| f.krate == "rasn-compiler" && f.name == "apply_tagging_environment").collect();
    let sites = reconstruction_sites(m, &pass_fns);
    ctx.floor("C03.tables/reconstruction-sites", sites.len(), 3);
    let aliases = tuple_aliases(apply_fn, &apply_env_param);

    // format_tag param
    let fmt_param: String = fmt_fn
        .sig
        .inputs
        .iter()
        .find_map(|a| match a {
            syn::FnArg::Typed(t) => Some(tok(&t.pat)),
            _ => None,
        })
        .unwrap_or("tag".into());

    let render = |tagv: &Val| -> Result<String, String> {
        let mut env = Env::new();
        env.insert(fmt_param.clone(), Val::some(tagv.clone()));
        env.insert("self".into(), Val::ctor("Rasn"));
        match ev.eval_fn_body(&fmt_fn.block, &mut env)? {
            Val::Sym(s) => Ok(s),
            o => Err(format!("format_tag returned {}", o.show())),
        }
    };

    // the number is rendered verbatim: X.680 puts no upper limit on it, the IR carries a u64
    for id in [0i128, 30, 31, 16383, 4_294_967_295, 4_294_967_301, 18_446_744_073_709_551_615] {
        ctx.oblige("C03.tables", &format!("number:{}", id), true);
        let mut f = BTreeMap::new();
        f.insert("id".to_string(), Val::int(id));
        f.insert("tag_class".to_string(), Val::ctor("ContextSpecific"));
        f.insert("environment".to_string(), Val::ctor("Implicit"));
        let t = Val::Ctor("AsnTag".into(), vec![], f);
        match render(&t) {
            Ok(s) => {
                let compact: String = s.chars().filter(|c| !c.is_whitespace()).collect();
                if compact != format!("tag(context,{})", id) {
                    ctx.violate("C03.tables", "number-rendered-verbatim", &fmt_fn.file, fmt_fn.line,
                        &format!("format_tag renders tag number {} as `{}`: the annotation must carry the number as written (no narrowing; a reduced number collides with another tag)", id, compact));
                    break;
                }
            }
            Err(e) => ctx.fail_closed("C03.tables", &format!("format_tag [number {}]: {}", id, e)),
        }
    }

    let class_of_kw = |kw: Option<&str>| -> &'static str {
        match kw {
            None => "context",
            Some("APPLICATION") => "application",
            Some("PRIVATE") => "private",
            Some("UNIVERSAL") => "universal",
            _ => "?",
        }
    };

    // ---------------- composed cells ----------------
    let header_clauses: Vec<Option<&str>> = vec![Some("EXPLICIT"), Some("IMPLICIT"), Some("AUTOMATIC"), None];
    let tag_kws: Vec<Option<&str>> = vec![None, Some("IMPLICIT"), Some("EXPLICIT")];
    let class_dom: Vec<Option<&str>> = vec![None, Some("APPLICATION"), Some("PRIVATE"), Some("UNIVERSAL")];
    const ID: i128 = 4711;
    let mut cells = 0;
    for hc in &header_clauses {
        let Some(h_env) = h.get(&hc.map(|s| s.to_string())) else { continue };
        for tk in &tag_kws {
            for ck in &class_dom {
                cells += 1;
                let cell = format!("module={} keyword={} class={}", hc.unwrap_or("none"), tk.unwrap_or("none"), ck.unwrap_or("context"));
                ctx.oblige("C03.tables/cell", &cell, true);
                // parse: AsnTag::from(((class kw, id), K(tk)))
                let kwv = match tk {
                    None => Val::none(),
                    Some(t) => match k.get(*t) {
                        Some(e) => Val::some(tagenv(e)),
                        None => {
                            ctx.violate("C03.tables", &format!("K({})-missing", t), &k_site.0, k_site.1,
                                &format!("the tag parser does not recognise the keyword {} after a tag", t));
                            continue;
                        }
                    },
                };
                let arg = Val::Tuple(vec![
                    Val::Tuple(vec![ck.map(|c| Val::some(Val::Str(c.to_string()))).unwrap_or(Val::none()), Val::int(ID)]),
                    kwv,
                ]);
                let mut env = Env::new();
                env.insert(from_param.clone(), arg);
                let tag0 = match ev.eval_fn_body(&from_fn.block, &mut env) {
                    Ok(v) => v,
                    Err(e) => {
                        ctx.fail_closed("C03.tables", &format!("AsnTag::from [{}]: {}", cell, e));
                        continue;
                    }
                };
                // every reconstruction site of the tagging pass must give the same, correct result
                let expected_explicit = reference.expect_explicit(*hc, *tk);
                for (si, site) in sites.iter().enumerate() {
                    let mut env = Env::new();
                    env.insert(apply_env_param.clone(), tagenv(h_env));
                    for a in &aliases {
                        env.insert(a.clone(), tagenv(h_env));
                    }
                    if let Some(p) = &site.env_param {
                        env.insert(p.clone(), tagenv(h_env));
                    }
                    env.insert(site.tag_var.clone(), tag0.clone());
                    let tag1 = match ev.eval(&syn::Expr::Struct(site.expr.clone()), &mut env) {
                        Ok(v) => v,
                        Err(e) => {
                            ctx.fail_closed("C03.tables", &format!("tagging pass site #{} ({}): {}", si, site.target, e));
                            continue;
                        }
                    };
                    // number and class carried unchanged
                    if field(&tag1, "id") != field(&tag0, "id") || field(&tag1, "tag_class") != field(&tag0, "tag_class") {
                        ctx.violate("C03.tables", &format!("pass-site-{}:class/number-not-preserved", site.target), &apply_fn.file, span_line(&site.expr),
                            &format!("the tagging pass rebuilds the tag of `{}` without preserving class and number: {} -> {}", site.target, tag0.show(), tag1.show()));
                        continue;
                    }
                    let rendered = match render(&tag1) {
                        Ok(s) => s,
                        Err(e) => {
                            ctx.fail_closed("C03.tables", &format!("format_tag [{}]: {}", cell, e));
                            continue;
                        }
                    };
                    let cls = class_of_kw(*ck);
                    let want = if expected_explicit {
                        format!("tag(explicit({},{}))", cls, ID)
                    } else {
                        format!("tag({},{})", cls, ID)
                    };
                    if rendered.replace(' ', "") != want {
                        // which table is at fault?
                        let key;
                        let msg;
                        let (file, line);
                        let want_other = if !expected_explicit { format!("tag(explicit({},{}))", cls, ID) } else { format!("tag({},{})", cls, ID) };
                        if rendered.replace(' ', "") == want_other {
                            key = format!("cell:module={},keyword={}:explicitness", hc.unwrap_or("none"), tk.unwrap_or("none"));
                            msg = format!("[{}] at `{}`: rendered `{}`, X.680 §31.2.7/§13.2 requires {} tagging (H={} K={:?} A-result={})",
                                cell, site.target, rendered, if expected_explicit { "EXPLICIT" } else { "IMPLICIT" }, h_env,
                                tk.and_then(|t| k.get(t)), field(&tag1, "environment").map(|v| v.show()).unwrap_or_default());
                            file = h_site.0.clone();
                            line = h_site.1;
                        } else {
                            key = format!("cell:class={}:rendering", ck.unwrap_or("context"));
                            msg = format!("[{}] at `{}`: rendered `{}`, expected `{}`", cell, site.target, rendered, want);
                            file = fmt_fn.file.clone();
                            line = fmt_fn.line;
                        }
                        ctx.violate("C03.tables", &key, &file, line, &msg);
                    }
                    if si == 0 && cells % 7 == 1 {
                        ctx.sample(json!({"cell": cell, "parsed": tag0.show(), "after_pass": tag1.show(), "rendered": rendered, "expected_explicit": expected_explicit}));
                    }
                }
            }
        }
    }
    ctx.floor("C03.tables/cells", cells, 48);
    ctx.extra.insert("tables".into(), json!({
        "H": h.iter().map(|(k, v)| (k.clone().unwrap_or("none".into()), v.clone())).collect::<BTreeMap<_, _>>(),
        "K": k,
        "A": a_table.iter().map(|((l, r), v)| (format!("{}+{}", l, r), v.clone())).collect::<BTreeMap<_, _>>(),
        "class_keywords": class_kws,
    }));

    // operand roles of `+` in the pass: left = module default, right = the tag's own keyword.
    // (checked implicitly by the cells; reported separately for diagnosis)

    choice_override(m, ctx, &ev, &render);
    nested_choice_override(m, ctx);
    coverage(m, ctx, apply_fn, &pass_fns, &sites);
    pass_evaluated(m, ctx);
    auto_tags(m, ctx, &ev);
    crate::rules::c05::member_annotations(m, ctx, "C03.member", "tag");
    header_flow(m, ctx, "C03.header");
    reset_rule(m, ctx, "C03.env", "tagging_environment");
    // tags survive the rebuild of a type that mentions a class field (shared with C02.rebuild)
    crate::rules::c02::rebuild(m, ctx, "C03.rebuild");
}

pub struct Site {
    pub expr: syn::ExprStruct,
    /// variable the original tag is bound to (closure parameter)
    pub tag_var: String,
    /// assignment target, e.g. `ty.tag`, `m.tag`
    pub target: String,
    /// name of the environment parameter when the literal sits in a helper method of AsnTag
    pub env_param: Option<String>,
}

/// `X.tag = Y.tag.as_ref().map(|t| AsnTag { .. })` sites
/// The places where the tagging pass rebuilds a tag: `X.tag = X.tag.as_ref().map(|t| AsnTag { .. })` written out, or
/// `.. .map(|t| t.helper(env))` where `helper` is a method of AsnTag whose body is the `AsnTag { .. }` literal. The pass may
/// be spread over several fns of that name (the top-level definition and the recursive walk over ASN1Type).
fn reconstruction_sites(m: &Model, pass: &[&FnInfo]) -> Vec<Site> {
    struct C<'a> {
        m: &'a Model,
        out: Vec<Site>,
    }
    impl<'a> model::DeepCb for C<'a> {
        fn expr(&mut self, e: &syn::Expr) {
            if let syn::Expr::Assign(a) = e {
                let target = tok(&a.left);
                struct D<'a> {
                    m: &'a Model,
                    found: Option<(String, syn::ExprStruct, Option<String>)>,
                }
                impl<'a> model::DeepCb for D<'a> {
                    fn expr(&mut self, e: &syn::Expr) {
                        if let syn::Expr::Closure(cl) = e {
                            match &*cl.body {
                                syn::Expr::Struct(st) if st.path.segments.last().map(|s| s.ident == "AsnTag").unwrap_or(false) => {
                                    if let Some(p) = cl.inputs.first() {
                                        self.found = Some((tok(p), st.clone(), None));
                                    }
                                }
                                // |t| t.helper(env)
                                syn::Expr::MethodCall(mc) if cl.inputs.first().map(|p| tok(p)) == Some(tok(&mc.receiver)) => {
                                    let name = mc.method.to_string();
                                    if let Some(h) = self.m.fns.iter().find(|f| f.name == name && f.self_ty.as_deref() == Some("AsnTag")) {
                                        let lit = match h.block.stmts.last() {
                                            Some(syn::Stmt::Expr(syn::Expr::Struct(st), None)) => Some(st.clone()),
                                            _ => None,
                                        };
                                        let envp = h.sig.inputs.iter().find_map(|a| match a { syn::FnArg::Typed(t) => Some(tok(&t.pat)), _ => None });
                                        if let Some(st) = lit {
                                            self.found = Some(("self".to_string(), st, envp));
                                        }
                                    }
                                }
                                _ => {}
                            }
                        }
                    }
                }
                let mut d = D { m: self.m, found: None };
                model::deep_walk_expr(&a.right, &mut d);
                if let Some((v, st, envp)) = d.found {
                    self.out.push(Site { expr: st, tag_var: v, target, env_param: envp });
                }
            }
        }
    }
    let mut c = C { m, out: vec![] };
    for f in pass {
        model::deep_walk_block(&f.block, &mut c);
    }
    c.out
}

/// names bound positionally to `param` through `(a, ..) = (param, ..)` patterns
fn tuple_aliases(f: &FnInfo, param: &str) -> Vec<String> {
    struct C<'a> {
        param: &'a str,
        out: Vec<String>,
    }
    impl<'a> model::DeepCb for C<'a> {
        fn expr(&mut self, e: &syn::Expr) {
            if let syn::Expr::Let(l) = e {
                if let (syn::Pat::Tuple(pt), syn::Expr::Tuple(et)) = (&*l.pat, &*l.expr) {
                    for (p, x) in pt.elems.iter().zip(et.elems.iter()) {
                        if tok(x) == self.param || tok(x) == format!("&{}", self.param) {
                            if let syn::Pat::Ident(pi) = p {
                                self.out.push(pi.ident.to_string());
                            }
                        }
                    }
                }
            }
        }
    }
    let mut c = C { param, out: vec![] };
    model::deep_walk_block(&f.block, &mut c);
    c.out
}

struct Reference {
    cells: BTreeMap<(String, String), bool>,
}

impl Reference {
    fn expect_explicit(&self, module: Option<&str>, kw: Option<&str>) -> bool {
        *self
            .cells
            .get(&(module.unwrap_or("none").to_string(), kw.unwrap_or("none").to_string()))
            .unwrap_or(&false)
    }
}

fn load_ref(ctx: &mut Ctx) -> Reference {
    let p = ctx.verif.join("ref/x680_tagging.json");
    let mut cells = BTreeMap::new();
    match std::fs::read_to_string(&p).ok().and_then(|s| serde_json::from_str::<serde_json::Value>(&s).ok()) {
        Some(v) => {
            for c in v["cells"].as_array().cloned().unwrap_or_default() {
                cells.insert(
                    (c["module_default"].as_str().unwrap_or("").to_string(), c["tag_keyword"].as_str().unwrap_or("").to_string()),
                    c["explicit"].as_bool().unwrap_or(false),
                );
            }
        }
        None => ctx.fail_closed("C03.tables", "reference table ref/x680_tagging.json missing or unreadable"),
    }
    if cells.len() != 12 {
        ctx.fail_closed("C03.tables", &format!("reference table has {} cells, expected 12", cells.len()));
    }
    Reference { cells }
}

/// C03.choice (nested positions): X.680 31.2.7 c) makes a tag explicit when the tagged type is an untagged CHOICE or open type,
/// whatever keyword or module default — for a component, an alternative, an element and a type assignment whose type is a
/// *reference* to such a type just as for `T ::= [5] CHOICE { .. }` (which generate_choice handles). Somewhere between parsing
/// and rendering the tag's environment has to be forced to Explicit depending on the *tagged type*: every place of the crate
/// that builds or assigns an explicit environment is listed, and at least one of them must look at a component's / alternative's
/// type or at the definitions map (a reference has to be resolved to know that it names a CHOICE).
fn nested_choice_override(m: &Model, ctx: &mut Ctx) {
    ctx.oblige("C03.choice", "nested-positions", true);
    let mut forcing: Vec<(String, bool)> = vec![];
    for f in m.fns.iter().filter(|f| f.krate == "rasn-compiler" && !f.module.contains("tests")) {
        let b = tok(&f.block);
        if b.contains("environment:TaggingEnvironment::Explicit") || b.contains(".environment=TaggingEnvironment::Explicit") || b.contains("environment=TaggingEnvironment::Explicit") {
            // does it decide per tagged component / alternative / referenced type?
            let per_position = (b.contains(".members") || b.contains(".options") || b.contains("element_type") || b.contains("tlds")) && f.name != "generate_choice";
            forcing.push((f.key.clone(), per_position));
        }
    }
    ctx.sample(json!({"explicit_forcing_sites": forcing.iter().map(|(k, p)| format!("{} (per position: {})", k, p)).collect::<Vec<_>>()}));
    if !forcing.iter().any(|(_, p)| *p) {
        ctx.violate("C03.choice", "nested-positions-never-forced-explicit", "rasn-compiler/src/intermediate/mod.rs", 0,
            &format!("a tag is forced explicit for a CHOICE only in {:?} (the type assignment `T ::= [5] CHOICE {{ .. }}`): in a module with IMPLICIT or AUTOMATIC TAGS `d [3] Cc` (Cc ::= CHOICE), `e [4] CHOICE {{ .. }}`, an alternative `inner [2] Cc`, `F ::= [5] Cc`, `val [1] CLS.&Type` and `A ::= [8] ANY` are all emitted as `tag(context, n)` — implicit — where X.680 31.2.7 c) makes them explicit", forcing.iter().map(|(k, _)| k.rsplit("::").next().unwrap_or(k).to_string()).collect::<Vec<_>>()));
    }
}

/// X: a tag on a top-level CHOICE is rendered explicit whenever the backend environment is not Explicit.
fn choice_override(m: &Model, ctx: &mut Ctx, ev0: &Evaluator, render: &dyn Fn(&Val) -> Result<String, String>) {
    let Some(f) = anchor_fn(m, ctx, "C03.choice", Some("Rasn"), "generate_choice", None) else { return };
    // the `if let Some(_) = &<tld>.tag { .. }` statement
    struct C {
        out: Vec<syn::ExprIf>,
    }
    impl model::DeepCb for C {
        fn expr(&mut self, e: &syn::Expr) {
            if let syn::Expr::If(i) = e {
                if let syn::Expr::Let(l) = &*i.cond {
                    if tok(&l.expr).ends_with(".tag") && tok(&l.pat).starts_with("Some") {
                        self.out.push(i.clone());
                    }
                }
            }
        }
    }
    let mut c = C { out: vec![] };
    model::deep_walk_block(&f.block, &mut c);
    if c.out.len() != 1 {
        ctx.fail_closed("C03.choice", &format!("generate_choice: expected one `if let Some(_) = &tld.tag` statement, found {}", c.out.len()));
        return;
    }
    let stmt = c.out.remove(0);
    let tld_name = match f.sig.inputs.iter().nth(1) {
        Some(syn::FnArg::Typed(t)) => tok(&t.pat),
        _ => "tld".into(),
    };
    for backend_env in ["Implicit", "Automatic", "Explicit"] {
        for tag_env in ["Implicit", "Automatic", "Explicit"] {
            for class in ["ContextSpecific", "Application"] {
                let key = format!("backend={} tag={} class={}", backend_env, tag_env, class);
                ctx.oblige("C03.choice", &key, true);
                let tagv = mk_tag(tag_env, class, 77);
                let pushed: RefCell<Vec<Val>> = RefCell::new(vec![]);
                let hook = |ev: &Evaluator, name: &str, args: &[Val]| -> Option<Result<Val, String>> {
                    if let Some(r) = (ev0.call_hook)(ev, name, args) {
                        return Some(r);
                    }
                    if name == ".push" {
                        pushed.borrow_mut().push(args.get(1).cloned().unwrap_or(Val::Unit));
                        return Some(Ok(Val::Unit));
                    }
                    if name == ".format_tag" {
                        return Some(match args.get(1) {
                            Some(Val::Ctor(n, p, _)) if n == "Some" => render(&p[0]).map(Val::Sym),
                            Some(o) => Err(format!("format_tag called with {}", o.show())),
                            None => Err("format_tag without argument".into()),
                        });
                    }
                    None
                };
                let ev = Evaluator { consts: ev0.consts, call_hook: &hook, inline: None };
                let mut env = Env::new();
                let mut selfv = BTreeMap::new();
                selfv.insert("tagging_environment".to_string(), Val::ctor(backend_env));
                env.insert("self".into(), Val::Ctor("Rasn".into(), vec![], selfv));
                let mut tldv = BTreeMap::new();
                tldv.insert("tag".to_string(), Val::some(tagv.clone()));
                env.insert(tld_name.clone(), Val::Ctor("ToplevelTypeDefinition".into(), vec![], tldv));
                if let Err(e) = ev.eval(&syn::Expr::If(stmt.clone()), &mut env) {
                    ctx.fail_closed("C03.choice", &format!("[{}]: {}", key, e));
                    continue;
                }
                let p = pushed.borrow();
                let cls = if class == "ContextSpecific" { "context" } else { "application" };
                if p.len() != 1 {
                    ctx.violate("C03.choice", &format!("pushes:{}", key), &f.file, span_line(&stmt),
                        &format!("a tagged top-level CHOICE pushes {} tag annotations (expected exactly 1) for {}", p.len(), key));
                    continue;
                }
                let r = p[0].show().replace(' ', "");
                let want_explicit = format!("tag(explicit({},77))", cls);
                let want_implicit = format!("tag({},77)", cls);
                if backend_env != "Explicit" {
                    if r != want_explicit {
                        ctx.violate("C03.choice", &format!("override:backend={}", backend_env), &f.file, span_line(&stmt),
                            &format!("X.680 §31.2.7 c: a tag on a CHOICE must be explicit; in a {} module the tag [{}] is rendered `{}`", backend_env, key, r));
                    }
                } else if r != want_explicit && r != want_implicit {
                    ctx.violate("C03.choice", "override:backend=Explicit:class/number", &f.file, span_line(&stmt),
                        &format!("tag on CHOICE rendered `{}`: class or number not preserved ({})", r, key));
                }
                if backend_env == "Automatic" && tag_env == "Automatic" && class == "Application" {
                    ctx.sample(json!({"choice_override": key, "rendered": r}));
                }
            }
        }
    }
}

/// every `Option<AsnTag>` field: written by the pass, rendered by the generator; nested types visited
fn coverage(m: &Model, ctx: &mut Ctx, apply_fn: &FnInfo, pass_fns: &[&FnInfo], sites: &[Site]) {
    // positions
    let mut positions: Vec<(String, String)> = vec![];
    for s in m.structs.iter().filter(|s| s.module.starts_with("intermediate")) {
        for (fname, fty, _) in &s.fields {
            if fty.replace(' ', "") == "Option<AsnTag>" {
                positions.push((s.name.clone(), fname.clone()));
            }
        }
    }
    ctx.floor("C03.coverage/positions", positions.len(), 4);
    let written: Vec<String> = sites.iter().map(|s| s.target.rsplit('.').next().unwrap_or("").to_string()).collect();
    // which struct does each written target belong to? by the field name + iteration source
    let body: String = pass_fns.iter().map(|f| tok(&f.block)).collect::<Vec<_>>().join(" ");
    for (st, fname) in &positions {
        let key = format!("{}.{}", st, fname);
        ctx.oblige("C03.coverage/pass", &key, true);
        let source_hint = match st.as_str() {
            "SequenceOrSetMember" => "members",
            "ChoiceOption" => "options",
            "SequenceOrSetOf" => fname.as_str(),
            _ => "",
        };
        let ok = written.iter().any(|w| w == fname) && (source_hint.is_empty() || body.contains(source_hint));
        if !ok {
            ctx.violate("C03.coverage", &format!("pass-does-not-write:{}", key), &apply_fn.file, apply_fn.line,
                &format!("the tagging pass never writes {} — a tag at this position keeps the parser's placeholder environment, so the module default is not applied", key));
        }
    }
    // recursion through nested types: the pass (or a fn it calls) must be applied to member / option / element types
    ctx.oblige("C03.coverage/nesting", "recursion", true);
    // recursive = one of the pass fns applies the pass (a fn of the same name) to a member / option / element type
    let recursive = pass_fns.iter().any(|f| {
        model::method_calls_in(&f.block).iter().any(|mc| mc.method == "apply_tagging_environment" && {
            let r = tok(&mc.receiver);
            r.ends_with(".ty") || r.ends_with(".element_type") || r.contains("element_type")
        })
    }) || {
        let calls = model::invoked_names(&apply_fn.block);
        m.fns.iter().any(|f| calls.contains(&f.name) && f.krate == "rasn-compiler" && tok(&f.block).contains("AsnTag{") && f.name != "apply_tagging_environment" && model::invoked_names(&f.block).contains(&f.name))
    };
    if !recursive {
        ctx.violate("C03.coverage", "nested-types-not-visited", &apply_fn.file, apply_fn.line,
            "the tagging pass is not recursive: tags on components of anonymous nested SEQUENCE/SET/CHOICE types (and on elements of nested SEQUENCE OF) never get the module default applied (X.680 §31.2.7 holds at every nesting depth)");
    }
    // ASN1Type variants handled by the pass
    for v in ["Sequence", "Set", "Choice"] {
        ctx.oblige("C03.coverage/variants", v, true);
        if !body.contains(&format!("ASN1Type::{}(", v)) {
            ctx.violate("C03.coverage", &format!("pass-skips-variant:{}", v), &apply_fn.file, apply_fn.line,
                &format!("the tagging pass has no arm for ASN1Type::{}", v));
        }
    }

    // renderer: each position must flow into format_tag in generator::rasn
    let gen_fns: Vec<&FnInfo> = m.fns.iter().filter(|f| f.module.starts_with("generator::rasn")).collect();
    let mut fmt_args: Vec<(String, String, usize, String)> = vec![];
    for f in &gen_fns {
        for mc in model::method_calls_in(&f.block) {
            if mc.method == "format_tag" {
                fmt_args.push((f.key.clone(), f.file.clone(), span_line(&mc), tok(&mc.args)));
            }
        }
    }
    ctx.floor("C03.coverage/format_tag-call-sites", fmt_args.len(), 8);
    // accessor methods returning a tag field (MemberOrOption::tag)
    let mut accessor: BTreeMap<String, Vec<String>> = BTreeMap::new();
    for f in m.fns.iter() {
        let b = tok(&f.block);
        for (_, fname) in &positions {
            if b.replace(' ', "") == format!("{{self.{}.as_ref()}}", fname) {
                accessor.entry(fname.clone()).or_default().push(f.name.clone());
            }
        }
    }
    for (st, fname) in &positions {
        let key = format!("{}.{}", st, fname);
        ctx.oblige("C03.coverage/render", &key, true);
        let direct = fmt_args.iter().any(|(_, _, _, a)| a.contains(&format!(".{}", fname)));
        let via = accessor
            .get(fname)
            .map(|acc| fmt_args.iter().any(|(_, _, _, a)| acc.iter().any(|n| a.contains(&format!(".{}()", n)))))
            .unwrap_or(false);
        let holders: Vec<&str> = match st.as_str() {
            "SequenceOrSetMember" | "ChoiceOption" => vec!["accessor"],
            _ => vec!["direct"],
        };
        let ok = if holders[0] == "accessor" { via || direct } else { direct };
        if !ok {
            ctx.violate("C03.coverage", &format!("never-rendered:{}", key), "rasn-compiler/src/generator/rasn/utils.rs", 0,
                &format!("{} is never passed to format_tag in the rasn generator: a tag written at this position is silently dropped from the bindings", key));
        }
    }
    ctx.sample(json!({"tag_positions": positions.iter().map(|(a, b)| format!("{}.{}", a, b)).collect::<Vec<_>>(),
        "pass_writes": sites.iter().map(|s| s.target.clone()).collect::<Vec<_>>(),
        "format_tag_call_sites": fmt_args.iter().map(|(k, _, l, a)| format!("{}:{} ({})", k, l, a)).collect::<Vec<_>>()}));
}

/// `automatic_tags` pushed iff env == Automatic && no component tagged
fn auto_tags(m: &Model, ctx: &mut Ctx, ev0: &Evaluator) {
    let mut sites = 0;
    for (fname, list_field, elem) in [("generate_choice", "options", "ChoiceOption"), ("generate_sequence_or_set", "members", "SequenceOrSetMember")] {
        let Some(f) = anchor_fn(m, ctx, "C03.auto", Some("Rasn"), fname, None) else { continue };
        // `if COND { annotations.push(quote!(automatic_tags)); }`
        struct C {
            out: Vec<syn::ExprIf>,
        }
        impl model::DeepCb for C {
            fn expr(&mut self, e: &syn::Expr) {
                if let syn::Expr::If(i) = e {
                    let b = tok(&i.then_branch);
                    if b.contains("automatic_tags") && i.else_branch.is_none() {
                        self.out.push(i.clone());
                    }
                }
            }
        }
        let mut c = C { out: vec![] };
        model::deep_walk_block(&f.block, &mut c);
        if c.out.len() != 1 {
            ctx.violate("C03.auto", &format!("{}:automatic_tags-site-count={}", fname, c.out.len()), &f.file, f.line,
                &format!("{}: expected exactly one guarded push of `automatic_tags`, found {}", fname, c.out.len()));
            continue;
        }
        sites += 1;
        let stmt = &c.out[0];
        // name of the local holding the container: find `X.<list_field>` in the condition
        let cond = tok(&stmt.cond);
        let container = cond
            .split(|ch: char| !(ch.is_alphanumeric() || ch == '_' || ch == '.'))
            .find(|s| s.ends_with(&format!(".{}.iter", list_field)) || s.contains(&format!(".{}.", list_field)))
            .map(|s| s.split('.').next().unwrap_or("").to_string());
        let Some(container) = container else {
            ctx.violate("C03.auto", &format!("{}:guard-ignores-component-tags", fname), &f.file, span_line(stmt),
                &format!("{}: the automatic_tags guard `{}` does not inspect the tags of the type's own {} (X.680 §25.3/§29.2)", fname, cond, list_field));
            continue;
        };
        let mk_elem_of = |class: Option<&str>| {
            let mut n = BTreeMap::new();
            n.insert("tag".to_string(), match class { Some(c) => Val::some(mk_tag("Automatic", c, 1)), None => Val::none() });
            Val::Ctor(elem.to_string(), vec![], n)
        };
        let mk_elem = |tagged: bool| mk_elem_of(if tagged { Some("ContextSpecific") } else { None });
        // "carries a tag" is any tag: `[APPLICATION 1]`, `[PRIVATE 2]`, `[UNIVERSAL 3]` as much as `[1]`
        let lists: Vec<(&str, Vec<Val>, bool)> = vec![
            ("no components", vec![], false),
            ("one untagged", vec![mk_elem(false)], false),
            ("one tagged", vec![mk_elem(true)], true),
            ("untagged then tagged", vec![mk_elem(false), mk_elem(true)], true),
            ("tagged then untagged", vec![mk_elem(true), mk_elem(false)], true),
            ("three untagged", vec![mk_elem(false), mk_elem(false), mk_elem(false)], false),
            ("one APPLICATION-tagged", vec![mk_elem_of(Some("Application")), mk_elem(false)], true),
            ("one PRIVATE-tagged", vec![mk_elem(false), mk_elem_of(Some("Private"))], true),
            ("one UNIVERSAL-tagged", vec![mk_elem_of(Some("Universal"))], true),
        ];
        for env_name in ["Automatic", "Implicit", "Explicit"] {
            for (lname, list, any_tagged) in &lists {
                let key = format!("{}: env={} components={}", fname, env_name, lname);
                ctx.oblige("C03.auto", &key, true);
                let pushed: RefCell<usize> = RefCell::new(0);
                let hook = |ev: &Evaluator, name: &str, args: &[Val]| -> Option<Result<Val, String>> {
                    if name == ".push" {
                        *pushed.borrow_mut() += 1;
                        return Some(Ok(Val::Unit));
                    }
                    (ev0.call_hook)(ev, name, args)
                };
                let ev = Evaluator { consts: ev0.consts, call_hook: &hook, inline: None };
                let mut env = Env::new();
                let mut selfv = BTreeMap::new();
                selfv.insert("tagging_environment".to_string(), Val::ctor(env_name));
                env.insert("self".into(), Val::Ctor("Rasn".into(), vec![], selfv));
                let mut cv = BTreeMap::new();
                cv.insert(list_field.to_string(), Val::List(list.clone()));
                env.insert(container.clone(), Val::Ctor("container".into(), vec![], cv));
                match ev.eval(&syn::Expr::If(stmt.clone()), &mut env) {
                    Ok(_) => {
                        let got = *pushed.borrow() > 0;
                        let want = env_name == "Automatic" && !any_tagged;
                        if got != want {
                            ctx.violate("C03.auto", &format!("{}:env={},any_tagged={}", fname, env_name, any_tagged), &f.file, span_line(stmt),
                                &format!("{}: automatic_tags is {} for a type in a {} TAGS module with {} — X.680 §25.3/§29.2: automatic tagging applies exactly when the module says AUTOMATIC TAGS and no component carries a tag",
                                    fname, if got { "emitted" } else { "not emitted" }, env_name.to_uppercase(), lname));
                        }
                    }
                    Err(e) => ctx.fail_closed("C03.auto", &format!("[{}]: {}", key, e)),
                }
            }
        }
    }
    ctx.floor("C03.auto/sites", sites, 2);
}

/// the pass and `set_module_header` receive the same header; the backend takes its environment from the module header
pub fn header_flow(m: &Model, ctx: &mut Ctx, rule: &str) {
    let Some(f) = anchor_fn(m, ctx, rule, None, "internal_compile", None) else { return };
    let mcs = model::method_calls_in(&f.block);
    let apply: Vec<_> = mcs.iter().filter(|c| c.method == "apply_tagging_environment").collect();
    let set: Vec<_> = mcs.iter().filter(|c| c.method == "set_module_header").collect();
    ctx.oblige(rule, "same-header", true);
    if apply.len() != 1 || set.len() != 1 {
        ctx.violate(rule, "pass-invocation", &f.file, f.line,
            &format!("internal_compile must invoke apply_tagging_environment and set_module_header exactly once per definition (found {} / {})", apply.len(), set.len()));
        return;
    }
    let a = tok(&apply[0].args);
    let s = tok(&set[0].args);
    // header_ref.borrow().tagging_environment  vs header_ref.clone()
    let base = |x: &str| x.trim_start_matches('&').split('.').next().unwrap_or("").to_string();
    if base(&a) != base(&s) || !a.contains("tagging_environment") {
        ctx.violate(rule, "same-header", &f.file, span_line(apply[0]),
            &format!("the tagging pass is given `{}` but the definition is attached to `{}`: the environment applied to the tags must be the one of the definition's own module header", a, s));
    }
    // both receivers are the same definition
    if tok(&apply[0].receiver) != tok(&set[0].receiver) {
        ctx.violate(rule, "same-definition", &f.file, span_line(apply[0]),
            "apply_tagging_environment and set_module_header are applied to different values");
    }
}


/// C03.coverage (the pass evaluated): `ToplevelDefinition::apply_tagging_environment` is run (its recursion through
/// `ASN1Type::apply_tagging_environment` followed) on a type assignment that carries a tag at every kind of position and at
/// two depths — the assignment itself, a component, a CHOICE alternative, an element, and the same below a nested anonymous
/// SEQUENCE, below a CHOICE alternative and below a SEQUENCE OF. `+` on tagging environments is observed: afterwards
/// *every* tag of the tree is the module default combined with its own keyword; class and number are untouched. A position
/// the pass leaves out keeps the parser's placeholder, i.e. the module default is not applied there.
fn pass_evaluated(m: &Model, ctx: &mut Ctx) {
    use crate::eval::{Env, Evaluator, Val};
    let rule = "C03.coverage";
    let Some(top) = m.fns.iter().find(|f| f.name == "apply_tagging_environment" && f.self_ty.as_deref() == Some("ToplevelDefinition")) else {
        ctx.fail_closed(rule, "anchor not found: ToplevelDefinition::apply_tagging_environment");
        return;
    };
    let consts = const_resolver(m);
    let inl = inline_all(m, &["ASN1Type", "AsnTag"]);
    let hook = |_: &Evaluator, name: &str, a: &[Val]| -> Option<Result<Val, String>> {
        match name {
            "op:add" => match (a.first(), a.get(1)) {
                (Some(Val::Ctor(x, _, _)), Some(own)) if x == "MODULE-DEFAULT" => Some(Ok(Val::Ctor("APPLIED".into(), vec![own.clone()], BTreeMap::new()))),
                _ => None,
            },
            _ => None,
        }
    };
    let ev = Evaluator { consts: &consts, call_hook: &hook, inline: Some(&inl) };
    let named = |n: &str, fields: Vec<(&str, Val)>| Val::Ctor(n.to_string(), vec![], fields.into_iter().map(|(k, v)| (k.to_string(), v)).collect::<BTreeMap<_, _>>());
    let wrap = |n: &str, inner: Val| Val::Ctor(n.into(), vec![inner], BTreeMap::new());
    let tag = |id: i128| Val::some(named("AsnTag", vec![("id", Val::int(id)), ("tag_class", Val::ctor("Application")), ("environment", Val::Ctor("OWN".into(), vec![Val::int(id)], BTreeMap::new()))]));
    let leaf = || wrap("Boolean", named("Boolean", vec![("constraints", Val::List(vec![]))]));
    let member = |name: &str, t: Val, ty: Val| named("SequenceOrSetMember", vec![("name", Val::Str(name.into())), ("tag", t), ("ty", ty), ("optionality", Val::ctor("Required")), ("is_recursive", Val::Bool(false)), ("constraints", Val::List(vec![]))]);
    let option = |name: &str, t: Val, ty: Val| named("ChoiceOption", vec![("name", Val::Str(name.into())), ("tag", t), ("ty", ty), ("is_recursive", Val::Bool(false)), ("constraints", Val::List(vec![]))]);
    let seq = |kind: &str, members: Vec<Val>| wrap(kind, named("SequenceOrSet", vec![("members", Val::List(members)), ("extensible", Val::none()), ("components_of", Val::List(vec![])), ("constraints", Val::List(vec![]))]));
    let choice = |options: Vec<Val>| wrap("Choice", named("Choice", vec![("options", Val::List(options)), ("extensible", Val::none()), ("constraints", Val::List(vec![]))]));
    let coll = |kind: &str, el: Val, etag: Val| wrap(kind, named("SequenceOrSetOf", vec![("element_type", el), ("element_tag", etag), ("constraints", Val::List(vec![])), ("is_recursive", Val::Bool(false))]));
    // tag numbers name the positions
    let positions: Vec<(i128, &str)> = vec![(1, "the type assignment"), (2, "a SEQUENCE component"), (3, "a component of a nested anonymous SET"), (4, "a CHOICE alternative"), (5, "a component below a CHOICE alternative"),
        (6, "the element of a SEQUENCE OF"), (7, "a component of the element type of a SET OF"), (8, "an alternative of a CHOICE nested in a CHOICE"), (9, "the element of a SEQUENCE OF inside a SEQUENCE OF")];
    let ty = seq("Sequence", vec![
        member("a", tag(2), leaf()),
        member("b", Val::none(), seq("Set", vec![member("b1", tag(3), leaf())])),
        member("c", Val::none(), choice(vec![option("c1", tag(4), seq("Sequence", vec![member("c11", tag(5), leaf())])), option("c2", Val::none(), choice(vec![option("c21", tag(8), leaf())]))])),
        member("d", Val::none(), coll("SequenceOf", leaf(), tag(6))),
        member("e", Val::none(), coll("SetOf", seq("Sequence", vec![member("e1", tag(7), leaf())]), Val::none())),
        member("f", Val::none(), coll("SequenceOf", coll("SequenceOf", leaf(), tag(9)), Val::none())),
    ]);
    // a plain type assignment and a parameterized one (`T {P} ::= ..`): the linker builds every instance from a copy of the
    // template's type, so the tags written inside a template must have met the module default as well
    for parameterized in [false, true] {
    let ty = ty.clone();
    let positions: Vec<(i128, String)> = positions.iter().map(|(i, w)| (*i, if parameterized { format!("{} (parameterized assignment)", w) } else { w.to_string() })).collect();
    let parameterization = if parameterized { Val::some(named("Parameterization", vec![("parameters", Val::List(vec![Val::Opaque("dummy parameter".into())]))])) } else { Val::none() };
    let tld = wrap("Type", named("ToplevelTypeDefinition", vec![("comments", Val::Str(String::new())), ("tag", tag(1)), ("name", Val::Str("T".into())), ("ty", ty), ("parameterization", parameterization), ("module_header", Val::none())]));
    let params: Vec<String> = top.sig.inputs.iter().filter_map(|a| match a { syn::FnArg::Typed(t) => Some(tok(&t.pat)), _ => None }).collect();
    let mut env = Env::new();
    env.insert("self".into(), tld);
    env.insert(params.first().cloned().unwrap_or("environment".into()), Val::ctor("MODULE-DEFAULT"));
    if let Err(e) = ev.eval_fn_body(&top.block, &mut env) {
        ctx.fail_closed(rule, &format!("[tagging pass]: {}", e));
        return;
    }
    #[allow(clippy::items_after_statements)]
    fn tags(v: &Val, out: &mut Vec<Val>) {
        match v {
            Val::Ctor(n, _, _) if n == "AsnTag" => out.push(v.clone()),
            Val::Ctor(_, p, f) => { p.iter().for_each(|x| tags(x, out)); f.values().for_each(|x| tags(x, out)); }
            Val::List(l) | Val::Tuple(l) => l.iter().for_each(|x| tags(x, out)),
            _ => {}
        }
    }
    let mut found = vec![];
    if let Some(v) = env.get("self") { tags(v, &mut found); }
    for (id, what) in positions {
        ctx.oblige(rule, &format!("pass-evaluated:{}", what.replace(' ', "-")), true);
        let t = found.iter().find(|t| matches!(t, Val::Ctor(_, _, f) if f.get("id") == Some(&Val::int(id))));
        let (envv, class) = match t { Some(Val::Ctor(_, _, f)) => (f.get("environment").cloned(), f.get("tag_class").cloned()), _ => (None, None) };
        let want = Val::Ctor("APPLIED".into(), vec![Val::Ctor("OWN".into(), vec![Val::int(id)], BTreeMap::new())], BTreeMap::new());
        if t.is_none() {
            ctx.violate(rule, &format!("pass-evaluated:tag-lost:{}", what.replace(' ', "-")), &top.file, top.line, &format!("after the tagging pass the tag on {} is gone", what));
        } else if envv.as_ref() != Some(&want) {
            ctx.violate(rule, &format!("pass-evaluated:default-not-applied:{}", what.replace(' ', "-")), &top.file, top.line,
                &format!("after the tagging pass the tag on {} has the environment `{}` — expected the module default combined with the tag's own keyword, once: a tag at this position is rendered without regard to the module's TAGS clause (X.680 31.2.7 holds at every position and depth)", what, envv.map(|v| v.show()).unwrap_or_default()));
        } else if class != Some(Val::ctor("Application")) {
            ctx.violate(rule, &format!("pass-evaluated:class-changed:{}", what.replace(' ', "-")), &top.file, top.line, &format!("the tagging pass changes the class of the tag on {}", what));
        }
    }
    }
}
