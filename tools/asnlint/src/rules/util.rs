use crate::eval::Val;
use crate::model::{tok, FnInfo, Model};
use crate::report::Ctx;

/// Resolve a crate constant (`NAME`, `Self::NAME`, `Type::NAME`) to a literal value.
pub fn const_resolver<'a>(m: &'a Model) -> impl Fn(&str) -> Option<Val> + 'a {
    move |name: &str| {
        let last = name.rsplit("::").next().unwrap_or(name).trim();
        let c: Vec<_> = m.consts.iter().filter(|c| c.name == last && !c.is_static).collect();
        if c.len() != 1 {
            return None;
        }
        lit_of(&c[0].expr)
    }
}

pub fn lit_of(e: &syn::Expr) -> Option<Val> {
    match e {
        syn::Expr::Lit(l) => match &l.lit {
            syn::Lit::Str(s) => Some(Val::Str(s.value())),
            syn::Lit::Int(i) => i.base10_parse::<i128>().ok().map(Val::int),
            syn::Lit::Char(c) => Some(Val::Char(c.value())),
            syn::Lit::Bool(b) => Some(Val::Bool(b.value)),
            _ => None,
        },
        syn::Expr::Paren(p) => lit_of(&p.expr),
        syn::Expr::Group(p) => lit_of(&p.expr),
        // `u16::MAX as i128`, `-1`: constant expressions over literals and the integer limits
        syn::Expr::Cast(c) => lit_of(&c.expr),
        syn::Expr::Unary(u) if matches!(u.op, syn::UnOp::Neg(_)) => match lit_of(&u.expr) {
            Some(Val::Int { v, .. }) => Some(Val::int(-v)),
            _ => None,
        },
        syn::Expr::Path(p) if p.path.segments.len() == 2 => {
            let ty = p.path.segments[0].ident.to_string();
            let which = p.path.segments[1].ident.to_string();
            let (min, max): (i128, i128) = match ty.as_str() {
                "u8" => (0, u8::MAX as i128),
                "u16" => (0, u16::MAX as i128),
                "u32" => (0, u32::MAX as i128),
                "u64" => (0, u64::MAX as i128),
                "i8" => (i8::MIN as i128, i8::MAX as i128),
                "i16" => (i16::MIN as i128, i16::MAX as i128),
                "i32" => (i32::MIN as i128, i32::MAX as i128),
                "i64" => (i64::MIN as i128, i64::MAX as i128),
                "i128" => (i128::MIN, i128::MAX),
                _ => return None,
            };
            match which.as_str() {
                "MAX" => Some(Val::int(max)),
                "MIN" => Some(Val::int(min)),
                _ => None,
            }
        }
        _ => None,
    }
}

pub fn anchor_fn<'a>(
    m: &'a Model,
    ctx: &mut Ctx,
    rule: &str,
    self_ty: Option<&str>,
    name: &str,
    module_has: Option<&str>,
) -> Option<&'a FnInfo> {
    match m.find_fn(self_ty, name, module_has) {
        Ok(f) => {
            ctx.func(&f.key);
            ctx.anchor(&format!("{} @ {}:{}", f.key, f.file, f.line));
            Some(f)
        }
        Err(e) => {
            ctx.fail_closed(rule, &e);
            None
        }
    }
}

/// fns whose trait impl matches, e.g. trait_has="Add" self_ty="&TaggingEnvironment"
pub fn anchor_trait_fn<'a>(
    m: &'a Model,
    ctx: &mut Ctx,
    rule: &str,
    self_ty: &str,
    trait_has: &str,
    name: &str,
) -> Option<&'a FnInfo> {
    let c: Vec<&FnInfo> = m
        .fns
        .iter()
        .filter(|f| f.name == name && f.self_ty.as_deref() == Some(self_ty))
        .filter(|f| f.trait_.as_deref().map(|t| t.contains(trait_has)).unwrap_or(false))
        .collect();
    if c.len() == 1 {
        ctx.func(&c[0].key);
        ctx.anchor(&format!("{} @ {}:{}", c[0].key, c[0].file, c[0].line));
        Some(c[0])
    } else {
        ctx.fail_closed(
            rule,
            &format!("anchor not unique ({}): impl {} for {} :: {}", c.len(), trait_has, self_ty, name),
        );
        None
    }
}

pub fn span_line<T: syn::spanned::Spanned>(t: &T) -> usize {
    t.span().start().line
}

pub fn expr_str(e: &syn::Expr) -> String {
    tok(e)
}

/// Inline table for interprocedural abstract evaluation: every free fn of the crate whose name is
/// unique (so helper fns introduced by a refactoring are followed automatically) plus the
/// methods of the given types under `.name`.
pub fn inline_all(m: &Model, method_types: &[&str]) -> std::collections::BTreeMap<String, (Vec<String>, syn::Block)> {
    let mut count: std::collections::BTreeMap<String, usize> = std::collections::BTreeMap::new();
    for f in m.fns.iter().filter(|f| f.self_ty.is_none() && f.krate == "rasn-compiler") {
        *count.entry(f.name.clone()).or_default() += 1;
    }
    let params = |f: &FnInfo| -> Vec<String> {
        f.sig.inputs.iter().filter_map(|a| match a {
            syn::FnArg::Typed(t) => Some(tok(&t.pat).replace("mut ", "")),
            _ => None,
        }).collect()
    };
    let mut t = std::collections::BTreeMap::new();
    for f in m.fns.iter().filter(|f| f.self_ty.is_none() && f.krate == "rasn-compiler") {
        if count.get(&f.name) == Some(&1) {
            t.insert(f.name.clone(), (params(f), f.block.clone()));
        }
    }
    for ty in method_types {
        for f in m.fns.iter().filter(|f| f.self_ty.as_deref() == Some(*ty) && f.trait_.is_none()) {
            if f.sig.inputs.iter().any(|a| matches!(a, syn::FnArg::Receiver(_))) {
                t.insert(format!(".{}", f.name), (params(f), f.block.clone()));
                // the same method under the constructors of its type: a name that several of the listed types define is
                // resolved by the receiver (`.name@Variant` for an enum, `.name@Struct` for a struct)
                if let Some(e) = m.enums.iter().find(|e| e.name == *ty) {
                    for v in &e.variants {
                        t.insert(format!(".{}@{}", f.name, v), (params(f), f.block.clone()));
                    }
                } else {
                    t.insert(format!(".{}@{}", f.name, ty), (params(f), f.block.clone()));
                }
            } else if !t.contains_key(&f.name) {
                // associated fn without receiver (`Self::name(..)` / `Type::name(..)`): looked up by its last path segment
                t.insert(f.name.clone(), (params(f), f.block.clone()));
            }
        }
    }
    t
}

/// Per-module backend state must be re-initialised from the current module's header by an
/// *unconditional* top-level statement of the header block of generate_module, before the first
/// statement that renders anything. `field` is the backend field (e.g. "extensibility_environment").
pub fn reset_rule(m: &Model, ctx: &mut Ctx, rule: &str, field: &str) {
    reset_rule_for(m, ctx, rule, field, "Rasn")
}

pub fn reset_rule_for(m: &Model, ctx: &mut Ctx, rule: &str, field: &str, backend: &str) {
    let gms: Vec<&FnInfo> = m.fns.iter().filter(|f| f.name == "generate_module" && f.self_ty.as_deref() == Some(backend)).collect();
    let Some(f) = gms.first() else {
        ctx.fail_closed(rule, &format!("anchor not found: {}::generate_module", backend));
        return;
    };
    ctx.func(&f.key);
    ctx.oblige(rule, &format!("reset:{}", field), true);
    // the `if let Some(..) = tlds.first()..` block
    let mut block: Option<&syn::Block> = None;
    for st in &f.block.stmts {
        if let syn::Stmt::Expr(syn::Expr::If(i), _) = st {
            if tok(&i.cond).contains("tlds.first()") {
                block = Some(&i.then_branch);
            }
        }
    }
    let Some(block) = block else {
        ctx.fail_closed(rule, "generate_module: header block not found");
        return;
    };
    let want = format!("self.{}=module.{};", field, field);
    let mut assign_at = None;
    let mut first_use = None;
    for (i, st) in block.stmts.iter().enumerate() {
        let t = tok(st);
        if t == want && assign_at.is_none() {
            assign_at = Some(i);
        }
        let uses = t.contains("self.generate_tld(") || t.contains("self.to_rust_") || t.contains("self.generate(") || t.contains("to_jer_identifier(");
        if uses && first_use.is_none() {
            first_use = Some(i);
        }
    }
    let line = f.line;
    match (assign_at, first_use) {
        (Some(a), Some(u)) if a < u => {}
        (Some(_), Some(_)) => ctx.violate(rule, &format!("reset-after-use:{}", field), &f.file, line,
            &format!("generate_module assigns self.{} only after it has started rendering: the value of the previously generated module is used first", field)),
        (None, _) => {
            let nested = tok(block).contains(&format!("self.{}=", field));
            ctx.violate(rule, &format!("reset-not-unconditional:{}", field), &f.file, line,
                &format!("generate_module does not unconditionally assign self.{field} from the current module's header ({}): the {field} of the module generated before leaks into this one", if nested { "the assignment is nested in a condition or has another source" } else { "no assignment found" }, field = field));
        }
        (Some(_), None) => ctx.fail_closed(rule, "generate_module: no rendering statement found"),
    }
    // `module` is the header of this module's own definitions
    ctx.oblige(rule, "reset:source-is-own-header", true);
    let b = tok(block);
    let head = tok(&f.block);
    if !(head.contains("if let Some(module_ref)=tlds.first().and_then(|tld|tld.get_module_header())") && b.starts_with("{let module=module_ref.borrow();")) {
        ctx.violate(rule, "reset:source-is-own-header", &f.file, line, "generate_module must take the defaults from the header attached to the module's own definitions");
    }
}

/// the string literals of an array expression (`["a", "b"]`), None if it is anything else
pub fn str_array(e: &syn::Expr) -> Option<Vec<String>> {
    if let syn::Expr::Array(a) = e {
        let mut v = vec![];
        for x in a.elems.iter() {
            if let syn::Expr::Lit(l) = x {
                if let syn::Lit::Str(s) = &l.lit {
                    v.push(s.value());
                    continue;
                }
            }
            return None;
        }
        return Some(v);
    }
    None
}


/// A method whose whole body hands on to another method of the same type (`self.inner(a, b, &mut extra)`) is a wrapper:
/// rules that look at "the" traversal follow it to the method that does the work.
pub fn through_wrapper<'a>(m: &'a Model, f: &'a crate::model::FnInfo) -> &'a crate::model::FnInfo {
    let mut cur = f;
    for _ in 0..3 {
        if cur.block.stmts.len() != 1 {
            return cur;
        }
        let e = match &cur.block.stmts[0] {
            syn::Stmt::Expr(e, _) => e,
            _ => return cur,
        };
        let syn::Expr::MethodCall(mc) = e else { return cur };
        if crate::model::tok(&mc.receiver) != "self" {
            return cur;
        }
        let name = mc.method.to_string();
        match m.fns.iter().find(|g| g.name == name && g.self_ty == cur.self_ty && g.krate == cur.krate) {
            Some(g) => cur = g,
            None => return cur,
        }
    }
    cur
}

/// Takes over one rule family of another property: the other property's rules are run in a throwaway context, and what they
/// report under `from_rule` (known findings of that property aside) is reported here under `to_rule`. Used where one defect
/// breaks clauses of two properties and the deciding analysis lives with the other one.
pub fn borrow(ctx: &mut Ctx, source_property: &str, from_rule: &str, to_rule: &str, run: &mut dyn FnMut(&mut Ctx)) {
    borrow_where(ctx, source_property, from_rule, to_rule, "", run)
}

/// `borrow`, restricted to reports whose key or file mentions `about` (e.g. one lexer module)
pub fn borrow_where(ctx: &mut Ctx, source_property: &str, from_rule: &str, to_rule: &str, about: &str, run: &mut dyn FnMut(&mut Ctx)) {
    let mut sub = Ctx::new(source_property, "quick", &ctx.verif);
    run(&mut sub);
    let known = crate::report::load_known(&ctx.verif, source_property);
    let n = sub.obligations.get(from_rule).map(|(n, _)| *n).unwrap_or(0);
    if n == 0 {
        ctx.fail_closed(to_rule, &format!("the borrowed rule {} examined nothing", from_rule));
        return;
    }
    ctx.oblige(to_rule, &format!("borrowed:{}", from_rule), true);
    for v in sub.violations.iter().filter(|v| v.rule == from_rule && (about.is_empty() || v.key.contains(about) || v.file.contains(about))) {
        if known.contains_key(&format!("{}:{}", v.rule, v.key)) {
            continue;
        }
        ctx.violate(to_rule, &v.key, &v.file, v.line, &v.msg);
    }
}

/// A pass of `Validator::link` over the definitions: a top-level `while let Some(key) = LIST.pop()` or `for key in LIST…`
/// statement whose body works on `self.tlds`. One loop is one pass over *all* definitions.
pub struct KeyLoop {
    pub stmt_index: usize,
    pub body: syn::Block,
    /// the variable the keys are taken from (`keys` in `keys.pop()`, `keys.clone()`, `&keys`, `keys.iter().rev()`)
    pub work_list: String,
}

pub fn link_key_loops(f: &FnInfo) -> Vec<KeyLoop> {
    fn root_ident(e: &syn::Expr) -> String {
        match e {
            syn::Expr::MethodCall(mc) => root_ident(&mc.receiver),
            syn::Expr::Reference(r) => root_ident(&r.expr),
            syn::Expr::Paren(p) => root_ident(&p.expr),
            syn::Expr::Field(fl) => tok(fl),
            syn::Expr::Path(p) => tok(p),
            o => tok(o),
        }
    }
    let mut out = vec![];
    for (i, st) in f.block.stmts.iter().enumerate() {
        let e = match st {
            syn::Stmt::Expr(e, _) => e,
            _ => continue,
        };
        let (body, list) = match e {
            syn::Expr::While(w) => match &*w.cond {
                syn::Expr::Let(l) => match &*l.expr {
                    syn::Expr::MethodCall(mc) if ["pop", "pop_front", "pop_back", "next"].contains(&mc.method.to_string().as_str()) => (&w.body, root_ident(&mc.receiver)),
                    _ => continue,
                },
                _ => continue,
            },
            syn::Expr::ForLoop(l) => (&l.body, root_ident(&l.expr)),
            _ => continue,
        };
        if tok(body).contains("self.tlds") {
            out.push(KeyLoop { stmt_index: i, body: body.clone(), work_list: list });
        }
    }
    out
}
