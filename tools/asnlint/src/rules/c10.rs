//! C10 — no definition is lost silently; warnings are local; Err carries nothing.
use crate::eval::{Env, Evaluator, Val};
use crate::model::{self, tok, FnInfo, Model};
use crate::report::Ctx;
use crate::rules::util::*;
use serde_json::{json, Value};
use std::collections::{BTreeMap, BTreeSet};

fn variant_val(en: &crate::model::EnumInfo, v: &str) -> Val {
    let fields = en.variant_fields.get(v).cloned().unwrap_or_default();
    let named = fields.iter().all(|(n, _)| n.parse::<usize>().is_err()) && !fields.is_empty();
    if named {
        let mut f = BTreeMap::new();
        for (n, _) in fields {
            f.insert(n, Val::Opaque("payload".into()));
        }
        Val::Ctor(v.to_string(), vec![], f)
    } else {
        Val::Ctor(v.to_string(), fields.iter().map(|_| Val::Opaque("payload".into())).collect(), BTreeMap::new())
    }
}

fn is_empty_result(body: &str) -> bool {
    let b = body.trim_start_matches('{').trim_end_matches('}');
    b == "Ok(TokenStream::new())" || b == "Ok(String::new())" || b == "returnOk(TokenStream::new())" || b == "return Ok(String::new())"
}

/// C10.empty (templates): a parameterized type assignment is a template — it produces no binding of its own (documented
/// category) — and *only* that: the dispatchers of both backends are evaluated on a BOOLEAN assignment with and without a
/// parameter list; the plain one must reach its generator, the template must yield nothing.
fn template_guard(m: &Model, ctx: &mut Ctx) {
    use crate::eval::{Env, Evaluator, Val};
    use std::collections::BTreeMap as Map;
    let consts = const_resolver(m);
    for (self_ty, fname, param_is_tld) in [("Rasn", "generate_type", false), ("Typescript", "generate", true)] {
        let Some(f) = m.fns.iter().find(|f| f.name == fname && f.self_ty.as_deref() == Some(self_ty)) else {
            ctx.fail_closed("C10.empty", &format!("anchor not found: {}::{}", self_ty, fname));
            continue;
        };
        ctx.func(&f.key);
        let hook = |_: &Evaluator, name: &str, _a: &[Val]| -> Option<Result<Val, String>> {
            if name.starts_with(".generate_") {
                return Some(Ok(Val::Ctor("Ok".into(), vec![Val::Sym(format!("<{}>", &name[1..]))], Map::new())));
            }
            match name {
                "TokenStream::new" | "String::new" => Some(Ok(Val::Sym(String::new()))),
                _ => None,
            }
        };
        let ev = Evaluator { consts: &consts, call_hook: &hook, inline: None };
        let param = f.sig.inputs.iter().filter_map(|a| match a { syn::FnArg::Typed(t) => Some(tok(&t.pat)), _ => None }).next().unwrap_or("tld".into());
        for templ in [false, true] {
            let key = format!("{}::{}:parameterized={}", self_ty, fname, templ);
            ctx.oblige("C10.empty", &key, true);
            let mut t = Map::new();
            t.insert("name".to_string(), Val::Str("T".into()));
            t.insert("parameterization".to_string(), if templ { Val::some(Val::Opaque("params".into())) } else { Val::none() });
            t.insert("ty".to_string(), Val::Ctor("Boolean".into(), vec![Val::Opaque("b".into())], Map::new()));
            let tld = Val::Ctor("ToplevelTypeDefinition".into(), vec![], t);
            let arg = if param_is_tld { Val::Ctor("Type".into(), vec![tld], Map::new()) } else { tld };
            let mut env = Env::new();
            env.insert("self".into(), Val::ctor(self_ty));
            env.insert(param.clone(), arg);
            match ev.eval_fn_body(&f.block, &mut env) {
                Ok(Val::Ctor(ok, p, _)) if ok == "Ok" => {
                    let out = p.first().map(|v| match v { Val::Sym(s) | Val::Str(s) => s.clone(), o => o.show() }).unwrap_or_default();
                    let empty = out.is_empty();
                    if empty != templ {
                        ctx.violate("C10.empty", &format!("template-guard:{}", self_ty), &f.file, f.line,
                            &format!("{}::{} on `T{} ::= BOOLEAN` yields `{}`: {}", self_ty, fname, if templ { " {P}" } else { "" }, out,
                                if templ { "a parameterized template has no binding of its own" } else { "an ordinary type assignment is generated — here it vanishes without a warning" }));
                    }
                }
                Ok(o) => ctx.fail_closed("C10.empty", &format!("[{}]: {}", key, o.show().chars().take(100).collect::<String>())),
                Err(e) => ctx.fail_closed("C10.empty", &format!("[{}]: {}", key, e)),
            }
        }
    }
}

pub fn run(m: &Model, ctx: &mut Ctx) {
    ctx.explanation = "C10.empty: in every generator dispatch (generate_tld, generate_type, generate_value; TypeScript generate) the set of IR variants that reach an arm returning an *empty* output is computed by exhaustive case analysis (guards taken both ways) and must lie within the documented silent categories (classes, objects that are not sets, parameterized templates, object sets under opaque_open_types). \
C10.key: the key of the definitions map must identify the module as well as the name (a name-only key loses same-named definitions of different modules without a trace). \
C10.pair: in Validator::link every removal from the definitions map re-inserts the entry on every accepting branch, and each refutable pattern is implied by the guard fn that dominates it (guard tables extracted per ToplevelDefinition variant). \
C10.local: the per-definition folds of both generate_module impls and of validate() turn Err into one warning and keep going (evaluated for Ok/Err). \
C10.class: an assignment `v ID ::= { .. }` whose governor is spelled like a class reference is read by the lexer as an information object; objects are a silent category, so the linker arm that resolves an object's class is evaluated on an object whose class name is the name of a *type* and must leave a warning (or the generators must report an object whose class is still only a name). \
C10.discard: no Result of the linker/generator is discarded with `let _ =` / `.ok();` (audited exceptions). \
Thorough tier: compile_fail witness that CompilerError exposes no bindings. \
Not decided: that a warning never alters *dependent* definitions' bindings in ways beyond the dependency.".into();
    ctx.assumptions = vec!["documented silent categories: Class, Object (non-set), parameterized templates, object sets with opaque_open_types".into()];
    ctx.rule("exhaustive variant analysis of dispatch matches; guard tables; fold closures evaluated for Ok/Err");
    // "a warning about one definition never alters the bindings of definitions that do not depend on it": an assignment (REAL,
    // an unsupported kind, ..) whose parser consumes the comments behind it takes the doc comments of the next one (= C11.comments)
    crate::rules::c11::trailing_trivia(m, ctx, "C10.comments");
    // "every top-level assignment of a successfully parsed input is accounted for" presupposes that every source handed to the
    // builder reaches the lexer: the add_* methods evaluated per typestate (the analysis lives with C20.sources)
    crate::rules::util::borrow(ctx, "C20", "C20.sources", "C10.sources", &mut |sub| crate::rules::c20::builder_sources(m, sub));
    bound_errors_reported(m, ctx);
    let consts = const_resolver(m);

    empties(m, ctx, &consts);
    template_guard(m, ctx);
    key(m, ctx);
    pair(m, ctx, &consts);
    header(m, ctx);
    local(m, ctx, &consts);
    discard(m, ctx);
    misread_value(m, ctx, &consts);
    ir_names(m, ctx, &consts);
}

fn empties(m: &Model, ctx: &mut Ctx, consts: &dyn Fn(&str) -> Option<Val>) {
    let Ok(values) = m.find_enum("ASN1Value") else {
        ctx.fail_closed("C10.empty", "enum ASN1Value not found");
        return;
    };
    let Ok(tlds) = m.find_enum("ToplevelDefinition") else { return };
    let Ok(types) = m.find_enum("ASN1Type") else { return };
    // generate_value: variants reaching an empty arm
    if let Some(f) = anchor_fn(m, ctx, "C10.empty", Some("Rasn"), "generate_value", None) {
        if let Some(mt) = model::matches_in(&f.block).into_iter().find(|mt| tok(&mt.expr) == "&tld.value") {
            let mut silent: BTreeSet<String> = BTreeSet::new();
            for v in &values.variants {
                for builtin in [true, false] {
                    ctx.oblige("C10.empty", &format!("generate_value:{}:builtin={}", v, builtin), true);
                    let hook = move |_: &Evaluator, name: &str, _a: &[Val]| -> Option<Result<Val, String>> {
                        if name == ".is_builtin_type" || name == ".is_const_type" {
                            return Some(Ok(Val::Bool(builtin)));
                        }
                        None
                    };
                    let ev = Evaluator { consts, call_hook: &hook, inline: None };
                    // the value with its string payloads spelled out, under a governing type that is a builtin type / a reference
                    // named like one of those payloads (an enumeral under its own ENUMERATED type) / a reference to another name
                    let mut value = variant_val(values, v);
                    let mut names: Vec<String> = vec!["Governor".into()];
                    if let Val::Ctor(_, _, fm) = &mut value {
                        for (fname, fty) in values.variant_fields.get(v).cloned().unwrap_or_default() {
                            if fty.replace(' ', "") == "String" {
                                fm.insert(fname.clone(), Val::Str(fname.clone()));
                                names.push(fname);
                            }
                        }
                    }
                    let governors: Vec<Val> = if builtin { vec![Val::Ctor("Boolean".into(), vec![Val::Opaque("payload".into())], BTreeMap::new())] } else {
                        names.iter().map(|n| {
                            let mut d = BTreeMap::new();
                            d.insert("identifier".to_string(), Val::Str(n.clone()));
                            d.insert("module".to_string(), Val::none());
                            d.insert("parent".to_string(), Val::none());
                            d.insert("constraints".to_string(), Val::List(vec![]));
                            Val::Ctor("ElsewhereDeclaredType".into(), vec![Val::Ctor("DeclarationElsewhere".into(), vec![], d)], BTreeMap::new())
                        }).collect()
                    };
                    for ty in governors {
                        let mut env = Env::new();
                        env.insert("ty".into(), ty);
                        match ev.select_arm(&mt, &value, &env) {
                            Ok((i, _)) => {
                                if is_empty_result(&tok(&mt.arms[i].body)) {
                                    silent.insert(v.clone());
                                }
                            }
                            Err(e) => ctx.fail_closed("C10.empty", &format!("generate_value:{}: {}", v, e)),
                        }
                    }
                }
            }
            if !silent.is_empty() {
                ctx.violate("C10.empty", "generate_value:value-forms-vanish", &f.file, span_line(&mt),
                    &format!("generate_value returns an empty token stream (no output, no warning) for the value forms {:?}: a value assignment of such a form disappears silently", silent));
            }
        } else {
            ctx.fail_closed("C10.empty", "generate_value: dispatch match not found");
        }
    }
    // generate_tld / generate_type evaluated whole, per variant: the sub-generators are symbolic (`<generate_x>`), so the
    // result says whether the definition is generated, reported (Err) or silent (empty Ok)
    let gen_hook = |_: &Evaluator, name: &str, _a: &[Val]| -> Option<Result<Val, String>> {
        if name.starts_with(".generate_") {
            return Some(Ok(Val::Ctor("Ok".into(), vec![Val::Sym(format!("<{}>", &name[1..]))], BTreeMap::new())));
        }
        match name {
            "TokenStream::new" | "String::new" => Some(Ok(Val::Sym(String::new()))),
            ".type_mismatch_error" => Some(Ok(Val::Ctor("Err".into(), vec![Val::Sym("mismatch".into())], BTreeMap::new()))),
            _ => None,
        }
    };
    #[derive(PartialEq, Debug)]
    enum Outcome { Generated, Reported, Silent }
    let classify = |v: &Val| -> Option<Outcome> {
        match v {
            Val::Ctor(ok, p, _) if ok == "Ok" => match p.first() {
                Some(Val::Sym(s)) | Some(Val::Str(s)) => Some(if s.trim().is_empty() { Outcome::Silent } else { Outcome::Generated }),
                _ => None,
            },
            Val::Ctor(e, _, _) if e == "Err" => Some(Outcome::Reported),
            _ => None,
        }
    };
    let ev = Evaluator { consts, call_hook: &gen_hook, inline: None };
    let first_param = |f: &FnInfo| f.sig.inputs.iter().filter_map(|a| match a { syn::FnArg::Typed(t) => Some(tok(&t.pat)), _ => None }).next().unwrap_or("tld".into());
    if let Some(f) = anchor_fn(m, ctx, "C10.empty", Some("Rasn"), "generate_tld", None) {
        let param = first_param(f);
        let info = |kind: &str| {
            let mut t = BTreeMap::new();
            t.insert("name".to_string(), Val::Str("o".into()));
            t.insert("value".to_string(), Val::Ctor(kind.into(), vec![Val::Opaque("payload".into())], BTreeMap::new()));
            Val::Ctor("Object".into(), vec![Val::Ctor("ToplevelInformationDefinition".into(), vec![], t)], BTreeMap::new())
        };
        let mut scenarios: Vec<(String, Val, Vec<Outcome>, &str)> = vec![];
        for v in &tlds.variants {
            match v.as_str() {
                "Object" => {
                    scenarios.push(("Object-split".into(), info("ObjectSet"), vec![Outcome::Generated, Outcome::Reported], "objects: only plain information objects are silent; object sets must be generated"));
                    scenarios.push(("Object".into(), info("Object"), vec![Outcome::Generated, Outcome::Reported, Outcome::Silent], ""));
                }
                "Class" => scenarios.push((v.clone(), variant_val(tlds, v), vec![Outcome::Generated, Outcome::Reported, Outcome::Silent], "")),
                "Macro" => scenarios.push((v.clone(), variant_val(tlds, v), vec![Outcome::Reported, Outcome::Generated], "a MACRO definition must be reported (warning), it is not a documented silent category")),
                _ => scenarios.push((v.clone(), variant_val(tlds, v), vec![Outcome::Generated, Outcome::Reported], "")),
            }
        }
        for (key, val, allowed, why) in scenarios {
            ctx.oblige("C10.empty", &format!("generate_tld:{}", key), true);
            let mut env = Env::new();
            env.insert("self".into(), Val::ctor("Rasn"));
            env.insert(param.clone(), val);
            match ev.eval_fn_body(&f.block, &mut env).map(|v| (classify(&v), v)) {
                Ok((Some(o), _)) => {
                    if !allowed.contains(&o) {
                        let why = if why.is_empty() { format!("a top-level {} definition produces no output and no warning", key) } else { why.to_string() };
                        ctx.violate("C10.empty", &format!("generate_tld:{}", key), &f.file, f.line, &why);
                    }
                }
                Ok((None, v)) => ctx.fail_closed("C10.empty", &format!("generate_tld:{}: result {}", key, v.show().chars().take(100).collect::<String>())),
                Err(e) => ctx.fail_closed("C10.empty", &format!("generate_tld:{}: {}", key, e)),
            }
        }
    }
    // generate_type: an ordinary (non-template) assignment of every kind is generated or reported, never silent — whatever
    // early returns the function has (the template case is decided by template_guard)
    if let Some(f) = anchor_fn(m, ctx, "C10.empty", Some("Rasn"), "generate_type", None) {
        let param = first_param(f);
        for v in &types.variants {
            ctx.oblige("C10.empty", &format!("generate_type:{}", v), true);
            let mut t = BTreeMap::new();
            t.insert("name".to_string(), Val::Str("T".into()));
            t.insert("parameterization".to_string(), Val::none());
            t.insert("ty".to_string(), variant_val(types, v));
            let mut env = Env::new();
            env.insert("self".into(), Val::ctor("Rasn"));
            env.insert(param.clone(), Val::Ctor("ToplevelTypeDefinition".into(), vec![], t));
            match ev.eval_fn_body(&f.block, &mut env).map(|v| (classify(&v), v)) {
                Ok((Some(Outcome::Silent), _)) => ctx.violate("C10.empty", &format!("generate_type:{}", v), &f.file, f.line, &format!("a type assignment of kind {} produces no output and no warning", v)),
                Ok((Some(_), _)) => {}
                Ok((None, r)) => ctx.fail_closed("C10.empty", &format!("generate_type:{}: result {}", v, r.show().chars().take(100).collect::<String>())),
                Err(e) => ctx.fail_closed("C10.empty", &format!("generate_type:{}: {}", v, e)),
            }
        }
    }
    // information object sets: silent only under opaque_open_types — every empty result of the function sits under an
    // `if` whose condition is false when the option is off
    if let Some(f) = anchor_fn(m, ctx, "C10.empty", Some("Rasn"), "generate_information_object_set", None) {
        ctx.oblige("C10.empty", "object-set:opaque-only", true);
        struct Ifs { out: Vec<syn::ExprIf> }
        impl model::DeepCb for Ifs {
            fn expr(&mut self, e: &syn::Expr) {
                if let syn::Expr::If(i) = e {
                    self.out.push(i.clone());
                }
            }
        }
        let mut ifs = Ifs { out: vec![] };
        model::deep_walk_block(&f.block, &mut ifs);
        let empties = |t: &str| t.matches("Ok(TokenStream::new())").count() + t.matches("Ok(TokenStream::default())").count() + t.matches("Ok(quote!())").count() + t.matches("Ok(Default::default())").count();
        let total = empties(&tok(&f.block));
        let mut guarded = 0;
        for i in &ifs.out {
            let n = empties(&tok(&i.then_branch));
            if n == 0 {
                continue;
            }
            let mut cfg = BTreeMap::new();
            cfg.insert("opaque_open_types".to_string(), Val::Bool(false));
            let mut me = BTreeMap::new();
            me.insert("config".to_string(), Val::Ctor("Config".into(), vec![], cfg));
            let mut env = Env::new();
            env.insert("self".into(), Val::Ctor("Rasn".into(), vec![], me));
            match ev.eval(&i.cond, &mut env) {
                Ok(Val::Bool(false)) => guarded += n,
                Ok(_) => {}
                Err(_) => {}
            }
        }
        if total == 0 || guarded != total {
            ctx.violate("C10.empty", "object-set:opaque-only", &f.file, f.line, &format!("an object set may be silent only when opaque_open_types is set ({} of {} empty result(s) are behind that option)", guarded, total));
        }
    }
    // typescript
    let ts = m.fns.iter().find(|f| f.name == "generate" && f.self_ty.as_deref() == Some("Typescript"));
    match ts {
        None => ctx.fail_closed("C10.empty", "anchor not found: Typescript::generate"),
        Some(f) => {
            ctx.func(&f.key);
            if let Some(mt) = model::matches_in(&f.block).into_iter().find(|mt| tok(&mt.expr) == "tld") {
                for v in &tlds.variants {
                    ctx.oblige("C10.empty", &format!("ts-generate:{}", v), true);
                    match ev.select_arm(&mt, &variant_val(tlds, v), &Env::new()) {
                        Ok((i, _)) => {
                            let empty = is_empty_result(&tok(&mt.arms[i].body));
                            if empty && !(v == "Class" || v == "Object") {
                                ctx.violate("C10.empty", &format!("ts-generate:{}", v), &f.file, span_line(&mt.arms[i]), &format!("TypeScript backend: a top-level {} definition produces no output and no warning", v));
                            }
                        }
                        Err(e) => ctx.fail_closed("C10.empty", &e),
                    }
                }
            }
            if let Some(mt) = model::matches_in(&f.block).into_iter().find(|mt| tok(&mt.expr) == "t.ty") {
                for v in &types.variants {
                    ctx.oblige("C10.empty", &format!("ts-generate-type:{}", v), true);
                    match ev.select_arm(&mt, &variant_val(types, v), &Env::new()) {
                        Ok((i, _)) => {
                            if is_empty_result(&tok(&mt.arms[i].body)) {
                                ctx.violate("C10.empty", &format!("ts-generate-type:{}", v), &f.file, span_line(&mt.arms[i]), &format!("TypeScript backend: a type assignment of kind {} produces no output and no warning", v));
                            }
                        }
                        Err(e) => ctx.fail_closed("C10.empty", &e),
                    }
                }
            }
        }
    }
}

fn key(m: &Model, ctx: &mut Ctx) {
    let Some(f) = anchor_fn(m, ctx, "C10.key", Some("Validator"), "new", None) else { return };
    ctx.oblige("C10.key", "definitions-map-key", true);
    // the closure building (key, tld)
    struct C {
        out: Vec<syn::ExprClosure>,
    }
    impl model::DeepCb for C {
        fn expr(&mut self, e: &syn::Expr) {
            if let syn::Expr::Closure(c) = e {
                if let syn::Expr::Tuple(_) = &*c.body {
                    self.out.push(c.clone());
                }
            }
        }
    }
    let mut c = C { out: vec![] };
    model::deep_walk_block(&f.block, &mut c);
    if c.out.len() != 1 {
        ctx.fail_closed("C10.key", "Validator::new: (key, definition) closure not found");
        return;
    }
    if let syn::Expr::Tuple(t) = &*c.out[0].body {
        let k = tok(&t.elems[0]);
        let mentions_module = k.contains("module") || k.contains("header");
        if !mentions_module {
            ctx.violate("C10.key", "name-only-key", &f.file, span_line(&c.out[0]),
                &format!("the definitions map is keyed by `{}` — the bare name: two modules that each define `A` collide, the later one silently replaces the earlier (which one survives depends on source order, see C11)", k));
        }
        ctx.sample(json!({"definitions_map_key": k}));
    }
}

fn pair(m: &Model, ctx: &mut Ctx, consts: &dyn Fn(&str) -> Option<Val>) {
    let Some(f) = anchor_fn(m, ctx, "C10.pair", Some("Validator"), "link", None) else { return };
    let Ok(tlds) = m.find_enum("ToplevelDefinition") else { return };
    let ev = Evaluator { consts, call_hook: &crate::eval::no_hook, inline: None };
    struct C {
        out: Vec<syn::ExprIf>,
    }
    impl model::DeepCb for C {
        fn expr(&mut self, e: &syn::Expr) {
            if let syn::Expr::If(i) = e {
                let all = tok(i);
                if all.contains(".remove_entry(&key)") || all.contains(".remove(&key)") {
                    self.out.push(i.clone());
                }
            }
        }
    }
    let mut c = C { out: vec![] };
    model::deep_walk_block(&f.block, &mut c);
    // outermost statements only: drop ifs nested in another collected if
    let texts: Vec<String> = c.out.iter().map(|i| tok(i)).collect();
    let outer: Vec<&syn::ExprIf> = c.out.iter().enumerate().filter(|(i, _)| !texts.iter().enumerate().any(|(j, t)| j != *i && t.len() > texts[*i].len() && t.contains(&texts[*i]))).map(|(_, x)| x).collect();
    ctx.floor("C10.pair/removal-sites", outer.len(), 8);
    for i in outer {
        let text = tok(i);
        let removes = text.matches(".remove_entry(&key)").count() + text.matches(".remove(&key)").count();
        let inserts = text.matches("self.tlds.insert(").count();
        let cond = tok(&i.cond);
        let key = cond.chars().take(70).collect::<String>();
        ctx.oblige("C10.pair", &key, true);
        if inserts < removes {
            ctx.violate("C10.pair", &format!("no-reinsert:{}", key), &f.file, span_line(i), &format!("`if {} ..` removes the definition from the map {} time(s) but re-inserts it {} time(s): a definition can be lost without a warning", cond, removes, inserts));
            continue;
        }
        // must-reinsert: on every path through the code that has taken the entry out of the map, it is put back
        // (the re-insertion is a statement of the binding block itself, or of every branch of an if/else / match in it)
        fn is_insert(e: &syn::Expr) -> bool {
            matches!(e, syn::Expr::MethodCall(mc) if mc.method == "insert" && tok(&mc.receiver).ends_with("tlds"))
        }
        fn must_insert_expr(e: &syn::Expr) -> bool {
            match e {
                e if is_insert(e) => true,
                syn::Expr::Block(b) => must_insert(&b.block),
                syn::Expr::If(i) => match &i.else_branch {
                    Some((_, el)) => must_insert(&i.then_branch) && must_insert_expr(el),
                    None => false,
                },
                syn::Expr::Match(m) => !m.arms.is_empty() && m.arms.iter().all(|a| must_insert_expr(&a.body)),
                _ => false,
            }
        }
        fn must_insert(b: &syn::Block) -> bool {
            b.stmts.iter().any(|s| match s {
                syn::Stmt::Expr(e, _) => must_insert_expr(e),
                _ => false,
            })
        }
        struct R {
            bad: Vec<(usize, String)>,
            sites: usize,
        }
        fn takes_entry(e: &syn::Expr) -> bool {
            let t = tok(e);
            t.contains(".remove_entry(&key)") || t.contains(".remove(&key)")
        }
        fn binds(p: &syn::Pat) -> bool {
            let mut ids = vec![];
            crate::model::collect_idents(&quote::ToTokens::to_token_stream(p), &mut ids);
            ids.iter().any(|i| i.chars().next().map(|c| c.is_lowercase()).unwrap_or(false) && i != "mut" && i != "ref" && i != "_")
        }
        impl model::DeepCb for R {
            fn expr(&mut self, e: &syn::Expr) {
                match e {
                    syn::Expr::If(i) => {
                        if let syn::Expr::Let(l) = &*i.cond {
                            if takes_entry(&l.expr) {
                                self.sites += 1;
                                if !must_insert(&i.then_branch) {
                                    self.bad.push((span_line(i), format!("if let {} = ..remove..", tok(&l.pat))));
                                }
                            }
                        }
                    }
                    syn::Expr::Match(m) if takes_entry(&m.expr) => {
                        self.sites += 1;
                        for a in &m.arms {
                            let pt = tok(&a.pat);
                            if binds(&a.pat) && !pt.starts_with("Err(") && !must_insert_expr(&a.body) {
                                self.bad.push((span_line(a), format!("match arm {}", pt)));
                            }
                        }
                    }
                    _ => {}
                }
            }
        }
        let mut r = R { bad: vec![], sites: 0 };
        model::deep_walk_expr(&syn::Expr::If((*i).clone()), &mut r);
        // `let item = ..remove..; ..; if let Some(..) = item { insert }`
        for (si, st) in i.then_branch.stmts.iter().enumerate() {
            if let syn::Stmt::Local(l) = st {
                if let (syn::Pat::Ident(pi), Some(init)) = (&l.pat, &l.init) {
                    if takes_entry(&init.expr) {
                        r.sites += 1;
                        let var = pi.ident.to_string();
                        let ok = i.then_branch.stmts.iter().skip(si + 1).any(|s2| match s2 {
                            syn::Stmt::Expr(syn::Expr::If(i2), _) => matches!(&*i2.cond, syn::Expr::Let(l2) if tok(&l2.expr) == var) && must_insert(&i2.then_branch),
                            _ => false,
                        });
                        if !ok {
                            r.bad.push((span_line(l), format!("let {} = ..remove..", var)));
                        }
                    }
                }
            }
        }
        if r.sites == 0 {
            ctx.fail_closed("C10.pair", &format!("`if {} ..`: the construct that binds the removed entry was not recognised", key));
        }
        for (line, what) in r.bad {
            ctx.violate("C10.pair", &format!("reinsert-not-on-every-path:{}", key), &f.file, line,
                &format!("`{}` takes the definition out of the map, but the re-insertion is not reached on every path of the block that holds it (it is conditional or missing): the definition can vanish from the compilation without output and without a warning", what));
        }
        // accepted variants of refutable patterns on the removed entry
        let mut accepted: BTreeSet<String> = BTreeSet::new();
        for v in &tlds.variants {
            if text.contains(&format!("ToplevelDefinition::{}(", v)) {
                accepted.insert(v.clone());
            }
        }
        // patterns inside the *condition* (matches![..get(&key), ..]) are guards, not acceptance patterns of the removal
        let refutable = text.contains("Some((k,ToplevelDefinition::") || text.contains("Some((_,ToplevelDefinition::");
        if !refutable {
            continue; // `Some((k, mut tld))` / remove(..).ok_or_else: every variant is accepted and re-inserted
        }
        // every accepting arm re-inserts: count arms `Some((k,ToplevelDefinition::V(` vs inserts
        let arms = text.matches("Some((k,ToplevelDefinition::").count();
        if arms > 0 && inserts < arms {
            ctx.violate("C10.pair", &format!("arm-without-reinsert:{}", key), &f.file, span_line(i), "an arm that takes the removed definition does not put it back");
        }
        // the guard
        let guard = cond.strip_prefix("self.").and_then(|s| s.split('(').next()).map(|s| s.to_string());
        if cond.starts_with("matches!") {
            // the guard is a structural test on the same entry: accepted variants are exactly the ones it names, and the
            // body re-inserts `item` unconditionally when it is Some
            if !text.contains("if let Some((k,tld))=item{self.tlds.insert(k,tld);}") {
                ctx.violate("C10.pair", &format!("unconditional-reinsert:{}", key), &f.file, span_line(i), "the removed item must be re-inserted whatever its shape");
            }
            continue;
        }
        let Some(guard) = guard else {
            ctx.fail_closed("C10.pair", &format!("cannot identify the guard of `{}`", key));
            continue;
        };
        let Ok(g) = m.find_fn(Some("Validator"), &guard, None) else {
            ctx.fail_closed("C10.pair", &format!("guard fn {} not found", guard));
            continue;
        };
        ctx.func(&g.key);
        let Some(mt) = model::matches_in(&g.block).into_iter().find(|mt| tok(&mt.expr) == "t") else {
            ctx.fail_closed("C10.pair", &format!("guard fn {}: no match over the definition", guard));
            continue;
        };
        for v in &tlds.variants {
            ctx.oblige("C10.pair", &format!("{}:{}", guard, v), true);
            match ev.select_arm(&mt, &variant_val(tlds, v), &Env::new()) {
                Ok((ai, _)) => {
                    let body = tok(&mt.arms[ai].body);
                    let may_be_true = body != "false";
                    if may_be_true && !accepted.contains(v) {
                        ctx.violate("C10.pair", &format!("guard-wider-than-pattern:{}:{}", guard, v), &f.file, span_line(i),
                            &format!("{}() can be true for a {} definition, but the removal it guards only re-inserts {:?}: a {} definition would be removed from the map and dropped without a warning", guard, v, accepted, v));
                    }
                }
                Err(e) => ctx.fail_closed("C10.pair", &format!("{}: {}", guard, e)),
            }
        }
    }
}

fn local(m: &Model, ctx: &mut Ctx, consts: &dyn Fn(&str) -> Option<Val>) {
    // fold closures of generate_module (both backends)
    let gms: Vec<&FnInfo> = m.fns.iter().filter(|f| f.name == "generate_module" && f.module.starts_with("generator::")).collect();
    ctx.floor("C10.local/generate_module-impls", gms.len(), 2);
    for f in gms {
        ctx.func(&f.key);
        struct C {
            out: Vec<(syn::Expr, syn::ExprClosure)>,
        }
        impl model::DeepCb for C {
            fn expr(&mut self, e: &syn::Expr) {
                if let syn::Expr::MethodCall(mc) = e {
                    if mc.method == "fold" && mc.args.len() == 2 && tok(&mc.receiver).contains("tlds.into_iter()") {
                        if let syn::Expr::Closure(c) = &mc.args[1] {
                            self.out.push((mc.args[0].clone(), c.clone()));
                        }
                    }
                }
            }
        }
        let mut c = C { out: vec![] };
        model::deep_walk_block(&f.block, &mut c);
        if c.out.len() != 1 {
            ctx.violate("C10.local", &format!("{}:fold", f.key), &f.file, f.line, "generate_module must fold over the module's definitions, collecting output and warnings separately");
            continue;
        }
        let (init, clo) = &c.out[0];
        let body = tok(&clo.body);
        ctx.oblige("C10.local", &format!("{}:no-early-exit", f.key), true);
        if body.contains('?') || body.contains("return ") {
            ctx.violate("C10.local", &format!("{}:early-exit", f.key), &f.file, span_line(clo), "the per-definition fold must not leave early (`?`/return): an error in one definition would remove the bindings of the others");
        }
        for outcome in ["Ok", "Err"] {
            ctx.oblige("C10.local", &format!("{}:{}", f.key, outcome), true);
            let hook = move |_: &Evaluator, name: &str, _a: &[Val]| -> Option<Result<Val, String>> {
                if name == ".generate_tld" || name == ".generate" {
                    return Some(Ok(Val::Ctor(outcome.into(), vec![Val::Str("X".into())], BTreeMap::new())));
                }
                None
            };
            let ev = Evaluator { consts, call_hook: &hook, inline: None };
            let mut env = Env::new();
            env.insert("self".into(), Val::ctor("backend"));
            let acc0 = match ev.eval(init, &mut env.clone()) {
                Ok(Val::Tuple(t)) if t.len() == 2 => Val::Tuple(vec![match &t[0] { Val::List(_) => t[0].clone(), Val::Str(_) => t[0].clone(), _ => Val::Str(String::new()) }, Val::List(vec![])]),
                _ => Val::Tuple(vec![Val::List(vec![]), Val::List(vec![])]),
            };
            match ev.apply_closure(&syn::Expr::Closure(clo.clone()), &[acc0.clone(), Val::ctor("tld")], &env) {
                Ok(Val::Tuple(t)) => {
                    let len = |v: &Val| match v { Val::List(l) => l.len() as i64, Val::Str(s) => if s.is_empty() { 0 } else { 1 }, _ => -1 };
                    let (o, w) = (len(&t[0]), len(&t[1]));
                    let want = if outcome == "Ok" { (1, 0) } else { (0, 1) };
                    if (o.min(1), w) != want {
                        ctx.violate("C10.local", &format!("{}:{}", f.key, outcome), &f.file, span_line(clo),
                            &format!("when a definition generates {}, the fold adds {} output item(s) and {} warning(s); expected {:?}: every failing definition becomes exactly one warning and the others are unaffected", outcome, o, w, want));
                    }
                }
                Ok(o) => ctx.fail_closed("C10.local", &format!("{}: fold closure returned {}", f.key, o.show())),
                Err(e) => ctx.fail_closed("C10.local", &format!("{}: {}", f.key, e)),
            }
        }
    }
    // validate(): evaluated on three definitions (valid, invalid, valid) after a link() that already produced a warning
    if let Some(f) = anchor_fn(m, ctx, "C10.local", Some("Validator"), "validate", None) {
        ctx.oblige("C10.local", "validate-fold", true);
        let ok = |v: Val| Val::Ctor("Ok".into(), vec![v], BTreeMap::new());
        let hook = |_: &Evaluator, name: &str, a: &[Val]| -> Option<Result<Val, String>> {
            match name {
                ".link" if a.len() == 1 => Some(Ok(Val::Ctor("Ok".into(), vec![Val::Tuple(vec![a[0].clone(), Val::List(vec![Val::Sym("W-link".into())])])], BTreeMap::new()))),
                ".validate" if a.len() == 1 => Some(Ok(match &a[0] {
                    Val::Sym(s) if s.starts_with("bad") => Val::Ctor("Err".into(), vec![Val::Sym(format!("E-{}", s))], BTreeMap::new()),
                    _ => Val::Ctor("Ok".into(), vec![Val::Unit], BTreeMap::new()),
                })),
                ".into" if a.len() == 1 => Some(Ok(a[0].clone())),
                _ => None,
            }
        };
        let _ = ok;
        let ev = Evaluator { consts, call_hook: &hook, inline: None };
        let mut tl = crate::eval::new_map();
        for (k, v) in [("a", "good1"), ("b", "bad1"), ("c", "good2")] {
            tl = crate::eval::map_insert(tl, Val::Str(k.into()), Val::Sym(v.into()));
        }
        let mut me = BTreeMap::new();
        me.insert("tlds".to_string(), tl);
        let mut env = Env::new();
        env.insert("self".into(), Val::Ctor("Validator".into(), vec![], me));
        match ev.eval_fn_body(&f.block, &mut env) {
            Ok(Val::Ctor(okc, p, _)) if okc == "Ok" && matches!(p.first(), Some(Val::Tuple(t)) if t.len() == 2) => {
                let Some(Val::Tuple(t)) = p.first() else { unreachable!() };
                let kept = t[0].show().replace(' ', "");
                let warns = t[1].show().replace(' ', "");
                let kept_ok = kept.contains("good1") && kept.contains("good2") && !kept.contains("bad1");
                let warns_ok = warns.matches("E-bad1").count() == 1 && warns.contains("W-link") && !warns.contains("good");
                if !(kept_ok && warns_ok) {
                    ctx.violate("C10.local", "validate-fold", &f.file, f.line, &format!("validate() on the definitions good1, bad1, good2 (link() having warned once) keeps {} with the warnings {}: it must keep a valid definition, turn an invalid one into exactly one warning, keep the linker's warnings, and continue", kept, warns));
                }
            }
            Ok(o) => ctx.fail_closed("C10.local", &format!("[validate]: result {}", o.show().chars().take(120).collect::<String>())),
            Err(e) => ctx.fail_closed("C10.local", &format!("[validate]: {}", e)),
        }
    }
    // internal_compile evaluated with no sources to read, a validator that yields two modules' definitions and one
    // warning, and a backend whose second module produces no text but a warning
    if let Some(f) = anchor_fn(m, ctx, "C10.local", None, "internal_compile", None) {
        ctx.oblige("C10.local", "module-warnings-unconditional", true);
        ctx.oblige("C10.local", "validator-warnings-unconditional", true);
        ctx.oblige("C10.local", "result-carries-warnings", true);
        let okv = |v: Val| Val::Ctor("Ok".into(), vec![v], BTreeMap::new());
        let hook = |_: &Evaluator, name: &str, a: &[Val]| -> Option<Result<Val, String>> {
            match name {
                "Validator::new" => Some(Ok(Val::ctor("Validator"))),
                ".validate" if a.len() == 1 => Some(Ok(okv(Val::Tuple(vec![Val::List(vec![Val::Sym("tld-m1".into()), Val::Sym("tld-m2".into())]), Val::List(vec![Val::Sym("W-validator".into())])])))),
                // the grouping by module is C11/C12's business: two modules
                "list.fold" if a.first().map(|r| r.show().contains("tld-m1")).unwrap_or(false) => {
                    let mut mp = crate::eval::new_map();
                    mp = crate::eval::map_insert(mp, Val::Str("M1".into()), Val::List(vec![Val::Sym("tld-m1".into())]));
                    mp = crate::eval::map_insert(mp, Val::Str("M2".into()), Val::List(vec![Val::Sym("tld-m2".into())]));
                    Some(Ok(mp))
                }
                ".generate_module" if a.len() == 2 => {
                    let which = a[1].show();
                    let mut g = BTreeMap::new();
                    if which.contains("tld-m1") {
                        g.insert("generated".to_string(), Val::some(Val::Str("TEXT-M1".into())));
                        g.insert("warnings".to_string(), Val::List(vec![Val::Sym("W-mod".into())]));
                    } else {
                        g.insert("generated".to_string(), Val::none());
                        // an equal warning (two definitions of the same unsupported kind): it accounts for another definition
                        g.insert("warnings".to_string(), Val::List(vec![Val::Sym("W-mod".into())]));
                    }
                    Some(Ok(okv(Val::Ctor("GeneratedModule".into(), vec![], g))))
                }
                _ => None,
            }
        };
        let ev = Evaluator { consts, call_hook: &hook, inline: None };
        let mut st = BTreeMap::new();
        st.insert("sources".to_string(), Val::List(vec![]));
        let mut me = BTreeMap::new();
        me.insert("state".to_string(), Val::Ctor("CompilerReady".into(), vec![], st));
        me.insert("backend".to_string(), Val::ctor("Backend"));
        let mut env = Env::new();
        env.insert("self".into(), Val::Ctor("Compiler".into(), vec![], me));
        match ev.eval_fn_body(&f.block, &mut env) {
            Ok(Val::Ctor(okc, p, _)) if okc == "Ok" && matches!(p.first(), Some(Val::Ctor(c, _, _)) if c == "CompileResult") => {
                let Some(Val::Ctor(_, _, fields)) = p.first() else { unreachable!() };
                let warns = fields.get("warnings").map(|v| v.show()).unwrap_or_default();
                let text = fields.get("generated").map(|v| v.show()).unwrap_or_default();
                for (w, n, key, msg) in [
                    ("W-mod", 2, "module-warnings-unconditional", "the (equal) warnings of the module that produced text and of the module that produced none"),
                    ("W-validator", 1, "validator-warnings-unconditional", "the validator's warnings"),
                ] {
                    if warns.matches(w).count() != n {
                        ctx.violate("C10.local", key, &f.file, f.line, &format!("internal_compile: {} must each reach the result exactly once (result warnings: {})", msg, warns));
                    }
                }
                if !text.contains("TEXT-M1") {
                    ctx.violate("C10.local", "result-carries-warnings", &f.file, f.line, &format!("internal_compile must return the generated text with the collected warnings (generated: {})", text));
                }
            }
            Ok(o) => ctx.fail_closed("C10.local", &format!("[internal_compile]: result {}", o.show().chars().take(160).collect::<String>())),
            Err(e) => ctx.fail_closed("C10.local", &format!("[internal_compile]: {}", e)),
        }
    }
    // the formatting step between internal_compile and the caller hands every warning on
    crate::rules::c20::fmt_keeps(m, ctx, "C10.local");
    // a backend that generated nothing for a module still returns that module's warnings
    for f in m.fns.iter().filter(|f| f.name == "generate_module" && f.module.starts_with("generator::")) {
        ctx.oblige("C10.local", &format!("{}:warnings-returned", f.key), true);
        let b = tok(&f.block);
        let n_results = b.matches("GeneratedModule{").count();
        let with_warnings = b.matches("warnings,}").count() + b.matches("warnings}").count();
        if n_results != with_warnings {
            ctx.violate("C10.local", &format!("{}:warnings-returned", f.key), &f.file, f.line, "every GeneratedModule built in generate_module must carry the collected warnings");
        }
    }
    // linker: every Err in link() becomes a warning that names the definition
    if let Some(f) = anchor_fn(m, ctx, "C10.local", Some("Validator"), "link", None) {
        let b = tok(&f.block);
        let pushes = b.matches("warnings.push(e.into())").count();
        let ctxs = b.matches("e.contextualize(&key);").count();
        ctx.oblige("C10.local", "link-warnings-name-the-definition", true);
        if pushes == 0 || ctxs < pushes {
            ctx.violate("C10.local", "link-warnings-name-the-definition", &f.file, f.line, &format!("link() pushes {} warnings but contextualizes {}: every linker warning must carry the name of the definition it is about", pushes, ctxs));
        }
    }
}

/// `abstractSyntax ID ::= {ds 9}` with `ID ::= OBJECT IDENTIFIER`: the lexer's first alternative reads it as an information
/// object of class ID. Information objects produce no output, so the value assignment would vanish without a trace unless
/// somebody notices that ID is a type: either the linker arm resolving the object's class leaves a warning, or a generator
/// reports an object whose class is still a bare name.
fn misread_value(m: &Model, ctx: &mut Ctx, consts: &dyn Fn(&str) -> Option<Val>) {
    let rule = "C10.class";
    let named = |n: &str, fields: Vec<(&str, Val)>| Val::Ctor(n.to_string(), vec![], fields.into_iter().map(|(k, v)| (k.to_string(), v)).collect::<BTreeMap<_, _>>());
    let header = |module: &str| Val::some(named("ModuleHeader", vec![("name", Val::Str(module.into()))]));
    let object = |class: Val| named("ToplevelInformationDefinition", vec![
        ("name", Val::Str("abstractSyntax".into())),
        ("class", class),
        ("value", Val::Ctor("Object".into(), vec![Val::Opaque("fields".into())], BTreeMap::new())),
        ("parameterization", Val::none()),
        ("module_header", header("Here")),
    ]);
    let by_name = |n: &str| Val::Ctor("ByName".into(), vec![Val::Str(n.into())], BTreeMap::new());
    let ty_tld_in = |module: &str| Val::Ctor("Type".into(), vec![named("ToplevelTypeDefinition", vec![("name", Val::Str("ID".into())), ("ty", Val::Ctor("ObjectIdentifier".into(), vec![Val::Opaque("oid".into())], BTreeMap::new())), ("module_header", header(module))])], BTreeMap::new());
    let ty_tld = ty_tld_in("Here");
    let class_tld = Val::Ctor("Class".into(), vec![named("ToplevelClassDefinition", vec![("name", Val::Str("CLS".into())), ("definition", Val::Sym("<class CLS>".into()))])], BTreeMap::new());
    ctx.oblige(rule, "misread-value:reported", true);
    ctx.oblige(rule, "real-object:quiet", true);
    // (a) the linker arm
    let Some(f) = anchor_fn(m, ctx, rule, Some("Validator"), "link", None) else { return };
    let arm = model::matches_in(&f.block).into_iter().find_map(|mt| {
        if !tok(&mt.expr).contains("remove") {
            return None;
        }
        mt.arms.iter().position(|a| tok(&a.pat).contains("ToplevelDefinition::Object") && tok(&a.body).contains("resolve_class_reference")).map(|i| (mt.clone(), i))
    });
    let hook = |_: &Evaluator, name: &str, a: &[Val]| -> Option<Result<Val, String>> {
        match name {
            "LinkerError::new" | "GrammarError::new" | "CompilerError::from" => Some(Ok(Val::Sym(format!("<error {}>", a.iter().map(|v| v.show()).collect::<Vec<_>>().join(" ").chars().take(80).collect::<String>())))),
            // Rc<RefCell<ModuleHeader>> is modelled by the header itself
            ".borrow" | ".borrow_mut" | ".clone" | ".cloned" | ".as_ref" if a.len() == 1 => Some(Ok(a[0].clone())),
            _ => None,
        }
    };
    let mut inl = inline_all(m, &["ToplevelInformationDefinition"]);
    // helpers of the validator and of the definitions it asks about (`get_module_header`, a module comparison, ..)
    for (ty, only) in [("Validator", None), ("ToplevelDefinition", Some(["get_module_header", "name"]))] {
        for g in m.fns.iter().filter(|g| g.self_ty.as_deref() == Some(ty) && g.trait_.is_none() && g.name != "link" && g.name != "validate" && only.map(|o| o.contains(&g.name.as_str())).unwrap_or(true)) {
            let ps: Vec<String> = g.sig.inputs.iter().filter_map(|a| match a { syn::FnArg::Typed(t) => Some(tok(&t.pat).replace("mut ", "")), _ => None }).collect();
            let has_self = g.sig.inputs.iter().any(|a| matches!(a, syn::FnArg::Receiver(_)));
            inl.entry(if has_self { format!(".{}", g.name) } else { g.name.clone() }).or_insert((ps, g.block.clone()));
        }
    }
    let ev = Evaluator { consts, call_hook: &hook, inline: Some(&inl) };
    let mut linker_reports = None;
    let mut linker_quiet = None;
    if let Some((mt, i)) = &arm {
        // the governing type may be a definition of the object's own module or of another one (imported)
        for (class, want_warning, type_module) in [("ID", true, "Here"), ("ID", true, "Elsewhere"), ("CLS", false, "Here"), ("NOT-SUPPLIED", false, "Here")] {
            let mut tlds = crate::eval::new_map();
            tlds = crate::eval::map_insert(tlds, Val::Str("ID".into()), if type_module == "Here" { ty_tld.clone() } else { ty_tld_in(type_module) });
            tlds = crate::eval::map_insert(tlds, Val::Str("CLS".into()), class_tld.clone());
            let mut env = Env::new();
            env.insert("self".into(), named("Validator", vec![("tlds", tlds)]));
            env.insert("warnings".into(), Val::List(vec![]));
            env.insert("key".into(), Val::Str("abstractSyntax".into()));
            let scrut = Val::some(Val::Tuple(vec![Val::Str("abstractSyntax".into()), Val::Ctor("Object".into(), vec![object(by_name(class))], BTreeMap::new())]));
            let r = ev.select_arm(mt, &scrut, &env).and_then(|(j, mut e2)| {
                if j != *i {
                    return Err(format!("the object is handled by arm {} instead of the class-resolving arm", j));
                }
                ev.eval(&mt.arms[j].body, &mut e2)?;
                match e2.get("warnings") {
                    Some(Val::List(l)) => Ok(l.len()),
                    o => Err(format!("warnings became {}", o.map(|v| v.show()).unwrap_or_default())),
                }
            });
            match r {
                Ok(n) if want_warning => {
                    if type_module != "Here" && n == 0 && linker_reports == Some(true) {
                        ctx.violate(rule, "misread-value:silent:imported-governor", &f.file, f.line,
                            "`w ID ::= { a 1 }` with the type ID defined in *another* module (imported): the linker reports the misread value assignment only when the governing type is a definition of the same module — here the assignment is read as an information object, generates nothing and is not the subject of any warning");
                    }
                    if type_module == "Here" { linker_reports = Some(n > 0); }
                }
                Ok(n) => {
                    if n > 0 {
                        linker_quiet = Some(class);
                    }
                }
                Err(e) => {
                    ctx.fail_closed(rule, &format!("Validator::link, object of class {}: {}", class, e));
                    return;
                }
            }
        }
    }
    if let Some(class) = linker_quiet {
        ctx.violate(rule, "real-object:warned", &f.file, f.line, &format!("an information object whose class {} is warned about although nothing is lost: objects are a documented silent category and a class that is not among the supplied modules is not an error of this definition", if class == "CLS" { "is a defined class" } else { "is not supplied" }));
    }
    if linker_reports == Some(true) {
        return;
    }
    // (b) a generator that refuses an object whose class is still a name
    let gen_hook = |_: &Evaluator, name: &str, _a: &[Val]| -> Option<Result<Val, String>> {
        if name.starts_with(".generate_") {
            return Some(Ok(Val::Ctor("Ok".into(), vec![Val::Sym(format!("<{}>", &name[1..]))], BTreeMap::new())));
        }
        match name {
            "TokenStream::new" | "String::new" => Some(Ok(Val::Sym(String::new()))),
            _ => None,
        }
    };
    let ev2 = Evaluator { consts, call_hook: &gen_hook, inline: None };
    let mut generator_reports = false;
    if let Some(g) = m.fns.iter().find(|f| f.name == "generate_tld" && f.self_ty.as_deref() == Some("Rasn")) {
        let param = g.sig.inputs.iter().filter_map(|a| match a { syn::FnArg::Typed(t) => Some(tok(&t.pat)), _ => None }).next().unwrap_or("tld".into());
        let mut env = Env::new();
        env.insert("self".into(), Val::ctor("Rasn"));
        env.insert(param, Val::Ctor("Object".into(), vec![object(by_name("ID"))], BTreeMap::new()));
        if let Ok(Val::Ctor(e, _, _)) = ev2.eval_fn_body(&g.block, &mut env) {
            generator_reports = e == "Err";
        }
    }
    if !generator_reports {
        ctx.violate(rule, "misread-value:silent", &f.file, arm.as_ref().map(|(mt, i)| span_line(&mt.arms[*i])).unwrap_or(f.line),
            "`abstractSyntax ID ::= {ds 9}` (ID ::= OBJECT IDENTIFIER) is read as an information object of class ID; the linker finds no class of that name, leaves the object as it is, and the generators emit nothing for objects: the value assignment disappears without a warning, and `id-as ID ::= abstractSyntax` then names a constant that does not exist");
    }
}

/// C10.name: "represented … under its own name" begins where the lexer's parse result becomes IR: every
/// `impl From<..> for Toplevel*Definition` is evaluated on an input whose identifier components are distinct symbols; the
/// `name` of the definition it builds must be the reference the assignment *defines* — the first identifier of the
/// production (every X.680 assignment starts with the reference being assigned), for a MACRO definition its `name` field
/// whatever the substance (body, reference to another macro, external reference). A definition stored under another
/// identifier of the production collides with the definition of that name in the name-keyed table and vanishes.
fn ir_names(m: &Model, ctx: &mut Ctx, consts: &dyn Fn(&str) -> Option<Val>) {
    let rule = "C10.name";
    let ev = Evaluator { consts, call_hook: &crate::eval::no_hook, inline: None };
    let mut n = 0;
    for f in m.fns.iter().filter(|f| f.name == "from" && f.self_ty.as_deref().is_some_and(|t| t.starts_with("Toplevel") && t.ends_with("Definition")) && f.module.starts_with("intermediate")) {
        let Some(syn::FnArg::Typed(pt)) = f.sig.inputs.first() else { continue };
        let pname = tok(&pt.pat).replace("mut ", "");
        let target = f.self_ty.clone().unwrap_or_default();
        ctx.func(&f.key);
        // the inputs to try: (label, value, expected name)
        let mut inputs: Vec<(String, Val, String)> = vec![];
        match &*pt.ty {
            syn::Type::Tuple(t) => {
                let mut vals = vec![];
                let mut first_ident = None;
                for (i, el) in t.elems.iter().enumerate() {
                    let ts = tok(el);
                    let v = if ts == "&str" || ts == "&'astr" || ts.starts_with("&'") && ts.ends_with("str") {
                        if first_ident.is_none() {
                            first_ident = Some(format!("ident{}", i));
                        }
                        Val::Str(format!("ident{}", i))
                    } else if ts.starts_with("Vec<") {
                        Val::List(vec![])
                    } else if ts.starts_with("Option<") {
                        Val::none()
                    } else {
                        Val::Opaque(format!("component{}", i))
                    };
                    vals.push(v);
                }
                let Some(first) = first_ident else { continue };
                inputs.push((tok(&pt.ty), Val::Tuple(vals), first));
            }
            _ => {
                // a struct delivered by the lexer: its `name` field is the defined reference; every enum-typed field is tried with each variant
                let tyname = tok(&pt.ty).split('<').next().unwrap_or("").to_string();
                let Some(st) = m.structs.iter().find(|s| s.name == tyname) else {
                    ctx.fail_closed(rule, &format!("{}: input type {} is not a struct of the crate", f.key, tyname));
                    continue;
                };
                let mut variants: Vec<(String, Val)> = vec![("".into(), Val::Unit)];
                let mut enum_field = None;
                for (fname, fty, _) in &st.fields {
                    let base = fty.split('<').next().unwrap_or("").to_string();
                    if let Ok(en) = m.find_enum(&base) {
                        enum_field = Some(fname.clone());
                        variants = en.variants.iter().map(|v| {
                            let fields = en.variant_fields.get(v).cloned().unwrap_or_default();
                            let named: BTreeMap<String, Val> = fields.iter().filter(|(k, _)| !k.is_empty() && !k.chars().all(|c| c.is_ascii_digit())).map(|(k, _)| (k.clone(), Val::Str(format!("other-{}", k)))).collect();
                            let pos: Vec<Val> = if named.is_empty() { fields.iter().map(|_| Val::Str("other".into())).collect() } else { vec![] };
                            (v.clone(), Val::Ctor(v.clone(), pos, named))
                        }).collect();
                    }
                }
                for (vn, vv) in variants {
                    let mut fl = BTreeMap::new();
                    for (fname, _, _) in &st.fields {
                        fl.insert(fname.clone(), if fname == "name" { Val::Str("DEFINED".into()) } else if Some(fname) == enum_field.as_ref() { vv.clone() } else { Val::Opaque(fname.clone()) });
                    }
                    inputs.push((format!("{}{}", tyname, if vn.is_empty() { String::new() } else { format!(" / {}", vn) }), Val::Ctor(tyname.clone(), vec![], fl), "DEFINED".into()));
                }
            }
        }
        for (label, input, want) in inputs {
            n += 1;
            ctx.oblige(rule, &format!("{}<-{}", target, label), true);
            let mut env = Env::new();
            env.insert(pname.clone(), input);
            match ev.eval_fn_body(&f.block, &mut env) {
                Ok(Val::Ctor(_, _, fl)) => {
                    let got = match fl.get("name") { Some(Val::Str(s)) => s.clone(), Some(o) => o.show(), None => "<no name field>".into() };
                    if got != want {
                        ctx.violate(rule, &format!("not-the-defined-name:{}", target), &f.file, f.line,
                            &format!("`impl From<{}> for {}` names the definition `{}`; the reference the assignment defines is `{}`: the definition is stored under another identifier of the production — in the name-keyed definitions table it replaces (or is replaced by) the definition of that name, and the assignment itself appears neither in the output nor in a warning", label, target, got, want));
                    }
                }
                Ok(o) => ctx.fail_closed(rule, &format!("[{} <- {}]: result {}", target, label, o.show().chars().take(80).collect::<String>())),
                Err(e) => ctx.fail_closed(rule, &format!("[{} <- {}]: {}", target, label, e)),
            }
        }
    }
    ctx.floor("C10.name/conversions", n, 8);
}

fn discard(m: &Model, ctx: &mut Ctx) {
    let audit: Value = std::fs::read_to_string(ctx.verif.join("audit/discard.json")).ok().and_then(|s| serde_json::from_str(&s).ok()).unwrap_or(json!({"benign": {}}));
    let benign = audit["benign"].as_object().cloned().unwrap_or_default();
    let mut n = 0;
    for f in m.fns.iter().filter(|f| f.krate == "rasn-compiler" && (f.module.starts_with("validator") || f.module.starts_with("generator") || f.module == "" )) {
        struct C {
            out: Vec<(String, usize)>,
        }
        impl model::DeepCb for C {
            fn local(&mut self, l: &syn::Local) {
                if tok(&l.pat) == "_" {
                    if let Some(init) = &l.init {
                        if !matches!(&*init.expr, syn::Expr::Path(_)) {
                            self.out.push((tok(&init.expr), l.let_token.span.start().line));
                        }
                    }
                }
            }
        }
        let mut c = C { out: vec![] };
        model::deep_walk_block(&f.block, &mut c);
        // `expr.ok();` statements
        for st in stmts_deep(&f.block) {
            if let syn::Stmt::Expr(syn::Expr::MethodCall(mc), Some(_)) = &st {
                if mc.method == "ok" && mc.args.is_empty() {
                    c.out.push((tok(mc), span_line(mc)));
                }
            }
        }
        for (expr, line) in c.out {
            n += 1;
            let key = f.key.clone();
            ctx.oblige("C10.discard", &key, true);
            if expr.ends_with('?') {
                continue; // the error is propagated, only the value is ignored
            }
            if benign.contains_key(&key) {
                continue;
            }
            ctx.violate("C10.discard", &key, &f.file, line, &format!("`{}` discards the result of `{}`: an error of the linker/generator must become a warning, not vanish", f.key, expr.chars().take(100).collect::<String>()));
        }
    }
    ctx.extra.insert("discard_sites".into(), json!(n));
}

fn stmts_deep(b: &syn::Block) -> Vec<syn::Stmt> {
    let mut out = vec![];
    struct V<'a> {
        out: &'a mut Vec<syn::Stmt>,
    }
    impl<'ast, 'a> syn::visit::Visit<'ast> for V<'a> {
        fn visit_stmt(&mut self, s: &'ast syn::Stmt) {
            self.out.push(s.clone());
            syn::visit::visit_stmt(self, s);
        }
    }
    let mut v = V { out: &mut out };
    syn::visit::Visit::visit_block(&mut v, b);
    out
}

/// C10.header: definitions reach a backend grouped by the module header attached to them (internal_compile groups by
/// get_module_header(); generate_module takes the header of the group's first definition). A definition kind that is
/// never given its header falls into a group of its own that generates nothing and reports nothing. So
/// set_module_header must write the header for every ToplevelDefinition variant, get_module_header must read it for
/// every variant, and the parser must call set_module_header on every definition it returns.
fn header(m: &Model, ctx: &mut Ctx) {
    let Ok(en) = m.find_enum("ToplevelDefinition") else {
        ctx.fail_closed("C10.header", "enum ToplevelDefinition not found");
        return;
    };
    for fname in ["set_module_header", "get_module_header"] {
        let Some(f) = m.fns.iter().find(|f| f.name == fname && f.self_ty.as_deref() == Some("ToplevelDefinition")) else {
            ctx.fail_closed("C10.header", &format!("anchor not found: ToplevelDefinition::{}", fname));
            continue;
        };
        ctx.func(&f.key);
        let Some(mt) = model::matches_in(&f.block).into_iter().find(|mt| tok(&mt.expr) == "self") else {
            ctx.fail_closed("C10.header", &format!("{}: no `match self`", fname));
            continue;
        };
        for v in &en.variants {
            ctx.oblige("C10.header", &format!("{}:{}", fname, v), true);
            let arm = mt.arms.iter().find(|a| tok(&a.pat).split('|').any(|alt| alt.contains(&format!("::{}(", v)))).or_else(|| mt.arms.iter().find(|a| tok(&a.pat) == "_"));
            let ok = match arm {
                Some(a) => {
                    let b = tok(&a.body);
                    b.contains("module_header") && !b.starts_with("return") && b != "()" && b != "{}"
                }
                None => false,
            };
            if !ok {
                ctx.violate("C10.header", &format!("{}:{}", fname, v), &f.file, arm.map(|a| span_line(a)).unwrap_or(f.line),
                    &format!("ToplevelDefinition::{} does not {} the module header for a {} definition: such a definition is grouped apart from its module, generate_module finds no header for the group and returns nothing — the assignment is neither rendered nor reported", fname, if fname.starts_with("set") { "store" } else { "return" }, v));
            }
        }
    }
}


/// C10.local (errors of linking steps): every place in the validator that binds the error of a step (`if let Err(e) = step`,
/// a `match` arm `Err(e) =>`) hands that error on — into the list of warnings the compilation returns, or out of the function.
/// An error that is bound and then dropped is a definition that silently stays unlinked: lost without a warning.
fn bound_errors_reported(m: &Model, ctx: &mut Ctx) {
    let rule = "C10.local";
    let mut sites = 0;
    for f in m.fns.iter().filter(|f| f.krate == "rasn-compiler" && f.module == "validator" && f.self_ty.as_deref() == Some("Validator")) {
        struct Sites { out: Vec<(String, String, usize)> }
        impl model::DeepCb for Sites {
            fn expr(&mut self, e: &syn::Expr) {
                let bound = |p: &syn::Pat| -> Option<String> {
                    let t = tok(p);
                    let inner = t.strip_prefix("Err(")?.strip_suffix(')')?;
                    let name = inner.trim_start_matches("mut ").trim_start_matches("ref ").to_string();
                    if name.chars().all(|c| c.is_alphanumeric() || c == '_') && name != "_" && !name.is_empty() { Some(name) } else { None }
                };
                match e {
                    syn::Expr::If(i) => {
                        if let syn::Expr::Let(l) = &*i.cond {
                            if let Some(n) = bound(&l.pat) {
                                self.out.push((n, tok(&i.then_branch), crate::rules::util::span_line(i)));
                            }
                        }
                    }
                    syn::Expr::Match(mt) => {
                        for a in mt.arms.iter() {
                            if let Some(n) = bound(&a.pat) {
                                self.out.push((n, tok(&a.body), crate::rules::util::span_line(a)));
                            }
                        }
                    }
                    _ => {}
                }
            }
        }
        let mut c = Sites { out: vec![] };
        model::deep_walk_block(&f.block, &mut c);
        for (var, body, line) in c.out {
            sites += 1;
            ctx.oblige(rule, &format!("error-handed-on:{}:{}", f.name, sites), true);
            let pushed = body.contains(".push(") && (body.contains(&format!("{}.into()", var)) || body.contains(&format!("({})", var)) || body.contains(&format!("{}.clone()", var)));
            let returned = body.contains("return Err(") || body.contains(&format!("Err({}", var));
            if !pushed && !returned {
                ctx.violate(rule, &format!("bound-error-dropped:{}", f.name), &f.file, line,
                    &format!("Validator::{} binds the error of a linking step as `{}` and neither pushes it into the warnings nor returns it: the definition stays as it was and nothing tells the user (\"it is the subject of a returned warning\")", f.name, var));
            }
        }
    }
    ctx.floor("C10.local/bound-errors", sites, 7);
}
