//! C02 — constructed types keep every component, in order, with the right shape.
use crate::eval::{Env, Evaluator, Val};
use crate::model::{self, tok, Model};
use crate::report::Ctx;
use crate::rules::util::*;
use serde_json::{json, Value};
use std::collections::BTreeMap;

const PAIRS: [(&str, &str); 2] = [("Sequence", "Set"), ("SequenceOf", "SetOf")];

fn mentions(pat: &str, variant: &str) -> bool {
    pat.contains(&format!("ASN1Type::{}(", variant)) || pat.contains(&format!("ASN1Type::{}{{", variant)) || pat.ends_with(&format!("ASN1Type::{}", variant)) || pat.contains(&format!("ASN1Type::{}|", variant)) || pat.contains(&format!("ASN1Type::{})", variant))
}

/// C02.wrap (member type): format_member_or_option decides the component's Rust type — boxed when the component is recursive,
/// hoisted when it is an anonymous type. format_sequence_member may only wrap that type in `Option<..>` (for OPTIONAL components
/// and for extension addition groups); it is evaluated for every optionality x {ordinary name, group marker}: the final type
/// is the one it was handed, under `Option` exactly when expected — rebuilding the type loses the Box.
fn member_type(m: &Model, ctx: &mut Ctx) {
    use std::collections::BTreeMap as Map;
    let Some(f) = anchor_fn(m, ctx, "C02.wrap", Some("Rasn"), "format_sequence_member", None) else { return };
    let consts = const_resolver(m);
    let hook = |_: &Evaluator, name: &str, a: &[Val]| -> Option<Result<Val, String>> {
        match name {
            ".format_member_or_option" => {
                let mut f = Map::new();
                f.insert("formatted_type_name".to_string(), Val::Sym("Box<FMT>".into()));
                f.insert("annotations".to_string(), Val::Sym("ANN".into()));
                Some(Ok(Val::Ctor("Ok".into(), vec![Val::Ctor("FormattedMemberOrOption".into(), vec![], f)], Map::new())))
            }
            ".to_rust_snake_case" => Some(Ok(Val::Sym("field".into()))),
            ".default_method_name" => Some(Ok(Val::Sym("default_fn".into()))),
            ".inner_name" => Some(Ok(Val::Sym("INNER".into()))),
            // Optionality::default(): the DEFAULT value, if any
            ".default" if a.len() == 1 => Some(Ok(match &a[0] { Val::Ctor(n, p, _) if n == "Default" => Val::some(p.first().cloned().unwrap_or(Val::Unit)), _ => Val::none() })),
            ".unwrap_or_default" if a.len() == 1 => match &a[0] { Val::Ctor(n, p, _) if n == "Some" => Some(Ok(p[0].clone())), _ => Some(Ok(Val::Sym("".into()))) },
            _ => None,
        }
    };
    let ev = Evaluator { consts: &consts, call_hook: &hook, inline: None };
    let params: Vec<String> = f.sig.inputs.iter().filter_map(|a| match a { syn::FnArg::Typed(t) => Some(tok(&t.pat)), _ => None }).collect();
    for (name, group) in [("abc", false), ("ext_group_abc", true)] {
        for (opt, optional) in [(Val::ctor("Required"), false), (Val::ctor("Optional"), true), (Val::Ctor("Default".into(), vec![Val::Sym("v".into())], Map::new()), false)] {
            let key = format!("member-type:{}:{}", name, opt.show());
            ctx.oblige("C02.wrap", &key, true);
            let mut me = Map::new();
            me.insert("name".to_string(), Val::Str(name.into()));
            me.insert("optionality".to_string(), opt.clone());
            me.insert("is_recursive".to_string(), Val::Bool(true));
            let mut env = Env::new();
            env.insert("self".into(), Val::ctor("Rasn"));
            env.insert(params.first().cloned().unwrap_or("member".into()), Val::Ctor("SequenceOrSetMember".into(), vec![], me));
            env.insert(params.get(1).cloned().unwrap_or("parent_name".into()), Val::Str("Parent".into()));
            env.insert(params.get(2).cloned().unwrap_or("extension_annotation".into()), Val::Sym("".into()));
            match ev.eval_fn_body(&f.block, &mut env) {
                Ok(Val::Ctor(ok, p, _)) if ok == "Ok" => {
                    let typ = match p.first() { Some(Val::Tuple(t)) => t.get(1).and_then(|nt| match nt { Val::Ctor(_, _, f) => f.get("typ").map(|x| x.show().replace(' ', "")), _ => None }), _ => None }.unwrap_or_default();
                    let want = if optional || group { "Option<Box<FMT>>" } else { "Box<FMT>" };
                    if typ != want {
                        ctx.violate("C02.wrap", "member-type-rebuilt", &f.file, f.line,
                            &format!("format_sequence_member: a component named `{}` ({}) whose type format_member_or_option rendered as `Box<FMT>` (a recursive component) is declared `{}`, expected `{}`: the component's type may only be wrapped in Option, not rebuilt (a lost Box is a type of infinite size)", name, opt.show(), typ, want));
                    }
                }
                Ok(o) => ctx.fail_closed("C02.wrap", &format!("[{}]: {}", key, o.show().chars().take(100).collect::<String>())),
                Err(e) => ctx.fail_closed("C02.wrap", &format!("[{}]: {}", key, e)),
            }
        }
    }
}

/// C02.box: "recursive components are boxed" starts in the linker: `ASN1Type::mark_recursive` (with `recurses`) flags the
/// component that closes a reference cycle, the generators box exactly the flagged components. Both are evaluated on small
/// definition tables in the order Validator::link visits them (every definition taken out of the table while it is marked):
/// afterwards every cycle of type references that runs through SEQUENCE / SET components or CHOICE alternatives only must
/// contain a flagged component (otherwise the Rust types have infinite size), and a table without a cycle has none.
pub fn recursion_marking(m: &Model, ctx: &mut Ctx, rule: &str) {
    let Some(f) = anchor_fn(m, ctx, rule, Some("ASN1Type"), "mark_recursive", None) else { return };
    let consts = const_resolver(m);
    let mut inl = inline_all(m, &["ASN1Type"]);
    inl.retain(|k, _| k == ".recurses" || k == ".mark_recursive" || k == ".as_str");
    let inl2 = inl.clone();
    // `tld.recurses(..)` on a definition of the table is the recursion of its type (ToplevelDefinition::recurses delegates)
    let hook = move |ev: &Evaluator, name: &str, a: &[Val]| -> Option<Result<Val, String>> {
        if name == ".recurses" {
            if let Some(Val::Ctor(k, p, _)) = a.first() {
                if k == "Type" {
                    let ty = match p.first() { Some(Val::Ctor(_, _, f)) => f.get("ty").cloned(), _ => None };
                    let (Some(ty), Some((params, body))) = (ty, inl2.get(".recurses")) else { return Some(Err("definition without a type".into())) };
                    let mut e2 = Env::new();
                    e2.insert("self".into(), ty);
                    for (pn, v) in params.iter().zip(a.iter().skip(1)) {
                        e2.insert(pn.clone(), v.clone());
                    }
                    return Some(ev.eval_fn_body(body, &mut e2));
                }
            }
        }
        None
    };
    let ev = Evaluator { consts: &consts, call_hook: &hook, inline: Some(&inl) };
    let named = |n: &str, fields: Vec<(&str, Val)>| Val::Ctor(n.to_string(), vec![], fields.into_iter().map(|(k, v)| (k.to_string(), v)).collect::<BTreeMap<_, _>>());
    let reference = |to: &str| Val::Ctor("ElsewhereDeclaredType".into(), vec![named("DeclarationElsewhere", vec![("identifier", Val::Str(to.into())), ("module", Val::none()), ("parent", Val::none()), ("constraints", Val::List(vec![]))])], BTreeMap::new());
    let integer = || Val::Ctor("Integer".into(), vec![named("Integer", vec![("constraints", Val::List(vec![])), ("distinguished_values", Val::none())])], BTreeMap::new());
    let member = |n: &str, ty: Val| named("SequenceOrSetMember", vec![("name", Val::Str(n.into())), ("ty", ty), ("is_recursive", Val::Bool(false)), ("optionality", Val::ctor("Optional")), ("tag", Val::none()), ("constraints", Val::List(vec![]))]);
    let option = |n: &str, ty: Val| named("ChoiceOption", vec![("name", Val::Str(n.into())), ("ty", ty), ("is_recursive", Val::Bool(false)), ("tag", Val::none()), ("constraints", Val::List(vec![]))]);
    let seq = |kind: &str, ms: Vec<Val>| Val::Ctor(kind.into(), vec![named("SequenceOrSet", vec![("members", Val::List(ms)), ("extensible", Val::none()), ("constraints", Val::List(vec![])), ("components_of", Val::List(vec![]))])], BTreeMap::new());
    let choice = |os: Vec<Val>| Val::Ctor("Choice".into(), vec![named("Choice", vec![("options", Val::List(os)), ("extensible", Val::none()), ("constraints", Val::List(vec![]))])], BTreeMap::new());
    let list_of = |ty: Val| Val::Ctor("SequenceOf".into(), vec![named("SequenceOrSetOf", vec![("element_type", ty), ("element_tag", Val::none()), ("constraints", Val::List(vec![])), ("is_recursive", Val::Bool(false))])], BTreeMap::new());
    // (label, definitions, must contain a flagged component?)
    let scenarios: Vec<(&str, Vec<(&str, Val)>, bool)> = vec![
        ("self-reference", vec![("List", seq("Sequence", vec![member("value", integer()), member("next", reference("List"))]))], true),
        ("two-sequences", vec![("Department", seq("Sequence", vec![member("head", reference("Employee"))])), ("Employee", seq("Sequence", vec![member("department", reference("Department"))]))], true),
        ("sequence-and-set", vec![("Aa", seq("Set", vec![member("b", reference("Bb"))])), ("Bb", seq("Sequence", vec![member("a", reference("Aa"))]))], true),
        ("three-sequences", vec![("Aa", seq("Sequence", vec![member("b", reference("Bb"))])), ("Bb", seq("Sequence", vec![member("c", reference("Cc"))])), ("Cc", seq("Sequence", vec![member("a", reference("Aa"))]))], true),
        ("choice-and-sequence", vec![("Expr", choice(vec![option("lit", integer()), option("neg", reference("Negation"))])), ("Negation", seq("Sequence", vec![member("operand", reference("Expr"))]))], true),
        ("two-choices", vec![("Xx", choice(vec![option("y", reference("Yy")), option("n", integer())])), ("Yy", choice(vec![option("x", reference("Xx")), option("m", integer())]))], true),
        ("inline-sequence", vec![("Tree", choice(vec![option("leaf", integer()), option("node", seq("Sequence", vec![member("left", reference("Tree")), member("right", reference("Tree"))]))]))], true),
        ("through-an-extension-group", vec![("Sq", seq("Sequence", vec![member("a", integer()), member("ext_group_d", seq("Sequence", vec![member("d", seq("Sequence", vec![member("e", reference("Sq"))]))]))]))], true),
        ("through-a-list", vec![("Node", seq("Sequence", vec![member("children", list_of(reference("Node")))]))], false),
        ("no-cycle", vec![("Aa", seq("Sequence", vec![member("b", reference("Bb")), member("c", reference("Bb"))])), ("Bb", seq("Sequence", vec![member("x", integer())]))], false),
        ("diamond", vec![("Aa", seq("Sequence", vec![member("b", reference("Bb")), member("c", reference("Cc"))])), ("Bb", seq("Sequence", vec![member("d", reference("Dd"))])), ("Cc", seq("Sequence", vec![member("d", reference("Dd"))])), ("Dd", seq("Sequence", vec![member("x", integer())]))], false),
    ];
    let params: Vec<String> = f.sig.inputs.iter().filter_map(|a| match a { syn::FnArg::Typed(t) => Some(tok(&t.pat)), _ => None }).collect();
    for (label, defs, cyclic) in scenarios {
        ctx.oblige(rule, &format!("mark:{}", label), true);
        let tld_of = |n: &str, ty: &Val| Val::Ctor("Type".into(), vec![named("ToplevelTypeDefinition", vec![("name", Val::Str(n.into())), ("ty", ty.clone()), ("parameterization", Val::none()), ("tag", Val::none()), ("comments", Val::Str(String::new())), ("module_header", Val::none())])], BTreeMap::new());
        let mut table: BTreeMap<String, Val> = defs.iter().map(|(n, t)| (n.to_string(), t.clone())).collect();
        // Validator::link visits the type assignments in descending name order (keys popped from the end of the sorted list)
        let order: Vec<String> = table.keys().rev().cloned().collect();
        let mut failed = None;
        for key in &order {
            let mut tlds = crate::eval::new_map();
            for (n, t) in &table {
                if n != key {
                    tlds = crate::eval::map_insert(tlds, Val::Str(n.clone()), tld_of(n, t));
                }
            }
            let mut env = Env::new();
            env.insert("self".into(), table[key].clone());
            env.insert(params.first().cloned().unwrap_or("name".into()), Val::Str(key.clone()));
            env.insert(params.get(1).cloned().unwrap_or("tlds".into()), tlds);
            match ev.eval_fn_body(&f.block, &mut env) {
                Ok(Val::Ctor(ok, _, _)) if ok == "Ok" => match env.get("self") {
                    Some(v) => { table.insert(key.clone(), v.clone()); }
                    None => { failed = Some("self lost".to_string()); break; }
                },
                Ok(o) => { failed = Some(format!("mark_recursive({}) = {}", key, o.show().chars().take(80).collect::<String>())); break; }
                Err(e) => { failed = Some(format!("mark_recursive({}): {}", key, e)); break; }
            }
        }
        if let Some(e) = failed {
            ctx.fail_closed(rule, &format!("[{}]: {}", label, e));
            continue;
        }
        // the unboxed reference edges that remain
        fn edges(ty: &Val, out: &mut Vec<String>, flagged: &mut usize) {
            if let Val::Ctor(kind, p, _) = ty {
                match (kind.as_str(), p.first()) {
                    ("ElsewhereDeclaredType", Some(Val::Ctor(_, _, f))) => if let Some(Val::Str(id)) = f.get("identifier") { out.push(id.clone()) },
                    ("Sequence", Some(Val::Ctor(_, _, f))) | ("Set", Some(Val::Ctor(_, _, f))) | ("Choice", Some(Val::Ctor(_, _, f))) => {
                        if let Some(Val::List(ms)) = f.get("members").or(f.get("options")) {
                            for mm in ms {
                                if let Val::Ctor(_, _, mf) = mm {
                                    if matches!(mf.get("is_recursive"), Some(Val::Bool(true))) {
                                        *flagged += 1;
                                    } else if let Some(t) = mf.get("ty") {
                                        edges(t, out, flagged);
                                    }
                                }
                            }
                        }
                    }
                    _ => {}
                }
            }
        }
        let mut graph: BTreeMap<String, Vec<String>> = BTreeMap::new();
        let mut flagged = 0;
        for (n, t) in &table {
            let mut out = vec![];
            edges(t, &mut out, &mut flagged);
            graph.insert(n.clone(), out);
        }
        fn on_cycle(start: &str, at: &str, graph: &BTreeMap<String, Vec<String>>, seen: &mut Vec<String>) -> bool {
            for next in graph.get(at).into_iter().flatten() {
                if next == start {
                    return true;
                }
                if !seen.contains(next) {
                    seen.push(next.clone());
                    if on_cycle(start, next, graph, seen) {
                        return true;
                    }
                }
            }
            false
        }
        // an extension addition group is rendered `#[rasn(extension_addition_group)] pub ext_group_x: Option<Group>`, and rasn's
        // derive asks `Group: Constructed` — which `Box<Group>` is not (rasn 0.27 implements AsnType for Box<T>, not Constructed):
        // the boundary of a cycle that runs through a group must lie on a component *inside* the group
        if label == "through-an-extension-group" {
            ctx.oblige(rule, "mark:group-not-boxed", true);
            let group_flagged = table.values().any(|t| match t {
                Val::Ctor(_, p, _) => match p.first() {
                    Some(Val::Ctor(_, _, f)) => match f.get("members") {
                        Some(Val::List(ms)) => ms.iter().any(|mm| matches!(mm, Val::Ctor(_, _, mf) if matches!(mf.get("is_recursive"), Some(Val::Bool(true))) && matches!(mf.get("name"), Some(Val::Str(n)) if n.starts_with("ext_group_")))),
                        _ => false,
                    },
                    _ => false,
                },
                _ => false,
            });
            if group_flagged {
                ctx.violate(rule, "extension-group-boxed", &f.file, f.line,
                    "`Sq ::= SEQUENCE { a INTEGER, ..., [[ d SEQUENCE { e Sq OPTIONAL } ]] }`: the component flagged recursive is the extension addition group itself, which is then declared `#[rasn(extension_addition_group)] pub ext_group_d: Option<Box<SqExtGroupD>>` — rasn's derive requires the group type to be `Constructed`, which `Box<_>` is not (E0277); the boundary has to be a component inside the group");
            }
        }
        let open_cycle: Vec<String> = graph.keys().filter(|k| on_cycle(k, k, &graph, &mut vec![])).cloned().collect();
        if !open_cycle.is_empty() {
            ctx.violate(rule, &format!("unboxed-cycle:{}", label), &f.file, f.line,
                &format!("after mark_recursive has visited every definition of {{{}}}, the type references {} still form a cycle on which no component is flagged recursive: none of them is boxed and the generated structs / enums have infinite size (E0072)",
                    defs.iter().map(|(n, _)| *n).collect::<Vec<_>>().join(", "), open_cycle.join(" -> ")));
        } else if !cyclic && flagged > 0 {
            ctx.violate(rule, &format!("boxed-without-cycle:{}", label), &f.file, f.line,
                &format!("the definitions {{{}}} contain no reference cycle through SEQUENCE / SET / CHOICE components, yet {} component(s) are flagged recursive and will be boxed: the component's Rust type no longer corresponds to its ASN.1 type", defs.iter().map(|(n, _)| *n).collect::<Vec<_>>().join(", "), flagged));
        }
    }
}

pub fn run(m: &Model, ctx: &mut Ctx) {
    ctx.explanation = "C02.sym (sibling agreement): in every pattern match over ASN1Type in the crate, SEQUENCE and SET (and SEQUENCE OF / SET OF) are handled alike — a pattern that names one variant of a pair while its sibling falls through to a wildcard/else is a deviant (the IR shares one payload type per pair, so the only legitimate difference is the set marker). \
C02.order: every iterator chain rooted at a component list (`.members`, `.options`) in the lexer conversions, linker and both generators uses only order- and cardinality-preserving adaptors; rebuilding pushes are at the end position. \
C02.kindmap: the ASN.1-kind -> Rust-type tables (constraints_and_type_name, type_to_tokens, format_sequence_or_set_of_item_type, string_type) are extracted per ASN1Type / CharacterStringType variant and compared with ref/asn1kind_to_rasn.json and with each other. \
C02.defname: the default function named by the annotation, the one generated and the one called by the Default impl are one name (all through default_method_name with the same parent name). C02.wrap: default annotation iff DEFAULT, Box<> at every type-name site under is_recursive, `set` annotation iff Set, SetOf iff SET OF. (Option<> wrapping and list conversions are decided under C05.) \
Not decided: that the parsed list equals the source list, hoisted inner names for arbitrary nesting.".into();
    ctx.assumptions = vec!["ref/asn1kind_to_rasn.json: ASN.1 kind -> rasn prelude type".into(), "SequenceOrSet / SequenceOrSetOf are shared payloads: SET differs from SEQUENCE only by the marker".into()];
    ctx.rule("pattern-sibling rule over all ASN1Type matches; adaptor whitelist over component-list chains; table extraction");
    // "nothing is added": COMPONENTS OF takes the root components of the referenced type and only those, at the position of the
    // notation (the analysis lives with C09.splice)
    borrow(ctx, "C09", "C09.splice", "C02.splice", &mut |sub| crate::rules::c09::run(m, sub));
    // "whose Rust type corresponds to the component's ASN.1 type", "nothing is added": the hoisted type of an anonymous
    // component / alternative is defined and referred to under one spelling (= C01.inner)
    crate::rules::c01::inner_names(m, ctx, "C02.inner");
    // a component that a traversal of the linker does not reach keeps its unexpanded notation, and the components it stands
    // for are missing from the generated item (= C09.traverse / C09.detect)
    // a SET / SEQUENCE with components is generated — wherever its extension marker stands (= C01.emptyset)
    match crate::rules::c01::registry_src(&m.repo, "rasn-derive-impl") {
        Some(derive) => crate::rules::c01::empty_set(m, ctx, "C02.emptyset", &derive),
        None => ctx.fail_closed("C02.emptyset", "pinned rasn-derive-impl sources not found in the cargo registry"),
    }
    crate::rules::c09::traverse(m, ctx, "C02.traverse");
    crate::rules::c09::detectors(m, ctx, "C02.detect");
    // the rasn dispatcher and the generator methods agree on the kind each method is written for
    crate::rules::c18::dispatch_agreement(m, ctx, "C02.dispatch", "Rasn", "generate_type", "tld.ty");
    sym(m, ctx);
    order(m, ctx);
    kindmap(m, ctx);
    wrap(m, ctx);
    member_type(m, ctx);
    defname(m, ctx, "C02.defname");
    recursion_marking(m, ctx, "C02.box");
    crate::rules::c05::member_annotations(m, ctx, "C02.member", "default");
    rebuild(m, ctx, "C02.rebuild");
    // anonymous nested types are emitted wherever they are referred to (shared with C01.defined)
    crate::rules::c01::defined(m, ctx, "C02.nested");
    // "whose Rust type corresponds to the component's ASN.1 type": a reference written Mod.Type keeps its module at every rendering site (= C12.qualified)
    crate::rules::c12::qualified(m, ctx, "C02.qualified");
}

/// C02.defname: "DEFAULT components carry a default function" — the function named by the `default = "..."` annotation,
/// the function that is generated, and the function the `Default` impl calls are one name. All three go through
/// `default_method_name(parent, field)`; the rule checks that every producer calls it with its own parent-name
/// parameter, and that every fn driving several producers hands them the same parent-name expression.
pub fn defname(m: &Model, ctx: &mut Ctx, rule: &str) {
    // (producer fn, index of the parent-name parameter among the typed parameters)
    let producers: [(&str, usize); 3] = [("format_sequence_or_set_members", 1), ("format_default_methods", 1), ("format_default_impl", 0)];
    // 1. each producer reaches default_method_name with its parent-name parameter
    let param = |f: &crate::model::FnInfo, idx: usize| -> Option<String> {
        f.sig.inputs.iter().filter_map(|a| match a { syn::FnArg::Typed(t) => Some(tok(&t.pat)), _ => None }).nth(idx)
    };
    for (name, idx) in [("format_sequence_member", 1usize), ("format_default_methods", 1), ("format_default_impl", 0)] {
        let Some(f) = anchor_fn(m, ctx, rule, Some("Rasn"), name, None) else { continue };
        ctx.oblige(rule, &format!("{}:uses-default_method_name", name), true);
        let pn = param(f, idx).unwrap_or_default();
        let calls: Vec<String> = model::method_calls_in(&f.block).iter().filter(|mc| mc.method == "default_method_name").map(|mc| mc.args.first().map(|a| tok(a)).unwrap_or_default()).collect();
        if calls.is_empty() {
            ctx.violate(rule, &format!("{}:uses-default_method_name", name), &f.file, f.line, &format!("{} must name the default function through default_method_name(..) like its siblings", name));
        } else if calls.iter().any(|c| c.trim_start_matches('&') != pn) {
            ctx.violate(rule, &format!("{}:parent-parameter", name), &f.file, f.line, &format!("{} calls default_method_name with {:?} as the parent name; it must pass its own parent-name parameter `{}` unchanged", name, calls, pn));
        }
    }
    // the member loop hands its parent name on unchanged
    if let Some(f) = anchor_fn(m, ctx, rule, Some("Rasn"), "format_sequence_or_set_members", None) {
        ctx.oblige(rule, "format_sequence_or_set_members:passes-parent-on", true);
        let pn = param(f, 1).unwrap_or_default();
        let ok = model::method_calls_in(&f.block).iter().filter(|mc| mc.method == "format_sequence_member").all(|mc| mc.args.iter().nth(1).map(|a| tok(a).trim_start_matches('&').to_string()) == Some(pn.clone()));
        if !ok {
            ctx.violate(rule, "format_sequence_or_set_members:passes-parent-on", &f.file, f.line, "format_sequence_or_set_members must hand its parent name to format_sequence_member unchanged");
        }
    }
    // 2. every driver hands all producers the same parent name
    let mut drivers = 0;
    for f in m.fns.iter().filter(|f| f.krate == "rasn-compiler" && f.module.starts_with("generator::rasn") && !f.module.contains("tests")) {
        let mut given: Vec<(String, String, usize)> = vec![];
        for mc in model::method_calls_in(&f.block) {
            for (pname, idx) in producers {
                if mc.method == pname {
                    if let Some(a) = mc.args.iter().nth(idx) {
                        given.push((pname.to_string(), tok(a), model::line_of(syn::spanned::Spanned::span(&mc))));
                    }
                }
            }
        }
        if given.len() < 2 {
            continue;
        }
        drivers += 1;
        ctx.oblige(rule, &format!("{}:same-parent-name", f.name), true);
        let first = given[0].1.clone();
        for (pname, a, line) in &given {
            if *a != first {
                ctx.violate(rule, &format!("{}:same-parent-name", f.name), &f.file, *line,
                    &format!("{} names the parent `{}` for {} but `{}` for {}: the default function that is generated and the one that is referred to (annotation / Default impl) get different names whenever the two spellings snake-case differently (e.g. `UE-Config`: ue_config_.. vs ueconfig_..)", f.name, first, given[0].0, a, pname));
                break;
            }
        }
    }
    ctx.floor(&format!("{}/drivers", rule), drivers, 1);
}

/// Rebuild-preserves rule (C02.rebuild / C03.rebuild): `resolve_class_reference` consumes a type and rebuilds it with the
/// class-field types replaced. Whatever it does not resolve must come out as it went in: the kind of every node
/// (SET OF stays SET OF), component names, tags, element tags, optionality, extension index, constraints of
/// collections. Both rebuilders (ASN1Type and SequenceOrSet) are evaluated on a nested sample type and the result is
/// compared with the input field by field.
pub fn rebuild(m: &Model, ctx: &mut Ctx, rule: &str) {
    use crate::eval::{Env, Evaluator, Val};
    use std::collections::BTreeMap;
    let ty_fn = m.fns.iter().find(|f| f.name == "resolve_class_reference" && f.self_ty.as_deref() == Some("ASN1Type"));
    let seq_fn = m.fns.iter().find(|f| f.name == "resolve_class_reference" && f.self_ty.as_deref() == Some("SequenceOrSet"));
    let (Some(ty_fn), Some(seq_fn)) = (ty_fn, seq_fn) else {
        ctx.fail_closed(rule, "anchor not found: ASN1Type / SequenceOrSet ::resolve_class_reference");
        return;
    };
    ctx.func(&ty_fn.key);
    ctx.func(&seq_fn.key);
    let consts = const_resolver(m);
    let ty_block = ty_fn.block.clone();
    let seq_block = seq_fn.block.clone();
    let hook = move |ev: &Evaluator, name: &str, a: &[Val]| -> Option<Result<Val, String>> {
        match (name, a.first()) {
            (".resolve_class_reference", Some(recv @ Val::Ctor(n, _, _))) => {
                let mut env = Env::new();
                env.insert("self".into(), recv.clone());
                env.insert("tlds".into(), Val::Opaque("tlds".into()));
                Some(ev.eval_fn_body(if n == "SequenceOrSet" { &seq_block } else { &ty_block }, &mut env))
            }
            (".resolve_class_reference", Some(o)) => Some(Ok(o.clone())),
            (".reassign_type_for_ref", Some(_)) => Some(Ok(Val::Ctor("RESOLVED".into(), vec![], BTreeMap::new()))),
            ("Box::new", Some(v)) => Some(Ok(v.clone())),
            _ => None,
        }
    };
    let ev = Evaluator { consts: &consts, call_hook: &hook, inline: None };
    let named = |n: &str, fields: Vec<(&str, Val)>| Val::Ctor(n.into(), vec![], fields.into_iter().map(|(k, v)| (k.to_string(), v)).collect());
    let wrap = |n: &str, inner: Val| Val::Ctor(n.into(), vec![inner], BTreeMap::new());
    let tag = |id: i128| Val::some(named("AsnTag", vec![("id", Val::int(id)), ("tag_class", Val::ctor("ContextSpecific")), ("environment", Val::ctor("Explicit"))]));
    let leaf = || wrap("Boolean", Val::Opaque("b".into()));
    let class_field = || wrap("ObjectClassField", Val::Opaque("ocf".into()));
    let coll = |kind: &str, el: Val, etag: Val| wrap(kind, named("SequenceOrSetOf", vec![("element_type", el), ("element_tag", etag), ("constraints", Val::List(vec![Val::Sym("SIZE-1-4".into())])), ("is_recursive", Val::Bool(false))]));
    let member = |name: &str, t: Val, ty: Val, opt: &str| named("SequenceOrSetMember", vec![("name", Val::Str(name.into())), ("tag", t), ("ty", ty), ("optionality", Val::ctor(opt)), ("is_recursive", Val::Bool(false)), ("constraints", Val::List(vec![]))]);
    let option = |name: &str, t: Val, ty: Val| named("ChoiceOption", vec![("name", Val::Str(name.into())), ("tag", t), ("ty", ty), ("is_recursive", Val::Bool(false)), ("constraints", Val::List(vec![]))]);
    let seq = |kind: &str, members: Vec<Val>| wrap(kind, named("SequenceOrSet", vec![("members", Val::List(members)), ("extensible", Val::some(Val::int(1))), ("components_of", Val::List(vec![Val::Str("Base".into())])), ("constraints", Val::List(vec![Val::Sym("WITH-COMPONENTS".into())]))]));
    let choice = |options: Vec<Val>| wrap("Choice", named("Choice", vec![("options", Val::List(options)), ("extensible", Val::some(Val::int(2))), ("constraints", Val::List(vec![]))]));
    let sample = seq("Sequence", vec![
        member("kind", tag(1), class_field(), "Required"),
        member("values", tag(2), coll("SetOf", leaf(), tag(9)), "Optional"),
        member("list", Val::none(), coll("SequenceOf", coll("SetOf", class_field(), Val::none()), Val::none()), "Required"),
        member("alt", tag(3), choice(vec![option("a", tag(5), class_field()), option("b", tag(6), leaf()), option("c", Val::none(), seq("Set", vec![member("x", tag(7), leaf(), "Optional")]))]), "Required"),
    ]);
    // expected: the same tree with every ObjectClassField replaced by RESOLVED
    fn expect(v: &Val) -> Val {
        match v {
            Val::Ctor(n, _, _) if n == "ObjectClassField" => Val::Ctor("RESOLVED".into(), vec![], Default::default()),
            Val::Ctor(n, p, f) => Val::Ctor(n.clone(), p.iter().map(expect).collect(), f.iter().map(|(k, x)| (k.clone(), expect(x))).collect()),
            Val::List(l) => Val::List(l.iter().map(expect).collect()),
            o => o.clone(),
        }
    }
    // field-by-field comparison; `constraints` / `is_recursive` of members and alternatives are reset by design
    fn diff(path: &str, want: &Val, got: &Val, out: &mut Vec<(String, String, String)>) {
        match (want, got) {
            (Val::Ctor(n1, p1, f1), Val::Ctor(n2, p2, f2)) => {
                if n1 != n2 || p1.len() != p2.len() {
                    out.push((format!("{}:kind", path), n1.clone(), n2.clone()));
                    return;
                }
                for (i, (a, b)) in p1.iter().zip(p2.iter()).enumerate() {
                    diff(&format!("{}{}", path, if p1.len() > 1 { format!(".{}", i) } else { String::new() }), a, b, out);
                }
                for (k, a) in f1 {
                    if (n1 == "SequenceOrSetMember" || n1 == "ChoiceOption") && (k == "constraints" || k == "is_recursive") {
                        continue;
                    }
                    match f2.get(k) {
                        Some(b) => diff(&format!("{}.{}", path, k), a, b, out),
                        None => out.push((format!("{}.{}", path, k), a.show(), "<missing>".into())),
                    }
                }
            }
            (Val::List(a), Val::List(b)) => {
                if a.len() != b.len() {
                    out.push((format!("{}:len", path), a.len().to_string(), b.len().to_string()));
                    return;
                }
                for (i, (x, y)) in a.iter().zip(b.iter()).enumerate() {
                    let label = match x { Val::Ctor(_, _, f) => match f.get("name") { Some(Val::Str(n)) => n.clone(), _ => i.to_string() }, _ => i.to_string() };
                    diff(&format!("{}[{}]", path, label), x, y, out);
                }
            }
            (a, b) => {
                if a != b {
                    out.push((path.to_string(), a.show(), b.show()));
                }
            }
        }
    }
    let mut env = Env::new();
    env.insert("self".into(), sample.clone());
    env.insert("tlds".into(), Val::Opaque("tlds".into()));
    ctx.oblige(rule, "sample-type", true);
    match ev.eval_fn_body(&ty_fn.block, &mut env) {
        Ok(got) => {
            let want = expect(&sample);
            let mut d = vec![];
            diff("T", &want, &got, &mut d);
            for k in ["kind", "tag", "element_tag", "optionality", "extensible", "name", "constraints", "components_of"] {
                ctx.oblige(rule, &format!("preserved:{}", k), true);
            }
            let mut reported = std::collections::BTreeSet::new();
            for (path, w, g) in d {
                let field = match path.strip_suffix(":len") {
                    Some(p) => p.rsplit('.').next().unwrap_or("").to_string(),
                    None => path.rsplit(|c| c == '.' || c == ':').next().unwrap_or("").to_string(),
                };
                if reported.insert(field.clone()) {
                    ctx.violate(rule, &format!("not-preserved:{}", field), &ty_fn.file, ty_fn.line,
                        &format!("resolve_class_reference rebuilds `{}` as `{}` (was `{}`): everything but the class-field types must come out of the rebuild unchanged — a type that mentions a class field (e.g. ATTRIBUTE.&id) would otherwise lose this part of every component it contains", path, g, w));
                }
            }
        }
        Err(e) => ctx.fail_closed(rule, &format!("[sample type]: {}", e)),
    }
}

fn sym(m: &Model, ctx: &mut Ctx) {
    let audit: Value = std::fs::read_to_string(ctx.verif.join("audit/sym.json")).ok().and_then(|s| serde_json::from_str(&s).ok()).unwrap_or(json!({"benign": {}}));
    let benign = audit["benign"].as_object().cloned().unwrap_or_default();
    let mut n_matches = 0;
    for f in m.fns.iter().filter(|f| f.krate == "rasn-compiler") {
        // (pattern texts of one decision, has_default, line)
        let mut decisions: Vec<(Vec<String>, bool, usize, &'static str)> = vec![];
        for mt in model::matches_in(&f.block) {
            let pats: Vec<String> = mt.arms.iter().map(|a| tok(&a.pat)).collect();
            if pats.iter().any(|p| p.contains("ASN1Type::")) {
                let has_default = mt.arms.iter().any(|a| { let p = tok(&a.pat); p == "_" || (!p.contains("::") && !p.contains('(')) });
                decisions.push((pats, has_default, span_line(&mt), "match"));
            }
        }
        struct C {
            out: Vec<(String, usize)>,
        }
        impl model::DeepCb for C {
            fn expr(&mut self, e: &syn::Expr) {
                if let syn::Expr::Let(l) = e {
                    let p = tok(&l.pat);
                    if p.contains("ASN1Type::") {
                        self.out.push((p, l.let_token.span.start().line));
                    }
                }
            }
            fn mac(&mut self, mac: &syn::Macro) {
                if let Some(mm) = model::parse_matches(mac) {
                    let p = tok(&mm.pat);
                    if p.contains("ASN1Type::") {
                        self.out.push((p, mac.path.segments[0].ident.span().start().line));
                    }
                }
            }
            fn local(&mut self, l: &syn::Local) {
                if l.init.as_ref().map(|i| i.diverge.is_some()).unwrap_or(false) {
                    let p = tok(&l.pat);
                    if p.contains("ASN1Type::") {
                        self.out.push((p, l.let_token.span.start().line));
                    }
                }
            }
        }
        let mut c = C { out: vec![] };
        model::deep_walk_block(&f.block, &mut c);
        for (p, line) in c.out {
            decisions.push((vec![p], true, line, "if-let"));
        }
        for (pats, has_default, line, kind) in decisions {
            n_matches += 1;
            for (a, b) in PAIRS {
                let has_a = pats.iter().any(|p| mentions(p, a));
                let has_b = pats.iter().any(|p| mentions(p, b));
                if has_a == has_b {
                    if has_a {
                        ctx.oblige("C02.sym", &format!("{}|{}/{}", f.key, a, b), true);
                    }
                    continue;
                }
                if !has_default {
                    continue; // exhaustive match: the compiler forces the sibling to be named
                }
                let (present, missing) = if has_a { (a, b) } else { (b, a) };
                let key = format!("{}|{}-without-{}", f.key, present, missing);
                ctx.oblige("C02.sym", &key, true);
                if benign.contains_key(&key) {
                    continue;
                }
                ctx.violate("C02.sym", &key, &f.file, line,
                    &format!("{} in `{}` handles ASN1Type::{} but ASN1Type::{} falls through to the default: SET{} types are not treated like their SEQUENCE{} siblings here", kind, f.key, present, missing, if missing.ends_with("Of") { " OF" } else { "" }, if missing.ends_with("Of") { " OF" } else { "" }));
            }
        }
    }
    ctx.floor("C02.sym/decisions-over-ASN1Type", n_matches, 45);
}

pub fn order(m: &Model, ctx: &mut Ctx) {
    const BAD: [&str; 24] = ["filter", "filter_map", "skip", "skip_while", "take", "take_while", "rev", "step_by", "sort", "sort_by", "sort_by_key", "sort_unstable", "sort_unstable_by", "dedup", "dedup_by", "dedup_by_key", "retain", "swap", "swap_remove", "remove", "truncate", "pop", "drain", "reverse"];
    let audit: Value = std::fs::read_to_string(ctx.verif.join("audit/order.json")).ok().and_then(|s| serde_json::from_str(&s).ok()).unwrap_or(json!({"benign": {}}));
    let benign = audit["benign"].as_object().cloned().unwrap_or_default();
    let mut chains = 0;
    for f in m.fns.iter().filter(|f| f.krate == "rasn-compiler" && (f.module.starts_with("generator") || f.module.starts_with("validator") || f.module.starts_with("intermediate::types") || f.module.starts_with("lexer"))) {
        // method chains: walk outermost method calls, collect names down to the root expression
        struct C {
            out: Vec<(Vec<String>, String, usize)>,
        }
        impl model::DeepCb for C {
            fn expr(&mut self, e: &syn::Expr) {
                if let syn::Expr::MethodCall(_) = e {
                    let mut names = vec![];
                    let mut cur = e;
                    while let syn::Expr::MethodCall(mc) = cur {
                        names.push(mc.method.to_string());
                        cur = &mc.receiver;
                    }
                    names.reverse();
                    let root = tok(cur);
                    if root.ends_with(".members") || root.ends_with(".options") || root == "members" || root == "options" {
                        self.out.push((names, root, span_line(e)));
                    }
                }
            }
        }
        let mut c = C { out: vec![] };
        model::deep_walk_block(&f.block, &mut c);
        // keep maximal chains only (a chain is reported once, at its outermost call)
        let mut seen_lines: Vec<(usize, usize)> = vec![];
        c.out.sort_by(|a, b| b.0.len().cmp(&a.0.len()));
        for (names, root, line) in c.out {
            if seen_lines.iter().any(|(l, n)| *l == line && *n >= names.len()) {
                continue;
            }
            seen_lines.push((line, names.len()));
            chains += 1;
            let bad: Vec<&String> = names.iter().filter(|n| BAD.contains(&n.as_str())).collect();
            // queries (any/all/find/position/len/is_empty/contains/first/last/get) do not build output
            let is_query = names.iter().any(|n| ["any", "all", "find", "find_map", "position", "len", "is_empty", "contains", "first", "last", "get", "count"].contains(&n.as_str()));
            ctx.oblige("C02.order", &format!("{}|{}|{}", f.key, root, names.join(".")), !bad.is_empty() || !is_query);
            if bad.is_empty() {
                continue;
            }
            if is_query && !names.iter().any(|n| ["retain", "remove", "truncate", "pop", "drain", "swap", "swap_remove", "sort", "sort_by", "dedup", "reverse"].contains(&n.as_str())) {
                continue;
            }
            let key = format!("{}|{}.{}", f.key, root, names.join("."));
            if benign.contains_key(&key) {
                continue;
            }
            ctx.violate("C02.order", &key, &f.file, line,
                &format!("`{}.{}` in `{}` applies {:?} to a component list: every component must be kept exactly once, in source order", root, names.join("."), f.key, bad));
        }
    }
    ctx.floor("C02.order/component-list-chains", chains, 30);
}

fn quote_ident(body: &str) -> String {
    // Ok(quote!(X)) / (.., quote!(X)) -> X
    body.split("quote!(").nth(1).map(|s| {
        let mut depth = 1;
        let mut out = String::new();
        for ch in s.chars() {
            if ch == '(' { depth += 1; }
            if ch == ')' { depth -= 1; if depth == 0 { break; } }
            out.push(ch);
        }
        out
    }).unwrap_or_default()
}

fn kindmap(m: &Model, ctx: &mut Ctx) {
    let reference: Value = match std::fs::read_to_string(ctx.verif.join("ref/asn1kind_to_rasn.json")).ok().and_then(|s| serde_json::from_str(&s).ok()) {
        Some(v) => v,
        None => {
            ctx.fail_closed("C02.kindmap", "ref/asn1kind_to_rasn.json missing");
            return;
        }
    };
    let consts = const_resolver(m);
    let ev = Evaluator { consts: &consts, call_hook: &crate::eval::no_hook, inline: None };
    let variants = m.find_enum("ASN1Type").map(|e| e.clone()).ok();
    let Some(en) = variants else {
        ctx.fail_closed("C02.kindmap", "enum ASN1Type not found");
        return;
    };
    let val_of = |v: &str| -> Val {
        let nf = en.variant_fields.get(v).map(|f| f.len()).unwrap_or(0);
        Val::Ctor(v.to_string(), (0..nf).map(|_| Val::Opaque("payload".into())).collect(), BTreeMap::new())
    };
    for (fname, tbl) in [("constraints_and_type_name", "component"), ("type_to_tokens", "value_type"), ("format_sequence_or_set_of_item_type", "item_type")] {
        let Some(f) = anchor_fn(m, ctx, "C02.kindmap", Some("Rasn"), fname, None) else { continue };
        let mt = model::matches_in(&f.block).into_iter().find(|mt| tok(&mt.expr) == "ty");
        let Some(mt) = mt else {
            ctx.fail_closed("C02.kindmap", &format!("{}: no match over ty", fname));
            continue;
        };
        for v in &en.variants {
            let want = reference[tbl].get(v).and_then(|x| x.as_str()).unwrap_or("");
            if want == "-" {
                continue;
            }
            ctx.oblige("C02.kindmap", &format!("{}:{}", fname, v), true);
            match ev.select_arm(&mt, &val_of(v), &Env::new()) {
                Ok((i, _)) => {
                    let body = tok(&mt.arms[i].body);
                    let got = if body.contains("Err(") || body.contains("unreachable!") || body.contains("todo!") {
                        "!".to_string()
                    } else if body.contains("int_type") || body.contains("integer_type.to_token_stream") || body.contains("match first_item") {
                        "<int>".to_string()
                    } else if body.contains("quote!(") {
                        quote_ident(&body)
                    } else if body.contains("string_type(") {
                        "<string>".to_string()
                    } else if body.contains("to_rust_qualified_type") || body.contains("to_rust_title_case") {
                        "<ref>".to_string()
                    } else if body.contains("inner_name(") {
                        "<hoisted>".to_string()
                    } else {
                        format!("?{}", body.chars().take(40).collect::<String>())
                    };
                    if want.is_empty() {
                        ctx.violate("C02.kindmap", &format!("{}:{}:unlisted", fname, v), &f.file, span_line(&mt.arms[i]), &format!("{}: ASN1Type::{} is not in the reference table ({} -> `{}`)", fname, v, tbl, got));
                    } else if got != want && got != "!" {
                        // (a kind the generator refuses is a warning for the definition — C10's business — not a component of the wrong shape)
                        ctx.violate("C02.kindmap", &format!("{}:{}", fname, v), &f.file, span_line(&mt.arms[i]),
                            &format!("{}: a component of ASN.1 kind {} is given the Rust type `{}`; the rasn type for that kind is `{}`", fname, v, got, want));
                    }
                }
                Err(e) => ctx.fail_closed("C02.kindmap", &format!("{}:{}: {}", fname, v, e)),
            }
        }
    }
    // string_type
    if let Some(f) = anchor_fn(m, ctx, "C02.kindmap", Some("Rasn"), "string_type", None) {
        if let Some(mt) = model::matches_in(&f.block).into_iter().next() {
            let vs = m.find_enum("CharacterStringType").map(|e| e.variants.clone()).unwrap_or_default();
            for v in &vs {
                ctx.oblige("C02.kindmap", &format!("string_type:{}", v), true);
                let want = reference["string"].get(v).and_then(|x| x.as_str()).unwrap_or("");
                match ev.select_arm(&mt, &Val::ctor(v), &Env::new()) {
                    Ok((i, _)) => {
                        let body = tok(&mt.arms[i].body);
                        let got = if body.starts_with("Err(") { "!".to_string() } else { quote_ident(&body) };
                        if got != want {
                            ctx.violate("C02.kindmap", &format!("string_type:{}", v), &f.file, span_line(&mt.arms[i]), &format!("{} is rendered as `{}`, the rasn type is `{}`", v, got, want));
                        }
                    }
                    Err(e) => ctx.fail_closed("C02.kindmap", &e),
                }
            }
        }
    }
    // generate_type dispatch: every variant reaches the generator of its own kind
    if let Some(f) = anchor_fn(m, ctx, "C02.kindmap", Some("Rasn"), "generate_type", None) {
        if let Some(mt) = model::matches_in(&f.block).into_iter().find(|mt| tok(&mt.expr) == "tld.ty") {
            for v in &en.variants {
                let want = reference["generator"].get(v).and_then(|x| x.as_str()).unwrap_or("");
                ctx.oblige("C02.kindmap", &format!("generate_type:{}", v), true);
                match ev.select_arm(&mt, &val_of(v), &Env::new()) {
                    Ok((i, _)) => {
                        let body = tok(&mt.arms[i].body).trim_start_matches('{').trim_end_matches('}').to_string();
                        let got = if body.starts_with("self.") { body.trim_start_matches("self.").split('(').next().unwrap_or("").to_string() } else if body.contains("Err(") { "!".into() } else if body.contains("unimplemented!") { "!panic".into() } else { body.chars().take(30).collect() };
                        if got != want && !(want == "!" && got == "!panic") {
                            ctx.violate("C02.kindmap", &format!("generate_type:{}", v), &f.file, span_line(&mt.arms[i]), &format!("a type assignment of kind {} is generated by `{}`, expected `{}`", v, got, want));
                        }
                    }
                    Err(e) => ctx.fail_closed("C02.kindmap", &e),
                }
            }
        }
    }
}

/// "Recursive components are boxed" and no others: the type format_member_or_option declares (constraints_and_type_name
/// inlined) for a component of every shape, recursive or not.
fn boxed_iff_recursive(m: &Model, ctx: &mut Ctx) {
    let named = |n: &str, fields: Vec<(&str, Val)>| Val::Ctor(n.to_string(), vec![], fields.into_iter().map(|(k, v)| (k.to_string(), v)).collect::<BTreeMap<_, _>>());
    let reference = || Val::Ctor("ElsewhereDeclaredType".into(), vec![named("DeclarationElsewhere", vec![("identifier", Val::Str("Other".into())), ("module", Val::none()), ("parent", Val::none()), ("constraints", Val::List(vec![]))])], BTreeMap::new());
    let inline = |k: &str| Val::Ctor(k.into(), vec![named("payload", vec![("members", Val::List(vec![])), ("options", Val::List(vec![])), ("extensible", Val::none()), ("constraints", Val::List(vec![]))])], BTreeMap::new());
    for (label, ty) in [("a type reference", reference()), ("an inline SEQUENCE", inline("Sequence")), ("an inline SET", inline("Set")), ("an inline CHOICE", inline("Choice"))] {
        for (holder, recursive) in [("SequenceOrSetMember", true), ("SequenceOrSetMember", false), ("ChoiceOption", true), ("ChoiceOption", false)] {
            ctx.oblige("C02.wrap", &format!("boxed-iff-recursive:{}:{}:{}", holder, label, recursive), true);
            let member = named(holder, vec![("name", Val::Str("alt".into())), ("ty", ty.clone()), ("is_recursive", Val::Bool(recursive)), ("tag", Val::none()), ("constraints", Val::List(vec![])), ("optionality", Val::ctor("Required"))]);
            match crate::rules::c19::declared_type(m, member) {
                Ok(t) => {
                    let boxed = t.starts_with("Box<");
                    if boxed != recursive {
                        ctx.violate("C02.wrap", &format!("box:{}", if recursive { "recursive-not-boxed" } else { "boxed-without-recursion" }), "rasn-compiler/src/generator/rasn/utils.rs", 0,
                            &format!("a {} whose type is {} and which is {}flagged recursive is declared with the type `{}`: recursive components are boxed (a type of infinite size otherwise), and only those", if holder == "ChoiceOption" { "CHOICE alternative" } else { "SEQUENCE / SET component" }, label, if recursive { "" } else { "not " }, t));
                    }
                }
                Err(e) => ctx.fail_closed("C02.wrap", &format!("[declared type of {} / {}]: {}", holder, label, e)),
            }
        }
    }
}

fn wrap(m: &Model, ctx: &mut Ctx) {
    boxed_iff_recursive(m, ctx);
    // Box<> under is_recursive at every type-name site of constraints_and_type_name / format_member_or_option
    for fname in ["constraints_and_type_name", "format_member_or_option"] {
        let Some(f) = anchor_fn(m, ctx, "C02.wrap", Some("Rasn"), fname, None) else { continue };
        struct C {
            out: Vec<(String, String, usize)>,
        }
        impl model::DeepCb for C {
            fn expr(&mut self, e: &syn::Expr) {
                if let syn::Expr::If(i) = e {
                    let t = tok(&i.then_branch);
                    // innermost decision only: the then-branch itself contains no further `if`
                    if t.contains("boxed_type(") && !t.contains("if ") {
                        self.out.push((tok(&i.cond), t, i.if_token.span.start().line));
                    }
                }
            }
        }
        let mut c = C { out: vec![] };
        model::deep_walk_block(&f.block, &mut c);
        // (how many sites box is not asked: what matters — the declared type is boxed exactly when the component is recursive —
        // is evaluated below; a site whose result another site overrides may come and go)
        for (cond, then, line) in &c.out {
            ctx.oblige("C02.wrap", &format!("box-guard:{}:{}", fname, line), false);
            let var = then.split("boxed_type(").nth(1).and_then(|s| s.split(')').next()).unwrap_or("").to_string();
            if !(cond == "is_recursive" || cond == "member.is_recursive()") || !then.starts_with(&format!("{{{}=boxed_type({})", var, var)) {
                ctx.violate("C02.wrap", &format!("box-guard:{}", fname), &f.file, *line, &format!("{}: Box<> must be applied exactly when the component is recursive (`if {} {}`)", fname, cond, then));
            }
        }
    }
    if let Ok(f) = m.find_fn(None, "boxed_type", Some("generator::rasn")) {
        ctx.oblige("C02.wrap", "boxed_type", true);
        if tok(&f.block).replace(' ', "") != "{quote!(Box<#tokens>)}" {
            ctx.violate("C02.wrap", "boxed_type", &f.file, f.line, "boxed_type must wrap its argument in Box<..> and nothing else");
        }
    }
    // SequenceOf elements propagate their own recursion flag
    if let Some(f) = anchor_fn(m, ctx, "C02.wrap", Some("Rasn"), "constraints_and_type_name", None) {
        let b = tok(&f.block);
        ctx.oblige("C02.wrap", "element-recursion-flag", true);
        if b.matches("s.is_recursive,").count() < 2 {
            ctx.violate("C02.wrap", "element-recursion-flag", &f.file, f.line, "SEQUENCE OF / SET OF element types must be rendered with the element's own is_recursive flag");
        }
        ctx.oblige("C02.wrap", "SetOf-vs-SequenceOf", true);
        let seqof = b.find("ASN1Type::SequenceOf(s)=>");
        let setof = b.find("ASN1Type::SetOf(s)=>");
        let ok = match (seqof, setof) {
            (Some(a), Some(c)) => {
                let sa = &b[a..];
                let sc = &b[c..];
                sa.find("quote!(SequenceOf<#inner_type>)").map(|x| x < 400).unwrap_or(false) && sc.find("quote!(SetOf<#inner_type>)").map(|x| x < 400).unwrap_or(false)
            }
            _ => false,
        };
        if !ok {
            ctx.violate("C02.wrap", "SetOf-vs-SequenceOf", &f.file, f.line, "a SEQUENCE OF component must be SequenceOf<T> and a SET OF component SetOf<T>");
        }
    }
    let name_template = std::cell::RefCell::new("dflt_Parent_{}".to_string());
    // default annotation iff DEFAULT: format_sequence_member evaluated — what it hands to format_member_or_option as the default
    // annotation names default_method_name(parent, field) for a DEFAULT component and is empty otherwise
    if let Some(f) = anchor_fn(m, ctx, "C02.wrap", Some("Rasn"), "format_sequence_member", None) {
        use std::collections::BTreeMap as Map;
        let consts = const_resolver(m);
        let seen = std::cell::RefCell::new(String::new());
        let hook = |_: &Evaluator, name: &str, a: &[Val]| -> Option<Result<Val, String>> {
            match name {
                ".format_member_or_option" => {
                    *seen.borrow_mut() = a.iter().map(|v| v.show()).collect::<Vec<_>>().join(" | ");
                    let mut f = Map::new();
                    f.insert("formatted_type_name".to_string(), Val::Sym("T".into()));
                    f.insert("annotations".to_string(), Val::Sym("ANN".into()));
                    Some(Ok(Val::Ctor("Ok".into(), vec![Val::Ctor("FormattedMemberOrOption".into(), vec![], f)], Map::new())))
                }
                ".to_rust_snake_case" => Some(Ok(Val::Sym("field".into()))),
                ".default_method_name" => Some(Ok(Val::Sym(format!("dflt_{}_{}", a.get(1).map(|v| v.show()).unwrap_or_default().trim_matches('"'), a.get(2).map(|v| v.show()).unwrap_or_default().trim_matches('"'))))),
                ".default" if a.len() == 1 => Some(Ok(match &a[0] { Val::Ctor(n, p, _) if n == "Default" => Val::some(p.first().cloned().unwrap_or(Val::Unit)), _ => Val::none() })),
                ".unwrap_or_default" if a.len() == 1 => match &a[0] { Val::Ctor(n, p, _) if n == "Some" => Some(Ok(p[0].clone())), _ => Some(Ok(Val::Sym("".into()))) },
                _ => None,
            }
        };
        let ev = Evaluator { consts: &consts, call_hook: &hook, inline: None };
        let params: Vec<String> = f.sig.inputs.iter().filter_map(|a| match a { syn::FnArg::Typed(t) => Some(tok(&t.pat)), _ => None }).collect();
        for (opt, has_default) in [(Val::ctor("Required"), false), (Val::ctor("Optional"), false), (Val::Ctor("Default".into(), vec![Val::Sym("v".into())], Map::new()), true)] {
            ctx.oblige("C02.wrap", &format!("default-annotation:{}", opt.show()), true);
            let mut me = Map::new();
            me.insert("name".to_string(), Val::Str("abc".into()));
            me.insert("optionality".to_string(), opt.clone());
            let mut env = Env::new();
            env.insert("self".into(), Val::ctor("Rasn"));
            env.insert(params.first().cloned().unwrap_or("member".into()), Val::Ctor("SequenceOrSetMember".into(), vec![], me));
            env.insert(params.get(1).cloned().unwrap_or("parent_name".into()), Val::Str("Parent".into()));
            env.insert(params.get(2).cloned().unwrap_or("extension_annotation".into()), Val::Sym("".into()));
            match ev.eval_fn_body(&f.block, &mut env) {
                Ok(_) => {
                    let args = seen.borrow().replace(' ', "");
                    // the name itself is default_method_name's business (any argument order): what matters is that the same
                    // call names the function here and in format_default_methods (checked below against this template)
                    let named = ["dflt_Parent_abc", "dflt_abc_Parent"].iter().find(|n| args.contains(&format!("default={}", n)) || args.contains(&format!("default=\"{}\"", n)));
                    if let Some(n) = named {
                        *name_template.borrow_mut() = n.replace("abc", "{}");
                    }
                    let names_fn = named.is_some();
                    if names_fn != has_default {
                        ctx.violate("C02.wrap", "default-annotation", &f.file, f.line, &format!("format_sequence_member for a {} component hands on the annotations `{}`: a DEFAULT component (and only that) carries `default = \"<default_method_name(parent, field)>\"`", opt.show(), args));
                    }
                }
                Err(e) => ctx.fail_closed("C02.wrap", &format!("[default annotation {}]: {}", opt.show(), e)),
            }
        }
    }
    // format_default_methods evaluated: one `fn <default_method_name>() -> T { value }` per DEFAULT component, none for the others
    if let Some(f) = anchor_fn(m, ctx, "C02.wrap", Some("Rasn"), "format_default_methods", None) {
        use std::collections::BTreeMap as Map;
        let consts = const_resolver(m);
        let hook = |_: &Evaluator, name: &str, a: &[Val]| -> Option<Result<Val, String>> {
            match name {
                "TokenStream::new" => Some(Ok(Val::Str(String::new()))),
                ".value_to_tokens" => Some(Ok(Val::Ctor("Ok".into(), vec![Val::Sym("VAL".into())], Map::new()))),
                ".type_to_tokens" => Some(Ok(Val::Ctor("Ok".into(), vec![Val::Sym("TY".into())], Map::new()))),
                ".to_rust_title_case" => Some(Ok(Val::Sym("Ty".into()))),
                ".default_method_name" => Some(Ok(Val::Sym(format!("dflt_{}_{}", a.get(1).map(|v| v.show()).unwrap_or_default().trim_matches('"'), a.get(2).map(|v| v.show()).unwrap_or_default().trim_matches('"'))))),
                ".default" if a.len() == 1 => Some(Ok(match &a[0] { Val::Ctor(n, p, _) if n == "Default" => Val::some(p.first().cloned().unwrap_or(Val::Unit)), _ => Val::none() })),
                _ => None,
            }
        };
        let ev = Evaluator { consts: &consts, call_hook: &hook, inline: None };
        let params: Vec<String> = f.sig.inputs.iter().filter_map(|a| match a { syn::FnArg::Typed(t) => Some(tok(&t.pat)), _ => None }).collect();
        let mem = |n: &str, opt: Val| {
            let mut me = Map::new();
            me.insert("name".to_string(), Val::Str(n.into()));
            me.insert("optionality".to_string(), opt);
            me.insert("ty".to_string(), Val::Ctor("Boolean".into(), vec![Val::Opaque("b".into())], Map::new()));
            Val::Ctor("SequenceOrSetMember".into(), vec![], me)
        };
        ctx.oblige("C02.wrap", "default-fn-generated", true);
        let mut env = Env::new();
        env.insert("self".into(), Val::ctor("Rasn"));
        env.insert(params.first().cloned().unwrap_or("members".into()), Val::List(vec![mem("a", Val::ctor("Required")), mem("b", Val::Ctor("Default".into(), vec![Val::Sym("v1".into())], Map::new())), mem("c", Val::ctor("Optional")), mem("d", Val::Ctor("Default".into(), vec![Val::Sym("v2".into())], Map::new()))]));
        env.insert(params.get(1).cloned().unwrap_or("parent_name".into()), Val::Str("Parent".into()));
        match ev.eval_fn_body(&f.block, &mut env) {
            Ok(Val::Ctor(ok, p, _)) if ok == "Ok" => {
                let out = p.first().map(|v| match v { Val::Str(s) | Val::Sym(s) => s.replace(' ', ""), o => o.show() }).unwrap_or_default();
                let t = name_template.borrow().clone();
                let want = format!("fn{}()->TY{{VAL}}fn{}()->TY{{VAL}}", t.replace("{}", "b"), t.replace("{}", "d"));
                if out != want {
                    ctx.violate("C02.wrap", "default-fn-generated", &f.file, f.line, &format!("format_default_methods for the components a, b DEFAULT, c OPTIONAL, d DEFAULT generates `{}`; expected one `fn <default_method_name>() -> T {{ value }}` for b and for d: `{}`", out, want));
                }
            }
            Ok(o) => ctx.fail_closed("C02.wrap", &format!("[format_default_methods]: {}", o.show().chars().take(120).collect::<String>())),
            Err(e) => ctx.fail_closed("C02.wrap", &format!("[format_default_methods]: {}", e)),
        }
    }
    // set marker: the local that is put into the annotation list is evaluated for SET and SEQUENCE
    if let Some(f) = anchor_fn(m, ctx, "C02.wrap", Some("Rasn"), "generate_sequence_or_set", None) {
        use std::collections::BTreeMap as Map;
        struct L { out: Vec<syn::Local> }
        impl model::DeepCb for L {
            fn local(&mut self, l: &syn::Local) {
                if let Some(init) = &l.init {
                    let t = tok(&init.expr);
                    if t.contains("quote!(set)") {
                        self.out.push(l.clone());
                    }
                }
            }
        }
        let mut lc = L { out: vec![] };
        model::deep_walk_block(&f.block, &mut lc);
        ctx.oblige("C02.wrap", "set-annotation", true);
        match lc.out.first() {
            None => ctx.violate("C02.wrap", "set-annotation", &f.file, f.line, "a SET (and only a SET) must carry the `set` annotation (no such decision found)"),
            Some(l) => {
                let var = tok(&l.pat);
                let consts = const_resolver(m);
                let hook = |_: &Evaluator, name: &str, _: &[Val]| -> Option<Result<Val, String>> { if name == "TokenStream::new" { Some(Ok(Val::Sym(String::new()))) } else { None } };
                let ev = Evaluator { consts: &consts, call_hook: &hook, inline: None };
                for (kind, want) in [("Set", true), ("Sequence", false)] {
                    let mut t = Map::new();
                    t.insert("ty".to_string(), Val::Ctor(kind.into(), vec![Val::Opaque("payload".into())], Map::new()));
                    let mut env = Env::new();
                    env.insert("tld".into(), Val::Ctor("ToplevelTypeDefinition".into(), vec![], t));
                    match ev.eval(&l.init.as_ref().unwrap().expr, &mut env) {
                        Ok(v) => {
                            let got = match &v { Val::Sym(s) | Val::Str(s) => s.trim() == "set", _ => false };
                            if got != want {
                                ctx.violate("C02.wrap", "set-annotation", &f.file, span_line(l), &format!("for a {} the `set` annotation is {}: a SET (and only a SET) carries it", kind.to_uppercase(), if got { "emitted" } else { "missing" }));
                            }
                        }
                        Err(e) => ctx.fail_closed("C02.wrap", &format!("[set annotation {}]: {}", kind, e)),
                    }
                }
                let b = tok(&f.block);
                if !b.contains(&format!("vec![{},", var)) && !b.contains(&format!(",{},", var)) && !b.contains(&format!(",{}]", var)) {
                    ctx.violate("C02.wrap", "set-annotation", &f.file, f.line, &format!("the decision `{}` is not put into the annotation list", var));
                }
            }
        }
    }
    // SET OF selects SetOf<T>: the flag computed in generate_sequence_or_set_of is evaluated per kind, and the template for both values
    if let Some(f) = anchor_fn(m, ctx, "C02.wrap", Some("Rasn"), "generate_sequence_or_set_of", None) {
        use std::collections::BTreeMap as Map;
        ctx.oblige("C02.wrap", "set-of-selection", true);
        let consts = const_resolver(m);
        let hook = |_: &Evaluator, _: &str, _: &[Val]| -> Option<Result<Val, String>> { None };
        let ev = Evaluator { consts: &consts, call_hook: &hook, inline: None };
        // the match over tld.ty that yields (flag, payload)
        let mt = model::matches_in(&f.block).into_iter().find(|mt| mt.arms.iter().any(|a| tok(&a.pat).contains("ASN1Type::SetOf(")) && mt.arms.iter().any(|a| { let b = tok(&a.body); b.contains("true") || b.contains("false") }));
        match mt {
            None => ctx.violate("C02.wrap", "set-of-selection", &f.file, f.line, "SET OF must select SetOf<T>, SEQUENCE OF SequenceOf<T> (no such decision found)"),
            Some(mt) => {
                for (kind, want) in [("SetOf", true), ("SequenceOf", false)] {
                    let v = Val::Ctor(kind.into(), vec![Val::Sym("payload".into())], Map::new());
                    match ev.select_arm(&mt, &v, &Env::new()).and_then(|(i, mut e2)| ev.eval(&mt.arms[i].body, &mut e2)) {
                        Ok(Val::Tuple(t)) if matches!(t.first(), Some(Val::Bool(_))) => {
                            if t[0] != Val::Bool(want) {
                                ctx.violate("C02.wrap", "set-of-selection", &f.file, span_line(&mt), &format!("for a {} the is-set-of flag is {}", kind, t[0].show()));
                            }
                        }
                        Ok(o) => ctx.fail_closed("C02.wrap", &format!("[set-of selection {}]: {}", kind, o.show())),
                        Err(e) => ctx.fail_closed("C02.wrap", &format!("[set-of selection {}]: {}", kind, e)),
                    }
                }
            }
        }
    }
    if let Ok(f) = m.find_fn(None, "sequence_or_set_of_template", Some("generator::rasn")) {
        ctx.oblige("C02.wrap", "set-of-template", true);
        let consts = const_resolver(m);
        let hook = |_: &Evaluator, _: &str, _: &[Val]| -> Option<Result<Val, String>> { None };
        let ev = Evaluator { consts: &consts, call_hook: &hook, inline: None };
        let params: Vec<String> = f.sig.inputs.iter().filter_map(|a| match a { syn::FnArg::Typed(t) => Some(tok(&t.pat)), _ => None }).collect();
        for flag in [true, false] {
            let mut env = Env::new();
            for p in &params {
                env.insert(p.clone(), Val::Sym(format!("<{}>", p)));
            }
            env.insert(params.first().cloned().unwrap_or("is_set_of".into()), Val::Bool(flag));
            match ev.eval_fn_body(&f.block, &mut env) {
                Ok(v) => {
                    let t = v.show().replace(' ', "");
                    let (want, other) = if flag { ("SetOf<", "SequenceOf<") } else { ("SequenceOf<", "SetOf<") };
                    if !t.contains(want) || t.contains(other) {
                        ctx.violate("C02.wrap", "set-of-template", &f.file, f.line, &format!("sequence_or_set_of_template(is_set_of = {}) renders `{}`: it must pick SetOf exactly when is_set_of", flag, t.chars().take(120).collect::<String>()));
                    }
                }
                Err(e) => ctx.fail_closed("C02.wrap", &format!("[set-of template]: {}", e)),
            }
        }
    }
    ctx.sample(json!({"pairs": PAIRS}));
}


/// C01.lazyref — a value that cannot be a `const` (an unconstrained INTEGER, a string, ..) is declared as a lazily initialised
/// static (`pub static I1: LazyLock<I>`). A DEFAULT function that *refers* to such a value by name returns the static, not a
/// value of the component's type (E0308 in the bindings, no warning). format_default_methods is evaluated on a DEFAULT that is
/// a reference to a lazily initialised value and on one that refers to a `const`: the former is dereferenced / copied, the
/// latter returned as it is.
pub fn lazy_default_refs(m: &Model, ctx: &mut Ctx, rule: &str) {
    use std::collections::BTreeMap as Map;
    let Some(f) = anchor_fn(m, ctx, rule, Some("Rasn"), "format_default_methods", None) else { return };
    let consts = const_resolver(m);
    let hook = |_: &Evaluator, name: &str, a: &[Val]| -> Option<Result<Val, String>> {
        match name {
            "TokenStream::new" => Some(Ok(Val::Str(String::new()))),
            ".value_to_tokens" => Some(Ok(Val::Ctor("Ok".into(), vec![Val::Sym(match a.get(1) { Some(Val::Ctor(_, _, f)) => match f.get("identifier") { Some(Val::Str(s)) => s.to_uppercase(), _ => "VAL".into() }, _ => "VAL".into() })], Map::new()))),
            ".type_to_tokens" => Some(Ok(Val::Ctor("Ok".into(), vec![Val::Sym("TY".into())], Map::new()))),
            ".to_rust_title_case" => Some(Ok(Val::Sym("Ty".into()))),
            ".default_method_name" => Some(Ok(Val::Sym(format!("dflt_{}", a.get(2).map(|v| v.show()).unwrap_or_default().trim_matches('"'))))),
            ".default" if a.len() == 1 => Some(Ok(match &a[0] { Val::Ctor(n, p, _) if n == "Default" => Val::some(p.first().cloned().unwrap_or(Val::Unit)), _ => Val::none() })),
            _ => None,
        }
    };
    let ev = Evaluator { consts: &consts, call_hook: &hook, inline: None };
    let params: Vec<String> = f.sig.inputs.iter().filter_map(|a| match a { syn::FnArg::Typed(t) => Some(tok(&t.pat)), _ => None }).collect();
    let reference = |id: &str, can_be_const: bool| {
        let mut fm = Map::new();
        fm.insert("parent".to_string(), Val::none());
        fm.insert("identifier".to_string(), Val::Str(id.into()));
        fm.insert("can_be_const".to_string(), Val::Bool(can_be_const));
        Val::Ctor("LinkedElsewhereDefinedValue".into(), vec![], fm)
    };
    let mem = |n: &str, v: Val| {
        let mut me = Map::new();
        me.insert("name".to_string(), Val::Str(n.into()));
        me.insert("optionality".to_string(), Val::Ctor("Default".into(), vec![v], Map::new()));
        me.insert("ty".to_string(), Val::Ctor("ElsewhereDeclaredType".into(), vec![Val::Opaque("reference".into())], Map::new()));
        Val::Ctor("SequenceOrSetMember".into(), vec![], me)
    };
    for (id, can_be_const) in [("lazy", false), ("konst", true)] {
        ctx.oblige(rule, &format!("default-refers-to:{}", id), true);
        let mut env = Env::new();
        env.insert("self".into(), Val::ctor("Rasn"));
        env.insert(params.first().cloned().unwrap_or("members".into()), Val::List(vec![mem("m", reference(id, can_be_const))]));
        env.insert(params.get(1).cloned().unwrap_or("parent_name".into()), Val::Str("Parent".into()));
        match ev.eval_fn_body(&f.block, &mut env) {
            Ok(Val::Ctor(ok, p, _)) if ok == "Ok" => {
                let out = p.first().map(|v| match v { Val::Str(s) | Val::Sym(s) => s.replace(' ', ""), o => o.show() }).unwrap_or_default();
                let body = out.split_once('{').map(|x| x.1.trim_end_matches('}').to_string()).unwrap_or_default();
                let bare = body == id.to_uppercase();
                if !can_be_const && bare {
                    ctx.violate(rule, "default-returns-the-static", &f.file, f.line, &format!("the DEFAULT function of a component whose DEFAULT refers to a value that is no `const` is `{}`: the name denotes a `LazyLock<T>` static, the function returns `T` — mismatched types in the bindings, without a warning (`I ::= INTEGER  i1 I ::= 5  Sq ::= SEQUENCE {{ m I DEFAULT i1 }}`)", out));
                } else if can_be_const && !bare {
                    ctx.violate(rule, "default-of-const-rewritten", &f.file, f.line, &format!("the DEFAULT function of a component whose DEFAULT refers to a `const` is `{}`; expected the constant as it is", out));
                }
            }
            Ok(o) => ctx.fail_closed(rule, &format!("[format_default_methods, DEFAULT {}]: {}", id, o.show().chars().take(120).collect::<String>())),
            Err(e) => ctx.fail_closed(rule, &format!("[format_default_methods, DEFAULT {}]: {}", id, e)),
        }
    }
}
