//! C09 — notations defined by expansion compile like their hand-expanded form (structural clauses).
use crate::model::{self, tok, FnInfo, Model};
use crate::report::Ctx;
use crate::rules::util::*;
use serde_json::json;
use std::collections::BTreeSet;

fn variants_named(f: &FnInfo, en: &[String]) -> BTreeSet<String> {
    let mut out = BTreeSet::new();
    let mut pats: Vec<String> = vec![];
    for mt in model::matches_in(&f.block) {
        for a in &mt.arms {
            pats.push(tok(&a.pat));
        }
    }
    struct C {
        out: Vec<String>,
    }
    impl model::DeepCb for C {
        fn expr(&mut self, e: &syn::Expr) {
            if let syn::Expr::Let(l) = e {
                self.out.push(tok(&l.pat));
            }
        }
        fn mac(&mut self, mac: &syn::Macro) {
            if let Some(mm) = model::parse_matches(mac) {
                self.out.push(tok(&mm.pat));
            }
        }
    }
    let mut c = C { out: vec![] };
    model::deep_walk_block(&f.block, &mut c);
    pats.extend(c.out);
    for p in pats {
        for v in en {
            if p.contains(&format!("ASN1Type::{}(", v)) || p.contains(&format!("ASN1Type::{}{{", v)) || p.ends_with(&format!("ASN1Type::{}", v)) || p.contains(&format!("Self::{}(", v)) {
                out.insert(v.clone());
            }
        }
    }
    out
}

/// C09.scope: the name under which named numbers / enumerals in a constraint are looked up is the governing type.
/// For a constrained type reference `Level ::= Zone (low..high)` the governing type is `Zone`, so the call that links the
/// reference's constraints must be handed the *referenced* identifier, not the enclosing assignment's name.
pub fn scope(m: &Model, ctx: &mut Ctx, rule: &str) {
    let Some(f) = m.fns.iter().find(|f| f.name == "link_constraint_reference" && f.self_ty.as_deref() == Some("ASN1Type")) else {
        ctx.fail_closed(rule, "anchor not found: ASN1Type::link_constraint_reference");
        return;
    };
    ctx.func(&f.key);
    // first non-self parameter = the enclosing assignment's name
    let encl = f.sig.inputs.iter().filter_map(|a| match a {
        syn::FnArg::Typed(t) => Some(tok(&t.pat)),
        _ => None,
    }).next().unwrap_or_default();
    let Some(top) = model::matches_in(&f.block).into_iter().find(|mt| tok(&mt.expr) == "self") else {
        ctx.fail_closed(rule, "link_constraint_reference has no `match self`");
        return;
    };
    let mut elsewhere_seen = 0;
    let mut calls_seen = 0;
    for arm in &top.arms {
        let pat = tok(&arm.pat);
        // local lets of the arm body
        struct L {
            lets: Vec<(String, String)>,
            calls: Vec<(String, usize)>,
        }
        impl model::DeepCb for L {
            fn expr(&mut self, e: &syn::Expr) {
                if let syn::Expr::MethodCall(mc) = e {
                    if mc.method == "link_cross_reference" || mc.method == "link_constraint_reference" {
                        if let Some(a) = mc.args.first() {
                            self.calls.push((tok(a), model::line_of(syn::spanned::Spanned::span(mc))));
                        }
                    }
                }
            }
            fn local(&mut self, l: &syn::Local) {
                if let (syn::Pat::Ident(pi), Some(init)) = (&l.pat, &l.init) {
                    self.lets.push((pi.ident.to_string(), tok(&init.expr)));
                }
            }
        }
        let mut l = L { lets: vec![], calls: vec![] };
        model::deep_walk_expr(&arm.body, &mut l);
        let resolve = |a: &str| -> String {
            let mut s = a.trim_start_matches('&').to_string();
            for _ in 0..4 {
                if let Some((_, init)) = l.lets.iter().find(|(n, _)| *n == s) {
                    s = init.trim_start_matches('&').to_string();
                }
                for suf in [".clone()", ".to_owned()", ".to_string()", ".as_str()"] {
                    if let Some(x) = s.strip_suffix(suf) {
                        s = x.to_string();
                    }
                }
            }
            s
        };
        let is_elsewhere = pat.contains("ElsewhereDeclaredType(");
        let binding = pat.split("ElsewhereDeclaredType(").nth(1).map(|r| r.trim_end_matches(')').to_string()).unwrap_or_default();
        for (a, line) in &l.calls {
            calls_seen += 1;
            let r = resolve(a);
            ctx.oblige(rule, &format!("{}:{}", pat, a), true);
            if is_elsewhere {
                elsewhere_seen += 1;
                if r != format!("{}.identifier", binding) {
                    ctx.violate(rule, "reference-constraints-linked-under-enclosing-name", &f.file, *line,
                        &format!("the constraints of a constrained type reference are linked under `{}` (resolves to `{}`) instead of the referenced type `{}.identifier`: a named number in `Level ::= Zone (low..high)` is then not found in Zone first but in whichever type defining `low` sorts first", a, r, binding));
                }
            } else if r != encl && !r.contains(".identifier") && !r.contains(".name") {
                ctx.violate(rule, &format!("unrecognised-scope:{}", pat), &f.file, *line,
                    &format!("arm `{}` links constraints under `{}` (resolves to `{}`), which is neither the enclosing assignment's name `{}` nor a name taken from the matched type", pat, a, r, encl));
            }
        }
    }
    ctx.floor("C09.scope:elsewhere-arm-calls", elsewhere_seen, 1);
    ctx.floor("C09.scope:calls", calls_seen, 10);

    // the lookup itself: the governing type is searched before any other type
    match m.find_fn(None, "find_tld_or_enum_value_by_name", None) {
        Ok(g) => {
            ctx.func(&g.key);
            let _tname = g.sig.inputs.iter().filter_map(|a| match a {
                syn::FnArg::Typed(t) => Some(tok(&t.pat)),
                _ => None,
            }).next().unwrap_or_default();
            let calls: Vec<String> = model::method_calls_in(&g.block).iter().filter(|mc| mc.method == "get_distinguished_or_enum_value").map(|mc| mc.args.first().map(|a| tok(a)).unwrap_or_default()).collect();
            // the lookup evaluated on a map in which an unrelated type that sorts first defines the same identifier: the
            // governing type's own number wins, wherever the governing type sorts
            {
                use crate::eval::{Env, Evaluator, Val};
                use std::collections::BTreeMap as Map;
                let consts = const_resolver(m);
                let params: Vec<String> = g.sig.inputs.iter().filter_map(|a| match a { syn::FnArg::Typed(t) => Some(tok(&t.pat)), _ => None }).collect();
                let scenarios: Vec<(&str, Vec<(&str, i128, Option<&str>)>, &str, i128)> = vec![
                    ("unrelated type sorts first", vec![("Alarm", 9i128, None), ("Colour", 1, None)], "Colour", 1i128),
                    ("governing type sorts first", vec![("Colour", 1, None), ("Signal", 9, None)], "Colour", 1),
                    ("only the governing type defines it", vec![("Colour", 1, None), ("Other", -1, None)], "Colour", 1),
                    ("INTEGER named number, unrelated INTEGER sorts first", vec![("Alarm", 8, None), ("Colour", 4, None)], "Colour", 4),
                    ("INTEGER named number behind a reference", vec![("Alarm", 8, None), ("Colour", 4, None), ("Shade", -1, Some("Colour"))], "Shade", 4),
                    ("governing type is a reference to the defining type", vec![("Alarm", 9, None), ("Colour", 1, None), ("Shade", -1, Some("Colour"))], "Shade", 1),
                    ("governing type is a reference to a reference", vec![("Alarm", 9, None), ("Colour", 1, None), ("Shade", -1, Some("Colour")), ("Tint", -1, Some("Shade"))], "Tint", 1),
                ];
                for (what, order, governing, want) in scenarios {
                    ctx.oblige(rule, &format!("lookup:{}", what), true);
                    let order2: Vec<(String, i128, Option<String>)> = order.iter().map(|(n, v, a)| (n.to_string(), *v, a.map(|x| x.to_string()))).collect();
                    // a definition as the linker sees it: ToplevelDefinition::Type(ToplevelTypeDefinition { name, ty, .. })
                    fn tld_val(n: &str, v: i128, alias: &Option<String>) -> Val {
                        let mut f = Map::new();
                        f.insert("name".to_string(), Val::Str(n.to_string()));
                        f.insert("number".to_string(), Val::int(v));
                        let ty = match alias {
                            Some(a) => {
                                let mut d = Map::new();
                                d.insert("identifier".to_string(), Val::Str(a.clone()));
                                Val::Ctor("ElsewhereDeclaredType".into(), vec![Val::Ctor("DeclarationElsewhere".into(), vec![], d)], Map::new())
                            }
                            // an INTEGER with the named number `red(v)` (a negative v: the type does not define `red`), or — for
                            // odd v — an ENUMERATED with the enumeral `red` numbered v: the lookup itself is the crate's code
                            None if v >= 0 && v % 2 == 1 => {
                                let mut en = Map::new();
                                en.insert("name".to_string(), Val::Str("red".into()));
                                en.insert("index".to_string(), Val::int(v));
                                let mut other = Map::new();
                                other.insert("name".to_string(), Val::Str("zz".into()));
                                other.insert("index".to_string(), Val::int(v + 100));
                                let mut e = Map::new();
                                e.insert("members".to_string(), Val::List(vec![Val::Ctor("Enumeral".into(), vec![], other), Val::Ctor("Enumeral".into(), vec![], en)]));
                                Val::Ctor("Enumerated".into(), vec![Val::Ctor("Enumerated".into(), vec![], e)], Map::new())
                            }
                            None => {
                                let mut dv = Map::new();
                                dv.insert("name".to_string(), Val::Str(if v >= 0 { "red" } else { "unrelated" }.into()));
                                dv.insert("value".to_string(), Val::int(v));
                                let mut i = Map::new();
                                i.insert("distinguished_values".to_string(), Val::some(Val::List(vec![Val::Ctor("DistinguishedValue".into(), vec![], dv)])));
                                i.insert("constraints".to_string(), Val::List(vec![]));
                                Val::Ctor("Integer".into(), vec![Val::Ctor("Integer".into(), vec![], i)], Map::new())
                            }
                        };
                        f.insert("ty".to_string(), ty);
                        Val::Ctor("Type".into(), vec![Val::Ctor("ToplevelTypeDefinition".into(), vec![], f)], Map::new())
                    }
                    let hook = move |_: &Evaluator, name: &str, a: &[Val]| -> Option<Result<Val, String>> {
                        match (name, a.first()) {
                            (".get", Some(Val::Opaque(s))) if s == "tlds" => {
                                let key = match a.get(1) { Some(Val::Str(k)) => k.clone(), _ => return Some(Err("tlds.get with a key that is not a name".into())) };
                                Some(Ok(match order2.iter().find(|(n, _, _)| *n == key) {
                                    Some((n, v, al)) => Val::some(tld_val(n, *v, al)),
                                    None => Val::none(),
                                }))
                            }
                            (".len", Some(Val::Opaque(s))) if s == "tlds" => Some(Ok(Val::int(order2.len() as i128))),
                            (".iter", Some(Val::Opaque(s))) | (".values", Some(Val::Opaque(s))) if s == "tlds" => {
                                Some(Ok(Val::List(order2.iter().map(|(n, v, al)| {
                                    let t = tld_val(n, *v, al);
                                    if name == ".iter" { Val::Tuple(vec![Val::Str(n.clone()), t]) } else { t }
                                }).collect())))
                            }
                            _ => None,
                        }
                    };
                    let inl = inline_all(m, &["ToplevelDefinition"]);
                    let ev = Evaluator { consts: &consts, call_hook: &hook, inline: Some(&inl) };
                    let mut env = Env::new();
                    env.insert(params.first().cloned().unwrap_or("type_name".into()), Val::Str(governing.into()));
                    env.insert(params.get(1).cloned().unwrap_or("name".into()), Val::Str("red".into()));
                    env.insert(params.get(2).cloned().unwrap_or("tlds".into()), Val::Opaque("tlds".into()));
                    match ev.eval_fn_body(&g.block, &mut env) {
                        Ok(Val::Ctor(s, p, _)) if s == "Some" => {
                            let got = match p.first() { Some(Val::Ctor(_, q, _)) => match q.first() { Some(Val::Int { v, .. }) => Some(*v), _ => None }, _ => None };
                            if got != Some(want) {
                                ctx.violate(rule, "governing-type-wins", &g.file, g.line,
                                    &format!("`red` in a constraint on `{}` ({}; definitions {:?}) resolves to {:?}; it is the named number of the governing type: {}", governing, what, order, got, want));
                            }
                        }
                        Ok(o) => ctx.violate(rule, "governing-type-wins", &g.file, g.line, &format!("`red` in a constraint on `{}` ({}) resolves to {}", governing, what, o.show())),
                        Err(e) => ctx.fail_closed(rule, &format!("[lookup {}]: {}", what, e)),
                    }
                }
            }
            ctx.oblige(rule, "untyped-fallback", true);
            if calls.iter().any(|c| c == "None") {
                ctx.violate(rule, "untyped-fallback", &g.file, g.line,
                    "a named number that is not found under the given type name is looked up in *every* type, in map (alphabetical) order, and the first hit wins: for an inline member type the given name is the enclosing assignment, so the member's own named numbers lose against any type that sorts earlier and defines the same identifier");
            }
        }
        Err(e) => ctx.fail_closed(rule, &format!("anchor not found: {}", e)),
    }
}

/// C09.order: inside the single linking pass every step that *imports* IR from another definition into the current one
/// (COMPONENTS OF, selection types, class-field types, object-set references) runs before the steps that resolve
/// references inside the current definition (constraint references, DEFAULT/value linking, recursion marking): each
/// step runs once per name, so whatever is imported after the resolving steps stays unresolved whenever the
/// referenced definition has not been linked yet — which depends only on how the two names sort.
pub fn order(m: &Model, ctx: &mut Ctx, rule: &str) {
    let Some(f) = m.fns.iter().find(|f| f.name == "link" && f.self_ty.as_deref() == Some("Validator")) else {
        ctx.fail_closed(rule, "anchor not found: Validator::link");
        return;
    };
    ctx.func(&f.key);
    // the loops over the key list, in source order: a step's position is (loop, statement) — one loop is one pass over
    // *all* definitions, so a step in a later loop runs after every definition has been through the earlier loops
    struct W {
        loops: Vec<syn::Block>,
    }
    impl model::DeepCb for W {
        fn expr(&mut self, e: &syn::Expr) {
            let body = match e {
                syn::Expr::While(w) => Some(&w.body),
                syn::Expr::ForLoop(l) => Some(&l.body),
                _ => None,
            };
            if let Some(body) = body {
                let t = tok(body);
                if ["link_constraint_reference", "collect_supertypes", "mark_recursive", "resolve_class_reference"].iter().any(|n| t.contains(&format!(".{}(", n))) {
                    self.loops.push(body.clone());
                }
            }
        }
    }
    let mut w = W { loops: vec![] };
    model::deep_walk_block(&f.block, &mut w);
    if w.loops.is_empty() {
        ctx.fail_closed(rule, "Validator::link: no loop over the definitions was found");
        return;
    }
    let importers = ["resolve_class_reference", "link_components_of_notation", "link_choice_selection_type", "link_object_set_reference", "resolve_object_set_references"];
    let resolvers = ["link_constraint_reference", "collect_supertypes", "mark_recursive"];
    let mut pos: std::collections::BTreeMap<String, ((usize, usize), usize)> = std::collections::BTreeMap::new();
    for (l, body) in w.loops.iter().enumerate() {
        for (i, st) in body.stmts.iter().enumerate() {
            let blk = syn::Block { brace_token: Default::default(), stmts: vec![st.clone()] };
            for mc in model::method_calls_in(&blk) {
                let n = mc.method.to_string();
                if importers.contains(&n.as_str()) || resolvers.contains(&n.as_str()) {
                    pos.entry(n).or_insert(((l, i), model::line_of(syn::spanned::Spanned::span(&mc))));
                }
            }
        }
    }
    for n in importers.iter().chain(resolvers.iter()) {
        if !pos.contains_key(*n) {
            ctx.fail_closed(rule, &format!("Validator::link: step `{}` not found as a statement of the key loop", n));
        }
    }
    // COMPONENTS OF copies the referenced type's components as they stand; notations inside the copies (selection
    // types, object-set references) are expanded only by the steps that follow it on the same key
    for later in ["link_choice_selection_type", "link_object_set_reference"] {
        let (Some((pc, lc)), Some((pl, _))) = (pos.get("link_components_of_notation"), pos.get(later)) else { continue };
        ctx.oblige(rule, &format!("link_components_of_notation<{}", later), true);
        if pc >= pl {
            ctx.violate(rule, &format!("link_components_of_notation-after-{}", later), &f.file, *lc,
                &format!("Validator::link runs `link_components_of_notation` after `{}`: components copied from a type that has not been linked yet keep their unexpanded notation (a selection type then reaches the generator, which does not expect it), depending only on how the two names sort", later));
        }
    }
    for imp in importers {
        for res in resolvers {
            let (Some((pi, li)), Some((pr, _))) = (pos.get(imp), pos.get(res)) else { continue };
            ctx.oblige(rule, &format!("{}<{}", imp, res), true);
            if pi >= pr {
                ctx.violate(rule, &format!("{}-after-{}", imp, res), &f.file, *li,
                    &format!("Validator::link runs `{}` (which copies parts of another definition into the current one) after `{}`: what it copies from a definition that has not been linked yet is never resolved, so the result depends on whether the referenced name sorts before or after the referencing one", imp, res));
            }
        }
    }
    // two phases: a value (a DEFAULT, a value assignment) is linked against the definition of its governing type *as it stands
    // in the table*; the integer type of `Aa-int ::= INTEGER (0..maxv)` is known only once its own constraint reference has
    // been resolved. collect_supertypes in the same pass as link_constraint_reference sees resolved bounds for the names that
    // happen to have been visited already and unresolved ones for the rest.
    if let (Some(((lc, _), _)), Some(((ls, _), line))) = (pos.get("link_constraint_reference"), pos.get("collect_supertypes")) {
        ctx.oblige(rule, "phase:constraint-references-before-values", true);
        if ls <= lc {
            ctx.violate(rule, "phase:values-linked-in-the-pass-that-resolves-constraints", &f.file, *line,
                "Validator::link links values (collect_supertypes) in the same pass over the definitions that resolves constraint references: `Zz ::= SEQUENCE { a Aa-int DEFAULT 3 }` with `Aa-int ::= INTEGER (0..maxv)` is linked while the bound of Aa-int is still the unresolved reference — the DEFAULT is typed as an unconstrained INTEGER (`AaInt(Integer::from(3i128))` for `struct AaInt(pub u8)`) — whereas the same with a referenced type that sorts *after* the referencing one gets `ZzInt(3)`: the result depends on the spelling of the names");
        }
    }
}

/// Detector/rewriter agreement over constraint kinds: `has_cross_reference` decides whether the linker visits a
/// definition at all, `link_cross_reference` does the visiting. For every variant the rewriter descends into, the
/// detector must be able to say yes — an arm that is the constant `false` hides every reference below that variant.
pub fn constraint_pairs(m: &Model, ctx: &mut Ctx, rule: &str) {
    let mut pairs = 0;
    for ty in ["Constraint", "SubtypeElements", "ElementOrSetOperation"] {
        let det = m.fns.iter().find(|f| f.name == "has_cross_reference" && f.self_ty.as_deref() == Some(ty));
        let rew = m.fns.iter().find(|f| f.name == "link_cross_reference" && f.self_ty.as_deref() == Some(ty));
        let (Some(det), Some(rew)) = (det, rew) else {
            ctx.fail_closed(rule, &format!("anchor not found: {}::has_cross_reference / link_cross_reference", ty));
            continue;
        };
        let Ok(en) = m.find_enum(ty) else {
            ctx.fail_closed(rule, &format!("enum {} not found", ty));
            continue;
        };
        ctx.func(&det.key);
        ctx.func(&rew.key);
        let arm_for = |f: &FnInfo, v: &str| -> Option<(String, usize)> {
            let mt = model::matches_in(&f.block).into_iter().find(|mt| tok(&mt.expr) == "self")?;
            let named = mt.arms.iter().find(|a| {
                let p = tok(&a.pat);
                p.split('|').any(|alt| {
                    let alt = alt.trim();
                    alt.ends_with(&format!("::{}", v)) || alt.contains(&format!("::{}(", v)) || alt.contains(&format!("::{}{{", v))
                })
            });
            let arm = named.or_else(|| mt.arms.iter().find(|a| tok(&a.pat) == "_"))?;
            Some((tok(&arm.body), model::line_of(syn::spanned::Spanned::span(arm))))
        };
        for v in &en.variants {
            let (Some((db, dl)), Some((rb, _))) = (arm_for(det, v), arm_for(rew, v)) else {
                ctx.fail_closed(rule, &format!("{}::{}: no arm found in has_cross_reference / link_cross_reference", ty, v));
                continue;
            };
            pairs += 1;
            let acts = !["()", "Ok(())", "{}", "{Ok(())}"].contains(&rb.as_str());
            ctx.oblige(rule, &format!("{}::{}", ty, v), acts);
            if acts && db == "false" {
                ctx.violate(rule, &format!("detector-constant-false:{}::{}", ty, v), &det.file, dl,
                    &format!("{}::has_cross_reference is the constant `false` for {}::{}, but link_cross_reference descends into it: a definition whose only reference sits below a {} constraint is never visited by the linker, and the reference stays unresolved", ty, ty, v, v));
            }
        }
    }
    ctx.floor(&format!("{}/constraint-kind-pairs", rule), pairs, 14);
}

/// C09.params: instantiating `Param { args }` links a clone of the template in a scope in which each dummy reference
/// denotes its actual parameter — also when the module happens to define something of the same name (X.683 8.3: the
/// scope of a dummy reference is the parameterized assignment itself). In resolve_parameters the scope map must be
/// filled from the module's definitions *before* the actual parameters are inserted under the dummy names (a later
/// insert wins), and it is that map the template is linked against.
fn params(m: &Model, ctx: &mut Ctx) {
    let Some(f) = m.fns.iter().find(|f| f.name == "resolve_parameters" && f.self_ty.as_deref() == Some("ASN1Type")) else {
        ctx.fail_closed("C09.params", "anchor not found: ASN1Type::resolve_parameters");
        return;
    };
    ctx.func(&f.key);
    let module_map = f.sig.inputs.iter().filter_map(|a| match a { syn::FnArg::Typed(t) if tok(&t.ty).contains("BTreeMap<String,ToplevelDefinition>") => Some(tok(&t.pat)), _ => None }).next().unwrap_or("tlds".into());
    // the scope map: receiver of `.insert(dummy_reference.clone(), ..)`
    let inserts: Vec<(String, usize)> = model::method_calls_in(&f.block).iter().filter(|mc| mc.method == "insert" && mc.args.first().map(|a| tok(a).starts_with("dummy_reference")).unwrap_or(false) && mc.args.iter().nth(1).map(|a| tok(a).starts_with("ToplevelDefinition::")).unwrap_or(false)).map(|mc| (tok(&mc.receiver), model::line_of(syn::spanned::Spanned::span(mc)))).collect();
    ctx.floor("C09.params/parameter-inserts", inserts.len(), 3);
    let Some(scope) = inserts.first().map(|x| x.0.clone()) else { return };
    ctx.oblige("C09.params", "one-scope-map", true);
    if inserts.iter().any(|(r, _)| *r != scope) {
        ctx.violate("C09.params", "one-scope-map", &f.file, f.line, &format!("the actual parameters are inserted into different maps: {:?}", inserts));
    }
    let first_insert = inserts.iter().map(|x| x.1).min().unwrap_or(0);
    // statements that put the module's definitions into the scope map
    struct L {
        scope: String,
        module_map: String,
        fills: Vec<(usize, String)>,
    }
    impl model::DeepCb for L {
        fn local(&mut self, l: &syn::Local) {
            if let Some(init) = &l.init {
                let p = tok(&l.pat).replace("mut ", "");
                if p == self.scope && tok(&init.expr).contains(&self.module_map) {
                    self.fills.push((model::line_of(syn::spanned::Spanned::span(l)), tok(&init.expr)));
                }
            }
        }
        fn expr(&mut self, e: &syn::Expr) {
            if let syn::Expr::MethodCall(mc) = e {
                if tok(&mc.receiver) == self.scope && ["extend", "append", "insert", "entry", "extend_from_slice"].contains(&mc.method.to_string().as_str()) && mc.args.iter().any(|a| tok(a).contains(&self.module_map)) && !tok(mc).contains("dummy_reference") {
                    self.fills.push((model::line_of(syn::spanned::Spanned::span(mc)), tok(mc).chars().take(80).collect()));
                }
            }
        }
    }
    let mut l = L { scope: scope.clone(), module_map: module_map.clone(), fills: vec![] };
    model::deep_walk_block(&f.block, &mut l);
    ctx.oblige("C09.params", "module-definitions-visible", true);
    if l.fills.is_empty() {
        ctx.violate("C09.params", "module-definitions-visible", &f.file, f.line, &format!("the scope map `{}` is never filled from `{}`: the template cannot refer to the module's other definitions", scope, module_map));
    }
    ctx.oblige("C09.params", "parameters-shadow-module-definitions", true);
    for (line, what) in &l.fills {
        if *line > first_insert {
            ctx.violate("C09.params", "parameters-shadow-module-definitions", &f.file, *line,
                &format!("`{}` adds the module's definitions to the scope map after the actual parameters were inserted under the dummy names: a module-level definition spelled like a dummy reference overrides the actual parameter (`Element ::= OCTET STRING  Box{{Element}} ::= SEQUENCE {{ item Element }}  X ::= Box{{BOOLEAN}}` gives item: OctetString)", what));
        }
    }
    // the template is linked against the scope map
    ctx.oblige("C09.params", "template-linked-in-scope", true);
    for mc in model::method_calls_in(&f.block) {
        let n = mc.method.to_string();
        if (n == "link_elsewhere_declared" || n == "link_constraint_reference") && tok(&mc.receiver).contains("impl_template") {
            let last = mc.args.iter().last().map(|a| tok(a)).unwrap_or_default();
            if last.trim_start_matches('&') != scope {
                ctx.violate("C09.params", "template-linked-in-scope", &f.file, model::line_of(syn::spanned::Spanned::span(&mc)), &format!("the template is linked against `{}` instead of the scope map `{}` that holds the actual parameters", last, scope));
            }
        }
    }
}

/// C09.params (expansion): "an instantiation of a parameterized type … produces the same bindings as the expanded notation
/// written out by hand". The hand expansion of `Inst ::= Pt {BOOLEAN}` with `Pt {T} ::= SEQUENCE { a T, b Other }` is
/// `SEQUENCE { a BOOLEAN, b Other }`: the dummy reference is replaced, every other reference stays a reference. The
/// substitution step (`ASN1Type::link_elsewhere_declared`, run on the template with the scope map) is evaluated on that
/// template: `a` becomes BOOLEAN, `b` is still the reference `Other`.
pub fn template_expansion(m: &Model, ctx: &mut Ctx, rule: &str) {
    use crate::eval::{Env, Evaluator, Val};
    use std::collections::BTreeMap as Map;
    let Some(f) = m.fns.iter().find(|f| f.name == "link_elsewhere_declared" && f.self_ty.as_deref() == Some("ASN1Type")) else {
        ctx.fail_closed(rule, "anchor not found: ASN1Type::link_elsewhere_declared");
        return;
    };
    ctx.func(&f.key);
    ctx.oblige(rule, "expansion:only-dummy-references-are-replaced", true);
    let consts = const_resolver(m);
    let params: Vec<String> = f.sig.inputs.iter().filter_map(|a| match a { syn::FnArg::Typed(t) => Some(tok(&t.pat)), _ => None }).collect();
    let mut inl: Map<String, (Vec<String>, syn::Block)> = Map::new();
    inl.insert(".link_elsewhere_declared".into(), (params.clone(), f.block.clone()));
    let ev = Evaluator { consts: &consts, call_hook: &crate::eval::no_hook, inline: Some(&inl) };
    let named = |n: &str, fields: Vec<(&str, Val)>| Val::Ctor(n.to_string(), vec![], fields.into_iter().map(|(k, v)| (k.to_string(), v)).collect::<Map<_, _>>());
    let reference = |to: &str| Val::Ctor("ElsewhereDeclaredType".into(), vec![named("DeclarationElsewhere", vec![("identifier", Val::Str(to.into())), ("module", Val::none()), ("parent", Val::none()), ("constraints", Val::List(vec![]))])], Map::new());
    let member = |n: &str, ty: Val| named("SequenceOrSetMember", vec![("name", Val::Str(n.into())), ("ty", ty), ("is_recursive", Val::Bool(false)), ("optionality", Val::ctor("Required")), ("tag", Val::none()), ("constraints", Val::List(vec![]))]);
    let template = Val::Ctor("Sequence".into(), vec![named("SequenceOrSet", vec![("members", Val::List(vec![member("a", reference("T")), member("b", reference("Other"))])), ("extensible", Val::none()), ("constraints", Val::List(vec![]))])], Map::new());
    let tld = |n: &str, ty: Val| Val::Ctor("Type".into(), vec![named("ToplevelTypeDefinition", vec![("name", Val::Str(n.into())), ("ty", ty), ("parameterization", Val::none())])], Map::new());
    let mut tlds = crate::eval::new_map();
    tlds = crate::eval::map_insert(tlds, Val::Str("T".into()), tld("T", Val::Ctor("Boolean".into(), vec![Val::Sym("<BOOLEAN>".into())], Map::new())));
    tlds = crate::eval::map_insert(tlds, Val::Str("Other".into()), tld("Other", Val::Ctor("Integer".into(), vec![Val::Sym("<INTEGER (0..7)>".into())], Map::new())));
    let mut env = Env::new();
    env.insert("self".into(), template);
    env.insert(params.first().cloned().unwrap_or("tlds".into()), tlds);
    match ev.eval_fn_body(&f.block, &mut env) {
        Ok(Val::Ctor(ok, _, _)) if ok == "Ok" => {
            let kinds: Vec<String> = match env.get("self") {
                Some(Val::Ctor(_, p, _)) => match p.first() {
                    Some(Val::Ctor(_, _, fl)) => match fl.get("members") {
                        Some(Val::List(ms)) => ms.iter().map(|mm| match mm { Val::Ctor(_, _, mf) => match mf.get("ty") { Some(Val::Ctor(k, _, _)) => k.clone(), o => format!("{:?}", o.map(|v| v.show())) }, o => o.show() }).collect(),
                        _ => vec![],
                    },
                    _ => vec![],
                },
                _ => vec![],
            };
            if kinds.len() != 2 {
                ctx.fail_closed(rule, &format!("template members after the substitution: {:?}", kinds));
            } else {
                if kinds[0] != "Boolean" {
                    ctx.violate(rule, "expansion:dummy-reference-not-replaced", &f.file, f.line, &format!("`Pt {{T}} ::= SEQUENCE {{ a T, b Other }}` instantiated with BOOLEAN: component `a` is {} after the substitution, the actual parameter is BOOLEAN", kinds[0]));
                }
                if kinds[1] != "ElsewhereDeclaredType" {
                    ctx.violate(rule, "expansion:other-references-inlined", &f.file, f.line,
                        &format!("`Pt {{T}} ::= SEQUENCE {{ a T, b Other }}  Other ::= INTEGER (0..7)  Inst ::= Pt {{BOOLEAN}}`: the substitution step replaces *every* type reference of the template by the referenced definition, not only the dummy reference — component `b` becomes {} (bindings `#[rasn(value(\"0..=7\"))] pub b: u8`), while the hand-expanded `SEQUENCE {{ a BOOLEAN, b Other }}` gives `pub b: Other`; a `c SEQUENCE OF Other` becomes a hoisted `InstC` instead of `SequenceOf<Other>`", kinds[1]));
                }
            }
        }
        Ok(o) => ctx.fail_closed(rule, &format!("link_elsewhere_declared on the template: {}", o.show().chars().take(100).collect::<String>())),
        Err(e) => ctx.fail_closed(rule, &format!("link_elsewhere_declared on the template: {}", e)),
    }
}

/// C09.traverse: "at any depth". The expansions of C09 (COMPONENTS OF, selection types, class-field references, constraint
/// references, DEFAULT linking) are found by recursive traversals of `ASN1Type`. A component can sit below five kinds of
/// container — SEQUENCE, SET, CHOICE, SEQUENCE OF, SET OF — so every traversal (a method of `ASN1Type` whose `match self`
/// recurses into at least two of them) must recurse into all five; the exceptions are audited one by one
/// (audit/traversal.json). Siblings are cross-checked: the majority shape is the rule, a deviant is reported.
/// C09.scope (value chains) / C04.scope: "a value reference inside a constraint" may name a value assignment that is itself a
/// reference (`hi INTEGER ::= max-v`, and every value argument of a parameterized type: `Bounded {1, max-v}` binds `hi` to the
/// reference `max-v`). The lookup used for constraint bounds must hand back the value the chain ends in — a bound that is
/// still a reference is dropped silently (`value("1..")`). find_tld_or_enum_value_by_name is evaluated on `a ::= b  b ::= 20`.
pub fn value_chain(m: &Model, ctx: &mut Ctx, rule: &str) {
    use crate::eval::{Env, Evaluator, Val};
    use std::collections::BTreeMap as Map;
    let Ok(g) = m.find_fn(None, "find_tld_or_enum_value_by_name", None) else {
        ctx.fail_closed(rule, "anchor not found: find_tld_or_enum_value_by_name");
        return;
    };
    ctx.func(&g.key);
    let consts = const_resolver(m);
    let named = |n: &str, fields: Vec<(&str, Val)>| Val::Ctor(n.to_string(), vec![], fields.into_iter().map(|(k, v)| (k.to_string(), v)).collect::<Map<_, _>>());
    let reference = |to: &str| named("ElsewhereDeclaredValue", vec![("identifier", Val::Str(to.into())), ("parent", Val::none()), ("module", Val::none())]);
    let value = |n: &str, v: Val| Val::Ctor("Value".into(), vec![named("ToplevelValueDefinition", vec![("name", Val::Str(n.into())), ("value", v)])], Map::new());
    let mut tlds = crate::eval::new_map();
    tlds = crate::eval::map_insert(tlds, Val::Str("a".into()), value("a", reference("b")));
    tlds = crate::eval::map_insert(tlds, Val::Str("b".into()), value("b", reference("c")));
    tlds = crate::eval::map_insert(tlds, Val::Str("c".into()), value("c", Val::Ctor("Integer".into(), vec![Val::int(20)], Map::new())));
    let hook = |_: &Evaluator, name: &str, _: &[Val]| -> Option<Result<Val, String>> { if name == "grammar_error!" { Some(Ok(Val::Sym("GrammarError".into()))) } else { None } };
    let inl = inline_all(m, &["ToplevelDefinition", "ASN1Value"]);
    let ev = Evaluator { consts: &consts, call_hook: &hook, inline: Some(&inl) };
    let params: Vec<String> = g.sig.inputs.iter().filter_map(|a| match a { syn::FnArg::Typed(t) => Some(tok(&t.pat)), _ => None }).collect();
    for start in ["c", "b", "a"] {
        ctx.oblige(rule, &format!("value-chain:{}", start), true);
        let mut env = Env::new();
        env.insert(params.first().cloned().unwrap_or("type_name".into()), Val::Str("T".into()));
        env.insert(params.get(1).cloned().unwrap_or("name".into()), Val::Str(start.into()));
        env.insert(params.get(2).cloned().unwrap_or("tlds".into()), tlds.clone());
        crate::eval::WHILE_BOUND.with(|b| b.set(64));
        let r = ev.eval_fn_body(&g.block, &mut env);
        crate::eval::WHILE_BOUND.with(|b| b.set(10_000));
        match r {
            Ok(Val::Ctor(s, p, _)) if s == "Some" => {
                let got = p.first().map(|v| v.show()).unwrap_or_default();
                if got != "Integer(20)" {
                    ctx.violate(rule, "value-chain", &g.file, g.line, &format!("the bound `{}` with `a INTEGER ::= b  b INTEGER ::= c  c INTEGER ::= 20` is looked up as `{}`: the chain of value references is not followed to its value, the constraint keeps a reference and the bound is dropped without a warning (`X ::= INTEGER (1..a)` -> `value(\"1..\")`; every value argument of a parameterized type is such a reference)", start, got.chars().take(90).collect::<String>()));
                }
            }
            Ok(o) => ctx.violate(rule, "value-chain", &g.file, g.line, &format!("the bound `{}` is looked up as {}", start, o.show().chars().take(90).collect::<String>())),
            Err(e) => ctx.fail_closed(rule, &format!("[value chain {}]: {}", start, e)),
        }
    }
}

pub fn traverse(m: &Model, ctx: &mut Ctx, rule: &str) {
    use crate::eval::{Evaluator, Val, Env};
    let audit: serde_json::Value = std::fs::read_to_string(ctx.verif.join("audit/traversal.json")).ok().and_then(|s| serde_json::from_str(&s).ok()).unwrap_or(serde_json::json!({"exceptions": {}}));
    let consts = const_resolver(m);
    let hook = |_: &Evaluator, _: &str, _: &[Val]| -> Option<Result<Val, String>> { None };
    let ev = Evaluator { consts: &consts, call_hook: &hook, inline: None };
    const KINDS: [&str; 5] = ["Sequence", "Set", "Choice", "SequenceOf", "SetOf"];
    let mut seen = 0;
    for f in m.fns.iter().filter(|f| f.krate == "rasn-compiler" && f.self_ty.as_deref() == Some("ASN1Type")) {
        let Some(mt) = model::matches_in(&f.block).into_iter().find(|mt| { let e = tok(&mt.expr); e == "self" || e == "*self" || e == "&self" }) else { continue };
        let call = format!("{}(", f.name);
        let mut covered: Vec<&str> = vec![];
        for k in KINDS {
            let v = Val::Ctor(k.to_string(), vec![Val::Opaque("payload".into())], Default::default());
            if let Ok((i, _)) = ev.select_arm(&mt, &v, &Env::new()) {
                let arm = &mt.arms[i];
                // the arm must name the variant (a wildcard arm does not visit anything) and hand on to the same traversal
                if tok(&arm.pat).contains(&format!("ASN1Type::{}(", k)) && tok(&arm.body).contains(&call) {
                    covered.push(k);
                }
            }
        }
        if covered.len() < 2 {
            continue;
        }
        seen += 1;
        ctx.func(&f.key);
        for k in KINDS {
            ctx.oblige(rule, &format!("{}:{}", f.name, k), true);
            if covered.contains(&k) {
                continue;
            }
            if let Some(r) = audit["exceptions"].get(&f.name).and_then(|e| e.get(k)).and_then(|r| r.as_str()) {
                ctx.sample(serde_json::json!({"traversal": f.name, "not_visited": k, "audited": r}));
                continue;
            }
            ctx.violate(rule, &format!("container-not-visited:{}:{}", f.name, k), &f.file, f.line,
                &format!("ASN1Type::{} recurses into {:?} but not into {}: whatever it finds or rewrites is missed when it sits in a component below a {} (the sibling traversals visit all five container kinds)", f.name, covered, k, k));
        }
    }
    ctx.floor(&format!("{}/traversals", rule), seen, 10);
}

/// C09.select: a selection type `b < C` is the type of alternative `b` of C (X.680 clause 30) — the arm of
/// link_choice_selection_type for a selection type is evaluated on a CHOICE with two alternatives: the rewritten node must
/// be the selected alternative's type, for each alternative, and a missing alternative must not be accepted.
pub fn select(m: &Model, ctx: &mut Ctx, rule: &str) {
    use crate::eval::{Env, Evaluator, Val};
    use std::collections::BTreeMap as Map;
    let Some(f) = m.fns.iter().find(|f| f.name == "link_choice_selection_type" && f.self_ty.as_deref() == Some("ASN1Type")) else {
        ctx.fail_closed(rule, "anchor not found: ASN1Type::link_choice_selection_type");
        return;
    };
    ctx.func(&f.key);
    let consts = const_resolver(m);
    let ty = |k: &str| Val::Ctor(k.to_string(), vec![Val::Opaque(format!("{}-payload", k))], Map::new());
    let option = |n: &str, t: Val| {
        let mut f = Map::new();
        f.insert("name".to_string(), Val::Str(n.into()));
        f.insert("ty".to_string(), t);
        f.insert("tag".to_string(), Val::none());
        f.insert("constraints".to_string(), Val::List(vec![]));
        Val::Ctor("ChoiceOption".into(), vec![], f)
    };
    let choice = {
        let mut c = Map::new();
        let tagged = match option("t", ty("Integer")) { Val::Ctor(n, p, mut f) => { f.insert("tag".to_string(), Val::some(Val::Sym("TAG-5".into()))); Val::Ctor(n, p, f) } o => o };
        c.insert("options".to_string(), Val::List(vec![option("a", ty("Integer")), option("b", ty("Boolean")), tagged]));
        // `b` is an extension addition: X.680 clause 30 selects among *all* alternatives (only COMPONENTS OF stops at the marker)
        c.insert("extensible".to_string(), Val::some(Val::int(1)));
        c.insert("constraints".to_string(), Val::List(vec![]));
        Val::Ctor("Choice".into(), vec![Val::Ctor("Choice".into(), vec![], c)], Map::new())
    };
    let parent = {
        let mut t = Map::new();
        t.insert("name".to_string(), Val::Str("C".into()));
        t.insert("ty".to_string(), choice.clone());
        Val::Ctor("Type".into(), vec![Val::Ctor("ToplevelTypeDefinition".into(), vec![], t)], Map::new())
    };
    let hook = move |_: &Evaluator, name: &str, a: &[Val]| -> Option<Result<Val, String>> {
        match (name, a.first()) {
            (".get", Some(Val::Opaque(s))) if s == "tlds" => match a.get(1) {
                Some(Val::Str(k)) if k == "C" => Some(Ok(Val::some(parent.clone()))),
                Some(Val::Str(_)) => Some(Ok(Val::none())),
                _ => Some(Err("tlds.get with a key that is not a name".into())),
            },
            ("grammar_error!", _) => Some(Ok(Val::Sym("error".into()))),
            _ => None,
        }
    };
    let ev = Evaluator { consts: &consts, call_hook: &hook, inline: None };
    let tl = f.sig.inputs.iter().filter_map(|a| match a { syn::FnArg::Typed(t) => Some(tok(&t.pat)), _ => None }).next().unwrap_or("tlds".into());
    for (sel, want) in [("a", Some("Integer")), ("b", Some("Boolean")), ("zz", None)] {
        ctx.oblige(rule, &format!("{} < C", sel), true);
        let mut c = Map::new();
        c.insert("choice_name".to_string(), Val::Str("C".into()));
        c.insert("selected_option".to_string(), Val::Str(sel.into()));
        let me = Val::Ctor("ChoiceSelectionType".into(), vec![Val::Ctor("ChoiceSelectionType".into(), vec![], c)], Map::new());
        let mut env = Env::new();
        env.insert("self".into(), me);
        env.insert(tl.clone(), Val::Opaque("tlds".into()));
        let r = ev.eval_fn_body(&f.block, &mut env);
        let after = env.get("self").cloned();
        match (r, want) {
            (Ok(Val::Ctor(ok, _, _)), Some(w)) if ok == "Ok" => {
                let got = match &after { Some(Val::Ctor(k, _, _)) => k.clone(), o => format!("{:?}", o.as_ref().map(|x| x.show())) };
                if got != w {
                    ctx.violate(rule, "selected-alternative", &f.file, f.line,
                        &format!("`{} < C` with C ::= CHOICE {{ a INTEGER, ..., b BOOLEAN }} is rewritten to a {} type; a selection type denotes the type of the selected alternative ({}), before or after the extension marker", sel, got, w));
                }
            }
            (Ok(Val::Ctor(ok, _, _)), None) if ok == "Ok" => {
                ctx.violate(rule, "missing-alternative-accepted", &f.file, f.line,
                    &format!("`{} < C` names no alternative of C and is accepted (rewritten to {:?})", sel, after.map(|x| x.show())));
            }
            (Ok(Val::Ctor(e, _, _)), None) if e == "Err" => {}
            (Ok(o), _) => ctx.violate(rule, "selected-alternative", &f.file, f.line, &format!("`{} < C` with C ::= CHOICE {{ a INTEGER, ..., b BOOLEAN }}: link_choice_selection_type returns {} — every alternative, before or after the extension marker, can be selected", sel, o.show())),
            (Err(e), _) => ctx.fail_closed(rule, &format!("[{} < C]: {}", sel, e)),
        }
    }
    // the selected alternative's tag belongs to the type the selection denotes (`t [5] INTEGER` selected is `[5] INTEGER`)
    {
        ctx.oblige(rule, "t < C (tagged alternative)", true);
        let mut c = Map::new();
        c.insert("choice_name".to_string(), Val::Str("C".into()));
        c.insert("selected_option".to_string(), Val::Str("t".into()));
        let me = Val::Ctor("ChoiceSelectionType".into(), vec![Val::Ctor("ChoiceSelectionType".into(), vec![], c)], Map::new());
        let mut env = Env::new();
        env.insert("self".into(), me);
        env.insert(tl.clone(), Val::Opaque("tlds".into()));
        match ev.eval_fn_body(&f.block, &mut env) {
            Ok(r) => {
                let kept = env.values().any(|v| v.show().contains("TAG-5")) || r.show().contains("TAG-5");
                if !kept {
                    ctx.violate(rule, "selected-alternative:tag-lost", &f.file, f.line, "`t < C` with C ::= CHOICE { .., t [5] INTEGER }: after linking, the tag of the selected alternative is nowhere — neither in the rewritten type nor in anything the function hands back; the selection type denotes `[5] INTEGER`, the bindings declare an untagged INTEGER");
                }
            }
            Err(e) => ctx.fail_closed(rule, &format!("[t < C]: {}", e)),
        }
    }
}

/// C09.detect: the linker visits a definition only when its detector says there is something to do ("at any depth, any
/// number"). Each detector — has_choice_selection_type, contains_components_of_notation, contains_constraint_reference,
/// references_class_by_name — is evaluated (recursion inlined) on small types: a leaf that is the thing looked for, a leaf that
/// is not, and each container kind holding two children of which only the *second* is positive (so that `any` is not `all`,
/// `||` is not `&&`, and the first child alone does not decide), one and two levels deep.
pub fn detectors(m: &Model, ctx: &mut Ctx, rule: &str) {
    use crate::eval::{Env, Evaluator, Val};
    use std::collections::BTreeMap as Map;
    let consts = const_resolver(m);
    let named = |n: &str, fields: Vec<(&str, Val)>| Val::Ctor(n.to_string(), vec![], fields.into_iter().map(|(k, v)| (k.to_string(), v)).collect::<Map<_, _>>());
    let wrap = |variant: &str, payload: Val| Val::Ctor(variant.to_string(), vec![payload], Map::new());
    // constraints are markers: "ref" has a cross reference, "plain" has none
    let cons = |marks: &[&str]| Val::List(marks.iter().map(|m| Val::Sym(m.to_string())).collect());
    let hook = |_: &Evaluator, name: &str, a: &[Val]| -> Option<Result<Val, String>> {
        match (name, a.first()) {
            (".has_cross_reference", Some(Val::Sym(s))) => Some(Ok(Val::Bool(s == "ref"))),
            (".is_elsewhere_declared", Some(_)) => Some(Ok(Val::Bool(false))),
            (".default", Some(_)) => Some(Ok(Val::none())),
            _ => None,
        }
    };
    let inl = inline_all(m, &["ASN1Type"]);
    let ev = Evaluator { consts: &consts, call_hook: &hook, inline: Some(&inl) };
    let member = |ty: Val, c: &[&str]| named("SequenceOrSetMember", vec![("name", Val::Str("m".into())), ("ty", ty), ("constraints", cons(c)), ("optionality", Val::ctor("Required")), ("tag", Val::none())]);
    let option = |ty: Val, c: &[&str]| named("ChoiceOption", vec![("name", Val::Str("o".into())), ("ty", ty), ("constraints", cons(c)), ("tag", Val::none())]);
    let seq = |variant: &str, members: Vec<Val>, comps: &[&str], c: &[&str]| wrap(variant, named("SequenceOrSet", vec![("members", Val::List(members)), ("components_of", Val::List(comps.iter().map(|x| Val::Str(x.to_string())).collect())), ("constraints", cons(c)), ("extensible", Val::none())]));
    let choice = |options: Vec<Val>, c: &[&str]| wrap("Choice", named("Choice", vec![("options", Val::List(options)), ("constraints", cons(c)), ("extensible", Val::none())]));
    let list = |variant: &str, el: Val, c: &[&str]| wrap(variant, named("SequenceOrSetOf", vec![("element_type", el), ("constraints", cons(c)), ("element_tag", Val::none()), ("is_recursive", Val::Bool(false))]));
    let neg = || wrap("Boolean", named("Boolean", vec![("constraints", cons(&["plain"]))]));
    struct Det { name: &'static str, pos: Val, what: &'static str }
    let dets = vec![
        Det { name: "has_choice_selection_type", pos: wrap("ChoiceSelectionType", named("ChoiceSelectionType", vec![("choice_name", Val::Str("C".into())), ("selected_option", Val::Str("a".into()))])), what: "a selection type" },
        Det { name: "contains_components_of_notation", pos: seq("Sequence", vec![member(neg(), &[])], &["Other"], &[]), what: "a COMPONENTS OF notation" },
        Det { name: "contains_constraint_reference", pos: wrap("Integer", named("Integer", vec![("constraints", cons(&["plain", "ref"])), ("distinguished_values", Val::none())])), what: "a constraint with a reference (the second of two constraints)" },
        Det { name: "references_class_by_name", pos: wrap("ObjectClassField", named("ObjectClassFieldType", vec![("class", Val::Str("CLS".into())), ("field_path", Val::List(vec![Val::Ctor("SingleValue".into(), vec![Val::Str("&id".into())], Map::new())])), ("constraints", cons(&[]))])), what: "a fixed-type class field" },
    ];
    let mut n = 0;
    for d in dets {
        let Some(f) = m.fns.iter().find(|f| f.name == d.name && f.self_ty.as_deref() == Some("ASN1Type")) else {
            ctx.fail_closed(rule, &format!("anchor not found: ASN1Type::{}", d.name));
            continue;
        };
        ctx.func(&f.key);
        let p = d.pos.clone();
        let shapes: Vec<(String, Val, bool)> = vec![
            ("the thing itself".into(), p.clone(), true),
            ("BOOLEAN".into(), neg(), false),
            ("SEQUENCE { BOOLEAN, X }".into(), seq("Sequence", vec![member(neg(), &[]), member(p.clone(), &[])], &[], &[]), true),
            ("SET { BOOLEAN, X }".into(), seq("Set", vec![member(neg(), &[]), member(p.clone(), &[])], &[], &[]), true),
            ("SEQUENCE { BOOLEAN, BOOLEAN }".into(), seq("Sequence", vec![member(neg(), &[]), member(neg(), &[])], &[], &[]), false),
            ("CHOICE { BOOLEAN, X }".into(), choice(vec![option(neg(), &[]), option(p.clone(), &[])], &[]), true),
            ("CHOICE { BOOLEAN, BOOLEAN }".into(), choice(vec![option(neg(), &[]), option(neg(), &[])], &[]), false),
            ("SEQUENCE OF X".into(), list("SequenceOf", p.clone(), &[]), true),
            ("SET OF X".into(), list("SetOf", p.clone(), &[]), true),
            ("SEQUENCE OF BOOLEAN".into(), list("SequenceOf", neg(), &[]), false),
            ("SEQUENCE { BOOLEAN, CHOICE { BOOLEAN, SET OF X } }".into(), seq("Sequence", vec![member(neg(), &[]), member(choice(vec![option(neg(), &[]), option(list("SetOf", p.clone(), &[]), &[])], &[]), &[])], &[], &[]), true),
        ];
        for (desc, v, want) in shapes {
            n += 1;
            ctx.oblige(rule, &format!("{}:{}", d.name, desc), true);
            let mut env = Env::new();
            env.insert("self".into(), v);
            match ev.eval_fn_body(&f.block, &mut env) {
                Ok(Val::Bool(b)) => {
                    if b != want {
                        ctx.violate(rule, &format!("{}:{}", d.name, if want { "missed" } else { "false-positive" }), &f.file, f.line,
                            &format!("ASN1Type::{} says {} for `{}` where X is {}: {}", d.name, b, desc, d.what, if want { "the linker then never visits the definition and the notation reaches the generator unexpanded / unresolved" } else { "a definition without it is treated as if it had one" }));
                        break;
                    }
                }
                Ok(o) => { ctx.fail_closed(rule, &format!("[{} on {}]: {}", d.name, desc, o.show())); break }
                Err(e) => { ctx.fail_closed(rule, &format!("[{} on {}]: {}", d.name, desc, e)); break }
            }
        }
    }
    // constraint references on the component / alternative itself and on the container
    if let Some(f) = m.fns.iter().find(|f| f.name == "contains_constraint_reference" && f.self_ty.as_deref() == Some("ASN1Type")) {
        let shapes: Vec<(&str, Val, bool)> = vec![
            ("SEQUENCE { BOOLEAN, BOOLEAN (ref) } — constraint on the second component", seq("Sequence", vec![member(neg(), &["plain"]), member(neg(), &["plain", "ref"])], &[], &[]), true),
            ("CHOICE { BOOLEAN, BOOLEAN (ref) }", choice(vec![option(neg(), &["plain"]), option(neg(), &["plain", "ref"])], &[]), true),
            ("SEQUENCE (plain)(ref) { BOOLEAN }", seq("Sequence", vec![member(neg(), &[])], &[], &["plain", "ref"]), true),
            ("SEQUENCE (SIZE..) (ref) OF BOOLEAN", list("SequenceOf", neg(), &["plain", "ref"]), true),
            ("SEQUENCE (plain) { BOOLEAN (plain) }", seq("Sequence", vec![member(neg(), &["plain"])], &[], &["plain"]), false),
        ];
        let mut shapes: Vec<(String, Val, bool)> = shapes.into_iter().map(|(d, v, w)| (d.to_string(), v, w)).collect();
        for variant in ["Boolean", "ObjectIdentifier", "Integer", "BitString", "OctetString", "CharacterString", "Enumerated", "ElsewhereDeclaredType"] {
            for (marks, want) in [(vec!["plain", "ref"], true), (vec!["plain", "plain"], false)] {
                shapes.push((format!("{} with constraints {:?}", variant, marks), wrap(variant, named(variant, vec![("constraints", cons(&marks)), ("distinguished_values", Val::none()), ("identifier", Val::Str("T".into()))])), want));
            }
        }
        for (desc, v, want) in shapes {
            let desc = desc.as_str();
            n += 1;
            ctx.oblige(rule, &format!("contains_constraint_reference:{}", desc), true);
            let mut env = Env::new();
            env.insert("self".into(), v);
            match ev.eval_fn_body(&f.block, &mut env) {
                Ok(Val::Bool(b)) if b == want => {}
                Ok(Val::Bool(b)) => { ctx.violate(rule, &format!("contains_constraint_reference:{}", if want { "missed" } else { "false-positive" }), &f.file, f.line, &format!("ASN1Type::contains_constraint_reference says {} for `{}`", b, desc)); break }
                Ok(o) => { ctx.fail_closed(rule, &format!("[contains_constraint_reference on {}]: {}", desc, o.show())); break }
                Err(e) => { ctx.fail_closed(rule, &format!("[contains_constraint_reference on {}]: {}", desc, e)); break }
            }
        }
    }
    // the same question one level down: Constraint / SubtypeElements / ElementOrSetOperation::has_cross_reference, dispatched by
    // the receiver's variant (three methods of one name) and evaluated on small constraint trees
    {
        let impls: Vec<(&str, Vec<String>, Option<&crate::model::FnInfo>)> = ["Constraint", "SubtypeElements", "ElementOrSetOperation"].iter().map(|t| {
            (*t, m.find_enum(t).map(|e| e.variants.clone()).unwrap_or_default(), m.fns.iter().find(|f| f.name == "has_cross_reference" && f.self_ty.as_deref() == Some(*t)))
        }).collect();
        if impls.iter().any(|(_, v, f)| v.is_empty() || f.is_none()) {
            ctx.fail_closed(rule, "anchor not found: has_cross_reference of Constraint / SubtypeElements / ElementOrSetOperation");
        } else {
            let impls2: Vec<(Vec<String>, syn::Block)> = impls.iter().map(|(_, v, f)| (v.clone(), f.unwrap().block.clone())).collect();
            let hook3 = move |ev: &Evaluator, name: &str, a: &[Val]| -> Option<Result<Val, String>> {
                match (name, a.first()) {
                    (".has_cross_reference", Some(Val::Ctor(cn, _, _))) => {
                        let (_, block) = impls2.iter().find(|(vs, _)| vs.contains(cn))?;
                        let mut env = Env::new();
                        env.insert("self".into(), a[0].clone());
                        Some(ev.eval_fn_body(block, &mut env))
                    }
                    // a value is a reference when it is written as an identifier
                    (".is_elsewhere_declared", Some(Val::Ctor(cn, _, _))) => Some(Ok(Val::Bool(cn == "ElsewhereDeclaredValue"))),
                    (".contains_constraint_reference", Some(_)) | (".references_class_by_name", Some(_)) => Some(Ok(Val::Bool(false))),
                    _ => None,
                }
            };
            let ev3 = Evaluator { consts: &consts, call_hook: &hook3, inline: None };
            let refv = || Val::Ctor("ElsewhereDeclaredValue".into(), vec![], [("identifier".to_string(), Val::Str("max".into()))].into_iter().collect());
            let lit = || Val::Ctor("Integer".into(), vec![Val::int(5)], Map::new());
            let single = |v: Val| named("SingleValue", vec![("value", v), ("extensible", Val::Bool(false))]);
            let range = |a: Option<Val>, b: Option<Val>| named("ValueRange", vec![("min", a.map(Val::some).unwrap_or(Val::none())), ("max", b.map(Val::some).unwrap_or(Val::none())), ("extensible", Val::Bool(false))]);
            let element = |e: Val| Val::Ctor("Element".into(), vec![e], Map::new());
            let setop = |base: Val, operant: Val| Val::Ctor("SetOperation".into(), vec![named("SetOperation", vec![("base", base), ("operator", Val::ctor("Union")), ("operant", operant)])], Map::new());
            let subtype = |set: Val| Val::Ctor("Subtype".into(), vec![named("ElementSetSpecs", vec![("set", set), ("extensible", Val::Bool(false))])], Map::new());
            let size = |inner: Val| Val::Ctor("SizeConstraint".into(), vec![inner], Map::new());
            let from = |inner: Val| Val::Ctor("PermittedAlphabet".into(), vec![inner], Map::new());
            let single_type = |cs: Vec<Val>| Val::Ctor("SingleTypeConstraint".into(), vec![Val::List(cs)], Map::new());
            let multi = |groups: Vec<Vec<Val>>| Val::Ctor("MultipleTypeConstraints".into(), vec![named("InnerTypeConstraint", vec![("constraints", Val::List(groups.into_iter().map(|g| named("NamedConstraint", vec![("constraints", Val::List(g))])).collect()))])], Map::new());
            let cases: Vec<(&str, Val, bool)> = vec![
                ("(5)", subtype(element(single(lit()))), false),
                ("(max)", subtype(element(single(refv()))), true),
                ("(0..5)", subtype(element(range(Some(lit()), Some(lit())))), false),
                ("(0..max)", subtype(element(range(Some(lit()), Some(refv())))), true),
                ("(min..5)", subtype(element(range(Some(refv()), Some(lit())))), true),
                ("(5 | max)", subtype(setop(single(lit()), element(single(refv())))), true),
                ("(max | 5)", subtype(setop(single(refv()), element(single(lit())))), true),
                ("(5 | 6)", subtype(setop(single(lit()), element(single(lit())))), false),
                ("(SIZE (0..max))", subtype(element(size(element(range(Some(lit()), Some(refv())))))), true),
                ("(SIZE (0..5))", subtype(element(size(element(range(Some(lit()), Some(lit())))))), false),
                ("(FROM (\"a\" | ref))", subtype(element(from(setop(single(lit()), element(single(refv())))))), true),
                ("(WITH COMPONENT ((5)(max)))", subtype(element(single_type(vec![subtype(element(single(lit()))), subtype(element(single(refv())))]))), true),
                ("(WITH COMPONENT ((5)(6)))", subtype(element(single_type(vec![subtype(element(single(lit()))), subtype(element(single(lit())))]))), false),
                ("(WITH COMPONENTS { a (5), b (6)(max) })", subtype(element(multi(vec![vec![subtype(element(single(lit())))], vec![subtype(element(single(lit()))), subtype(element(single(refv())))]]))), true),
                ("(WITH COMPONENTS { a (5), b (6) })", subtype(element(multi(vec![vec![subtype(element(single(lit())))], vec![subtype(element(single(lit())))]]))), false),
                ("a parameter", Val::Ctor("Parameter".into(), vec![Val::Opaque("p".into())], Map::new()), true),
            ];
            for (desc, c, want) in cases {
                n += 1;
                ctx.oblige(rule, &format!("has_cross_reference:{}", desc), true);
                let mut env = Env::new();
                env.insert("self".into(), c);
                match ev3.eval_fn_body(&impls[0].2.unwrap().block, &mut env) {
                    Ok(Val::Bool(b)) if b == want => {}
                    Ok(Val::Bool(b)) => { ctx.violate(rule, &format!("has_cross_reference:{}", if want { "missed" } else { "false-positive" }), &impls[0].2.unwrap().file, impls[0].2.unwrap().line, &format!("has_cross_reference says {} for the constraint {}: {}", b, desc, if want { "the reference in it is never resolved (the definition is not visited by the linker)" } else { "no reference is in it" })); break }
                    Ok(o) => { ctx.fail_closed(rule, &format!("[has_cross_reference on {}]: {}", desc, o.show())); break }
                    Err(e) => { ctx.fail_closed(rule, &format!("[has_cross_reference on {}]: {}", desc, e)); break }
                }
            }
        }
    }
    // a type is a parameterized template when it has a parameter list — or a component constrained by a parameter
    if let Some(f) = m.fns.iter().find(|f| f.name == "is_parameterized" && f.self_ty.as_deref() == Some("ToplevelDefinition")) {
        ctx.func(&f.key);
        let pc = |param: bool| Val::List(vec![Val::Ctor("Subtype".into(), vec![Val::Opaque("s".into())], Map::new()), if param { Val::Ctor("Parameter".into(), vec![Val::Opaque("p".into())], Map::new()) } else { Val::Ctor("Subtype".into(), vec![Val::Opaque("t".into())], Map::new()) }]);
        let mem = |param: bool| named("SequenceOrSetMember", vec![("name", Val::Str("m".into())), ("ty", neg()), ("constraints", pc(param))]);
        let tld = |ty: Val, par: bool| Val::Ctor("Type".into(), vec![named("ToplevelTypeDefinition", vec![("name", Val::Str("T".into())), ("ty", ty), ("parameterization", if par { Val::some(Val::Opaque("params".into())) } else { Val::none() })])], Map::new());
        let sq = |variant: &str, a: bool, b: bool| wrap(variant, named("SequenceOrSet", vec![("members", Val::List(vec![mem(a), mem(b)])), ("components_of", Val::List(vec![])), ("constraints", Val::List(vec![])), ("extensible", Val::none())]));
        let hook2 = |_: &Evaluator, name: &str, a: &[Val]| -> Option<Result<Val, String>> {
            match (name, a.first()) {
                (".constraints", Some(Val::Ctor(_, p, _))) => match p.first() { Some(Val::Ctor(_, _, f)) => Some(Ok(f.get("constraints").cloned().unwrap_or(Val::List(vec![])))), _ => None },
                _ => None,
            }
        };
        let ev2 = Evaluator { consts: &consts, call_hook: &hook2, inline: Some(&inl) };
        for (desc, v, want) in [
            ("T {P} ::= BOOLEAN", tld(neg(), true), true),
            ("T ::= BOOLEAN", tld(neg(), false), false),
            ("T ::= SEQUENCE { a BOOLEAN (plain), b BOOLEAN (parameter) }", tld(sq("Sequence", false, true), false), true),
            ("T ::= SET { a BOOLEAN (plain), b BOOLEAN (parameter) }", tld(sq("Set", false, true), false), true),
            ("T ::= SEQUENCE { a BOOLEAN (plain), b BOOLEAN (plain) }", tld(sq("Sequence", false, false), false), false),
        ] {
            n += 1;
            ctx.oblige(rule, &format!("is_parameterized:{}", desc), true);
            let mut env = Env::new();
            env.insert("self".into(), v);
            match ev2.eval_fn_body(&f.block, &mut env) {
                Ok(Val::Bool(b)) if b == want => {}
                Ok(Val::Bool(b)) => { ctx.violate(rule, &format!("is_parameterized:{}", if want { "missed" } else { "false-positive" }), &f.file, f.line, &format!("ToplevelDefinition::is_parameterized says {} for `{}`", b, desc)); break }
                Ok(o) => { ctx.fail_closed(rule, &format!("[is_parameterized on {}]: {}", desc, o.show())); break }
                Err(e) => { ctx.fail_closed(rule, &format!("[is_parameterized on {}]: {}", desc, e)); break }
            }
        }
    }
    ctx.floor(&format!("{}/evaluations", rule), n, 20);
}

/// C09.shortcircuit: "at any depth, any number": a linking step applied to the components of a type through
/// `iter_mut().any(..)` / `.all(..)` stops at the first component for which the step reports success — the
/// remaining components are never linked. No short-circuiting adaptor may consume an `iter_mut()` in the linker.
pub fn short_circuit(m: &Model, ctx: &mut Ctx, rule: &str) {
    let mut n = 0;
    for f in m.fns.iter().filter(|f| f.krate == "rasn-compiler" && (f.module.starts_with("validator") || f.module.starts_with("intermediate")) && !f.module.contains("tests")) {
        for mc in model::method_calls_in(&f.block) {
            let name = mc.method.to_string();
            if !["any", "all"].contains(&name.as_str()) {
                continue;
            }
            // receiver chain contains iter_mut()
            let mut r: &syn::Expr = &mc.receiver;
            let mut over_mut = false;
            loop {
                match r {
                    syn::Expr::MethodCall(inner) => {
                        if inner.method == "iter_mut" || inner.method == "values_mut" {
                            over_mut = true;
                        }
                        r = &inner.receiver;
                    }
                    _ => break,
                }
            }
            if !over_mut {
                continue;
            }
            n += 1;
            ctx.violate(rule, &format!("short-circuit-over-iter_mut:{}", f.name), &f.file, model::line_of(syn::spanned::Spanned::span(&mc)),
                &format!("{} applies `.{}(..)` to an `iter_mut()`: the closure changes the elements it is shown, and `.{}` stops at the first element that answers — the elements behind it are never linked (`a SEQUENCE {{ COMPONENTS OF B }}, b SEQUENCE {{ COMPONENTS OF B }}`: b keeps its unexpanded notation)", f.name, name, name));
        }
    }
    ctx.oblige(rule, "no-short-circuit-over-iter_mut", true);
    let _ = n;
}

pub fn run(m: &Model, ctx: &mut Ctx) {
    ctx.explanation = "C09.sym: each detector/rewriter pair of the linker (contains_components_of_notation / link_components_of_notation, has_choice_selection_type / link_choice_selection_type, \
contains_constraint_reference / link_constraint_reference, references_class_by_name / resolve_class_reference) must traverse the same container variants of ASN1Type: a container the detector enters but the rewriter does not (or vice versa) leaves a notation unexpanded at that position. \
C09.splice: COMPONENTS OF members are spliced at the position of the notation (not appended), only root components of the referenced type are taken, and the referenced type may be a SEQUENCE or a SET. \
C09.order: in Validator::link every importing step (class-field types, COMPONENTS OF, selection types, object-set references) precedes the resolving steps (constraint references, collect_supertypes, mark_recursive) of the same key. C09.scope: named numbers in a constraint are looked up under the governing type. C09.noskip: linker errors are not discarded (shared with C10.discard). \
C09.order:phase: values are linked in a later pass over the definitions than the one that resolves constraint references (within one pass the outcome depends on how the names sort). Not applicable: the equivalence sugared = expanded itself, independence from the order of names beyond the pass structure, parameter substitution and selection types beyond the traversal symmetry.".into();
    ctx.assumptions = vec!["the IR container variants are Sequence, Set, SequenceOf, SetOf, Choice".into()];
    ctx.rule("sibling agreement of detector/rewriter traversals; insertion-position rule for COMPONENTS OF");
    let en: Vec<String> = m.find_enum("ASN1Type").map(|e| e.variants.clone()).unwrap_or_default();
    let containers = ["Sequence", "Set", "SequenceOf", "SetOf", "Choice"];
    let pairs = [
        ("contains_components_of_notation", "link_components_of_notation"),
        ("has_choice_selection_type", "link_choice_selection_type"),
        ("contains_constraint_reference", "link_constraint_reference"),
        ("references_class_by_name", "resolve_class_reference"),
    ];
    for (d, r) in pairs {
        let df = m.fns.iter().find(|f| f.name == d && f.self_ty.as_deref() == Some("ASN1Type"));
        let rf = m.fns.iter().find(|f| f.name == r && f.self_ty.as_deref() == Some("ASN1Type"));
        let (Some(df), Some(rf)) = (df, rf) else {
            ctx.fail_closed("C09.sym", &format!("anchor not found: {} / {}", d, r));
            continue;
        };
        let (df, rf) = (through_wrapper(m, df), through_wrapper(m, rf));
        ctx.func(&df.key);
        ctx.func(&rf.key);
        let dv = variants_named(df, &en);
        let rv = variants_named(rf, &en);
        for c in containers {
            ctx.oblige("C09.sym", &format!("{}/{}:{}", d, r, c), true);
            let (ind, inr) = (dv.contains(c), rv.contains(c));
            if ind != inr {
                let (has, lacks) = if ind { (d, r) } else { (r, d) };
                let f = if ind { rf } else { df };
                ctx.violate("C09.sym", &format!("{}/{}:{}", d, r, c), &f.file, f.line,
                    &format!("`{}` descends into ASN1Type::{} but its counterpart `{}` does not: the notation is {} inside a {} and then not {}", has, c, lacks, if ind { "detected" } else { "rewritten" }, c, if ind { "expanded" } else { "looked for" }));
            }
        }
        ctx.sample(json!({"pair": [d, r], "detector_variants": dv, "rewriter_variants": rv}));
    }

    scope(m, ctx, "C09.scope");
    // every endpoint of a range that is a reference is handed to the linker (open-ended ranges included): decided under C04.refs
    borrow(ctx, "C04", "C04.refs", "C09.refs", &mut |sub| crate::rules::c04::run(m, sub));
    traverse(m, ctx, "C09.traverse");
    template_expansion(m, ctx, "C09.params");
    value_chain(m, ctx, "C09.scope");
    detectors(m, ctx, "C09.detect");
    short_circuit(m, ctx, "C09.shortcircuit");
    select(m, ctx, "C09.select");
    // a class-field reference is replaced by the field's type and nothing else changes (= C02.rebuild)
    crate::rules::c02::rebuild(m, ctx, "C09.rebuild");
    order(m, ctx, "C09.order");
    // a DEFAULT copied into a SEQUENCE value is linked whether or not its type was linked before (= C07.struct)
    crate::rules::c07::implicit_defaults(m, ctx, "C09.order", false);
    params(m, ctx);
    constraint_pairs(m, ctx, "C09.sym");

    // ---------------- splice ----------------
    // The SEQUENCE / SET arm of link_components_of_notation is evaluated on a referencing type { own, COMPONENTS OF R }
    // and a referenced type R { r1, r2, ..., e1 } (SEQUENCE and SET): which members arrive, in which order, and what
    // happens to the referencing type's own extension index.
    if let Some(f) = m.fns.iter().find(|f| f.name == "link_components_of_notation" && f.self_ty.as_deref() == Some("ASN1Type")).map(|f| through_wrapper(m, f)) {
        use crate::eval::{Env, Evaluator, Val};
        use std::collections::BTreeMap;
        ctx.func(&f.key);
        let consts = const_resolver(m);
        let member = |n: &str| {
            let mut fm = BTreeMap::new();
            fm.insert("name".to_string(), Val::Str(n.into()));
            fm.insert("ty".to_string(), Val::Ctor("Boolean".into(), vec![Val::Opaque("b".into())], BTreeMap::new()));
            Val::Ctor("SequenceOrSetMember".into(), vec![], fm)
        };
        let seq = |members: &[&str], ext: Option<usize>, comps: &[&str]| {
            let mut fm = BTreeMap::new();
            fm.insert("members".to_string(), Val::List(members.iter().map(|n| member(n)).collect()));
            fm.insert("extensible".to_string(), ext.map(|e| Val::some(Val::int(e as i128))).unwrap_or(Val::none()));
            fm.insert("components_of".to_string(), Val::List(comps.iter().map(|c| Val::Str(c.to_string())).collect()));
            fm.insert("constraints".to_string(), Val::List(vec![]));
            Val::Ctor("SequenceOrSet".into(), vec![], fm)
        };
        let top = model::matches_in(&f.block).into_iter().find(|mt| tok(&mt.expr) == "self");
        let params: Vec<String> = f.sig.inputs.iter().filter_map(|a| match a { syn::FnArg::Typed(t) => Some(tok(&t.pat)), _ => None }).collect();
        match top {
            None => ctx.fail_closed("C09.splice", "link_components_of_notation has no `match self`"),
            Some(mt) => {
                for (ref_kind, own_ext, pending) in [("Sequence", None, false), ("Set", None, false), ("Sequence", Some(1usize), false), ("Set", Some(1usize), false), ("Sequence", None, true)] {
                    let key = format!("referenced {} own-marker={:?}{}", ref_kind, own_ext, if pending { " referenced type has a pending COMPONENTS OF" } else { "" });
                    ctx.oblige("C09.splice", &key, true);
                    let rk = ref_kind.to_string();
                    let referenced = seq(&["r1", "r2", "e1"], Some(2), if pending { &["Q"] } else { &[] });
                    let expanded_referenced = std::rc::Rc::new(std::cell::Cell::new(false));
                    let er = expanded_referenced.clone();
                    let is_referenced = |v: Option<&Val>| -> bool { v.map(|x| x.show().contains("r1")).unwrap_or(false) };
                    let hook = move |_: &Evaluator, name: &str, a: &[Val]| -> Option<Result<Val, String>> {
                        match name {
                            n if n.starts_with(".link_components_of_notation") && is_referenced(a.first()) => {
                                er.set(true);
                                Some(Ok(Val::Bool(true)))
                            }
                            ".contains_components_of_notation" if is_referenced(a.first()) => Some(Ok(Val::Bool(pending))),
                            ".get" if matches!(a.first(), Some(Val::Opaque(s)) if s == "tlds") => {
                                let mut t = BTreeMap::new();
                                t.insert("ty".to_string(), Val::Ctor(rk.clone(), vec![referenced.clone()], BTreeMap::new()));
                                t.insert("name".to_string(), Val::Str("R".into()));
                                Some(Ok(Val::some(Val::Ctor("Type".into(), vec![Val::Ctor("ToplevelTypeDefinition".into(), vec![], t)], BTreeMap::new()))))
                            }
                            // recursion into member types / into the referenced type: nothing pending there
                            n if n.starts_with(".link_components_of_notation") => Some(Ok(Val::Bool(false))),
                            ".contains_components_of_notation" => Some(Ok(Val::Bool(false))),
                            ".clone" | ".to_owned" if a.len() == 1 => Some(Ok(a[0].clone())),
                            _ => None,
                        }
                    };
                    let ev = Evaluator { consts: &consts, call_hook: &hook, inline: None };
                    let own = seq(&["own1"], own_ext, &["R"]);
                    let selfv = Val::Ctor("Sequence".into(), vec![own], BTreeMap::new());
                    let mut env0 = Env::new();
                    env0.insert(params.first().cloned().unwrap_or("tlds".into()), Val::Opaque("tlds".into()));
                    // further parameters (a visited list of the wrapper's worker) start empty
                    for p in params.iter().skip(1) {
                        env0.insert(p.clone(), Val::List(vec![]));
                    }
                    let r = ev.select_arm(&mt, &selfv, &env0).and_then(|(i, mut e2)| {
                        let bound: Vec<String> = {
                            let mut ids = vec![];
                            model::collect_idents(&quote::ToTokens::to_token_stream(&mt.arms[i].pat), &mut ids);
                            ids.into_iter().filter(|x| x.chars().next().map(|c| c.is_lowercase()).unwrap_or(false)).collect()
                        };
                        ev.eval(&mt.arms[i].body, &mut e2)?;
                        bound.iter().filter_map(|b| e2.get(b).cloned()).next().ok_or_else(|| "the arm binds no payload".to_string())
                    });
                    if pending {
                        // the order in which types are linked is the order of their names: a referenced type can still carry its
                        // own notation, which must be expanded before its members are copied (else its inherited components are lost)
                        match &r {
                            Ok(_) if !expanded_referenced.get() => ctx.violate("C09.splice", "pending-notation-of-referenced-type", &f.file, f.line,
                                "COMPONENTS OF R where R itself still carries an unexpanded COMPONENTS OF Q (R sorts after the referencing type): R's members are copied as they stand and Q's components are silently missing — `Outer ::= SEQUENCE { COMPONENTS OF Middle, x INTEGER }  Middle ::= SEQUENCE { COMPONENTS OF Inner, y BOOLEAN }  Inner ::= SEQUENCE { z NULL }` loses z in Outer"),
                            Ok(_) => {}
                            Err(e) => ctx.fail_closed("C09.splice", &format!("[{}]: {}", key, e)),
                        }
                        continue;
                    }
                    match r {
                        Ok(Val::Ctor(_, _, fm)) => {
                            let names: Vec<String> = match fm.get("members") {
                                Some(Val::List(l)) => l.iter().map(|v| match v { Val::Ctor(_, _, f2) => match f2.get("name") { Some(Val::Str(n)) => n.clone(), _ => "?".into() }, _ => "?".into() }).collect(),
                                _ => vec![],
                            };
                            let ext = match fm.get("extensible") {
                                Some(Val::Ctor(sn, p, _)) if sn == "Some" => match p.first() { Some(Val::Int { v, .. }) => Some(*v as usize), _ => None },
                                _ => None,
                            };
                            if !names.contains(&"r1".to_string()) || !names.contains(&"r2".to_string()) {
                                ctx.violate("C09.splice", if ref_kind == "Set" { "referenced-set" } else { "root-components-copied" }, &f.file, f.line,
                                    &format!("COMPONENTS OF a {} {{ r1, r2, ..., e1 }}: the referencing type ends up with {:?}; both root components must be inherited{}", ref_kind.to_uppercase(), names, if ref_kind == "Set" { " (a referenced SET is as valid as a SEQUENCE)" } else { "" }));
                                continue;
                            }
                            if names.contains(&"e1".to_string()) {
                                ctx.violate("C09.splice", "root-only", &f.file, f.line, &format!("COMPONENTS OF takes only the root components of the referenced type (X.680 25.5): got {:?}, e1 is an extension addition of the referenced type", names));
                            }
                            let pos = |n: &str| names.iter().position(|x| x == n);
                            if pos("r1") > pos("r2") || names.iter().filter(|x| *x == "r1").count() != 1 {
                                ctx.violate("C09.splice", "inherited-order", &f.file, f.line, &format!("inherited components must arrive once each and in the order of the referenced type: {:?}", names));
                            }
                            // own1 stands *after* the notation in the modelled type { COMPONENTS OF R, own1 }: hand-expanded order is r1, r2, own1
                            if pos("own1") < pos("r1") {
                                ctx.violate("C09.splice", "appended-at-end", &f.file, f.line,
                                    "COMPONENTS OF members are appended after the type's own components (members.push) instead of being spliced at the position of the notation: the component order differs from the hand-expanded type (and, with an extension marker, inherited root components land among the additions)");
                            }
                            if let Some(e0) = own_ext {
                                ctx.oblige("C09.splice", &format!("{}:marker-moves", key), true);
                                if ext != Some(e0 + 2) {
                                    ctx.violate("C09.splice", "marker-index", &f.file, f.line, &format!("the referencing type's first-extension index must move by the number of inherited root components (from {} to {}), got {:?}", e0, e0 + 2, ext));
                                }
                            } else if ext.is_some() {
                                ctx.violate("C09.splice", "marker-index", &f.file, f.line, &format!("a referencing type without an extension marker must not get one: {:?}", ext));
                            }
                        }
                        Ok(o) => ctx.fail_closed("C09.splice", &format!("[{}]: payload became {}", key, o.show().chars().take(120).collect::<String>())),
                        Err(e) => ctx.fail_closed("C09.splice", &format!("[{}]: {}", key, e)),
                    }
                }
            }
        }
        // the same traversal evaluated as a whole (recursion inlined) on a three-level chain in which the middle type still
        // carries its own notation *and* an extension marker: Zlater { own, COMPONENTS OF Mid }, Mid { m, COMPONENTS OF Base, ... },
        // Base { x, y } — Zlater must end up with own, m, x and y (what is root in Mid is decided after Mid's own expansion)
        {
            let inl = inline_all(m, &["ASN1Type"]);
            let base = Val::Ctor("Sequence".into(), vec![seq(&["x", "y"], None, &[])], BTreeMap::new());
            let mid = Val::Ctor("Sequence".into(), vec![seq(&["m"], Some(1), &["Base"])], BTreeMap::new());
            let def = |name: &str, ty: Val| {
                let mut t = BTreeMap::new();
                t.insert("ty".to_string(), ty);
                t.insert("name".to_string(), Val::Str(name.into()));
                Val::Ctor("Type".into(), vec![Val::Ctor("ToplevelTypeDefinition".into(), vec![], t)], BTreeMap::new())
            };
            let defs = vec![("Base".to_string(), def("Base", base)), ("Mid".to_string(), def("Mid", mid))];
            let hook = move |_: &Evaluator, name: &str, a: &[Val]| -> Option<Result<Val, String>> {
                match name {
                    ".get" if matches!(a.first(), Some(Val::Opaque(s)) if s == "tlds") => match a.get(1) {
                        Some(Val::Str(k)) => Some(Ok(defs.iter().find(|(n, _)| n == k).map(|(_, v)| Val::some(v.clone())).unwrap_or(Val::none()))),
                        _ => Some(Err("tlds.get with a key that is not a name".into())),
                    },
                    ".clone" | ".to_owned" if a.len() == 1 => Some(Ok(a[0].clone())),
                    _ => None,
                }
            };
            let ev = Evaluator { consts: &consts, call_hook: &hook, inline: Some(&inl) };
            let mut env = Env::new();
            env.insert("self".into(), Val::Ctor("Sequence".into(), vec![seq(&["own"], None, &["Mid"])], BTreeMap::new()));
            env.insert(params.first().cloned().unwrap_or("tlds".into()), Val::Opaque("tlds".into()));
            for p in params.iter().skip(1) {
                env.insert(p.clone(), Val::List(vec![]));
            }
            ctx.oblige("C09.splice", "three-level chain with a marker in the middle type", true);
            match ev.eval_fn_body(&f.block, &mut env) {
                Ok(_) => {
                    let sh = env.get("self").map(|v| v.show()).unwrap_or_default();
                    let has = |n: &str| sh.contains(&format!("name:\"{}\"", n));
                    let missing: Vec<&str> = ["own", "m", "x", "y"].into_iter().filter(|n| !has(n)).collect();
                    if !missing.is_empty() {
                        ctx.violate("C09.splice", "nested-root-components-lost", &f.file, f.line,
                            &format!("Zlater ::= SEQUENCE {{ own, COMPONENTS OF Mid }} with Mid ::= SEQUENCE {{ m, COMPONENTS OF Base, ... }} (not expanded yet) and Base ::= SEQUENCE {{ x, y }}: the components {:?} are missing from Zlater — what belongs to Mid's extension root is known only after Mid's own COMPONENTS OF has been expanded", missing));
                    }
                }
                Err(e) => ctx.fail_closed("C09.splice", &format!("[three-level chain]: {}", e)),
            }
        }
    } else {
        ctx.fail_closed("C09.splice", "anchor not found: link_components_of_notation");
    }
    // the lexer keeps the notation's position?
    if let Ok(st) = m.find_struct("SequenceOrSet", Some("intermediate")) {
        ctx.oblige("C09.splice", "position-recorded", true);
        let t = st.fields.iter().find(|(n, _, _)| n == "components_of").map(|(_, t, _)| t.clone()).unwrap_or_default();
        if t == "Vec<String>" {
            ctx.violate("C09.splice", "position-not-recorded", &st.file, st.line, "SequenceOrSet.components_of is a bare Vec<String>: the position of each COMPONENTS OF among the components is discarded by the lexer, so the linker cannot splice at it");
        }
    }
}
