//! C09 — notations defined by expansion compile like their hand-expanded form (structural clauses).
use crate::model::{self, tok, FnInfo, Model};
use crate::report::Ctx;
use crate::rules::util::*;
use serde_json::json;
use std::collections::BTreeSet;

fn variants_named(f: &FnInfo, en: &[String]) -> BTreeSet<String> {
    let mut out = BTreeSet::new();
    let mut pats: Vec<String> = vec![];
    for mt in model::matches_in(&f.block) {
        for a in &mt.arms {
            pats.push(tok(&a.pat));
        }
    }
    struct C {
        out: Vec<String>,
    }
    impl model::DeepCb for C {
        fn expr(&mut self, e: &syn::Expr) {
            if let syn::Expr::Let(l) = e {
                self.out.push(tok(&l.pat));
            }
        }
        fn mac(&mut self, mac: &syn::Macro) {
            if let Some(mm) = model::parse_matches(mac) {
                self.out.push(tok(&mm.pat));
            }
        }
    }
    let mut c = C { out: vec![] };
    model::deep_walk_block(&f.block, &mut c);
    pats.extend(c.out);
    for p in pats {
        for v in en {
            if p.contains(&format!("ASN1Type::{}(", v)) || p.contains(&format!("ASN1Type::{}{{", v)) || p.ends_with(&format!("ASN1Type::{}", v)) || p.contains(&format!("Self::{}(", v)) {
                out.insert(v.clone());
            }
        }
    }
    out
}

pub fn run(m: &Model, ctx: &mut Ctx) {
    ctx.explanation = "C09.sym: each detector/rewriter pair of the linker (contains_components_of_notation / link_components_of_notation, has_choice_selection_type / link_choice_selection_type, \
contains_constraint_reference / link_constraint_reference, references_class_by_name / resolve_class_reference) must traverse the same container variants of ASN1Type: a container the detector enters but the rewriter does not (or vice versa) leaves a notation unexpanded at that position. \
C09.splice: COMPONENTS OF members are spliced at the position of the notation (not appended), only root components of the referenced type are taken, and the referenced type may be a SEQUENCE or a SET. \
C09.noskip: linker errors are not discarded (shared with C10.discard). \
Not applicable: the equivalence sugared = expanded itself, independence from the order of names (the single pass reads other definitions in whatever link state they are), parameter substitution and selection types beyond the traversal symmetry.".into();
    ctx.assumptions = vec!["the IR container variants are Sequence, Set, SequenceOf, SetOf, Choice".into()];
    ctx.rule("sibling agreement of detector/rewriter traversals; insertion-position rule for COMPONENTS OF");
    let en: Vec<String> = m.find_enum("ASN1Type").map(|e| e.variants.clone()).unwrap_or_default();
    let containers = ["Sequence", "Set", "SequenceOf", "SetOf", "Choice"];
    let pairs = [
        ("contains_components_of_notation", "link_components_of_notation"),
        ("has_choice_selection_type", "link_choice_selection_type"),
        ("contains_constraint_reference", "link_constraint_reference"),
        ("references_class_by_name", "resolve_class_reference"),
    ];
    for (d, r) in pairs {
        let df = m.fns.iter().find(|f| f.name == d && f.self_ty.as_deref() == Some("ASN1Type"));
        let rf = m.fns.iter().find(|f| f.name == r && f.self_ty.as_deref() == Some("ASN1Type"));
        let (Some(df), Some(rf)) = (df, rf) else {
            ctx.fail_closed("C09.sym", &format!("anchor not found: {} / {}", d, r));
            continue;
        };
        ctx.func(&df.key);
        ctx.func(&rf.key);
        let dv = variants_named(df, &en);
        let rv = variants_named(rf, &en);
        for c in containers {
            ctx.oblige("C09.sym", &format!("{}/{}:{}", d, r, c), true);
            let (ind, inr) = (dv.contains(c), rv.contains(c));
            if ind != inr {
                let (has, lacks) = if ind { (d, r) } else { (r, d) };
                let f = if ind { rf } else { df };
                ctx.violate("C09.sym", &format!("{}/{}:{}", d, r, c), &f.file, f.line,
                    &format!("`{}` descends into ASN1Type::{} but its counterpart `{}` does not: the notation is {} inside a {} and then not {}", has, c, lacks, if ind { "detected" } else { "rewritten" }, c, if ind { "expanded" } else { "looked for" }));
            }
        }
        ctx.sample(json!({"pair": [d, r], "detector_variants": dv, "rewriter_variants": rv}));
    }

    // ---------------- splice ----------------
    if let Some(f) = m.fns.iter().find(|f| f.name == "link_components_of_notation" && f.self_ty.as_deref() == Some("ASN1Type")) {
        let b = tok(&f.block);
        ctx.oblige("C09.splice", "position", true);
        if b.contains("s.members.push(member.clone())") && !b.contains("s.members.insert(") && !b.contains("splice(") {
            ctx.violate("C09.splice", "appended-at-end", &f.file, f.line,
                "COMPONENTS OF members are appended after the type's own components (members.push) instead of being spliced at the position of the notation: the component order differs from the hand-expanded type (and, with an extension marker, inherited root components land among the additions)");
        }
        ctx.oblige("C09.splice", "root-only", true);
        if !b.contains("if index<linked_seq.extensible.unwrap_or(usize::MAX)") {
            ctx.violate("C09.splice", "root-only", &f.file, f.line, "COMPONENTS OF takes only the root components of the referenced type (X.680 §25.5): the index test against the referenced type's extension index is missing");
        }
        ctx.oblige("C09.splice", "referenced-set", true);
        if !(b.contains("ASN1Type::Sequence(linked_seq)|ASN1Type::Set(linked_seq)") || b.contains("ASN1Type::Set(linked_seq)|ASN1Type::Sequence(linked_seq)")) {
            ctx.violate("C09.splice", "referenced-set", &f.file, f.line, "COMPONENTS OF must accept a referenced SET as well as a SEQUENCE");
        }
    } else {
        ctx.fail_closed("C09.splice", "anchor not found: link_components_of_notation");
    }
    // the lexer keeps the notation's position?
    if let Ok(st) = m.find_struct("SequenceOrSet", Some("intermediate")) {
        ctx.oblige("C09.splice", "position-recorded", true);
        let t = st.fields.iter().find(|(n, _, _)| n == "components_of").map(|(_, t, _)| t.clone()).unwrap_or_default();
        if t == "Vec<String>" {
            ctx.violate("C09.splice", "position-not-recorded", &st.file, st.line, "SequenceOrSet.components_of is a bare Vec<String>: the position of each COMPONENTS OF among the components is discarded by the lexer, so the linker cannot splice at it");
        }
    }
}
