//! C04 — emitted value and size bounds equal the PER-visible effective constraint.
//!
//! The folding code touches integer end points only through comparisons (min/max/==), so
//! evaluating its syntax tree over every order type of a small end-point alphabet
//! (with MIN/MAX as absent bounds) is exhaustive for two-operand expressions.
use crate::eval::{Env, Evaluator, Val};
use crate::model::{tok, Model};
use crate::report::Ctx;
use crate::rules::util::*;
use serde_json::json;
use std::collections::BTreeMap;

type Bound = Option<i128>;

#[derive(Clone, Debug, PartialEq)]
struct Elem {
    lo: Bound,
    hi: Bound,
    single: bool,
    ext: bool,
}

impl Elem {
    fn show(&self) -> String {
        let b = |x: Bound, d: &str| x.map(|v| v.to_string()).unwrap_or(d.to_string());
        let core = if self.single { b(self.lo, "?") } else { format!("{}..{}", b(self.lo, "MIN"), b(self.hi, "MAX")) };
        if self.ext { format!("{}, ...", core) } else { core }
    }
    fn to_val(&self) -> Val {
        let int = |v: i128| Val::Ctor("Integer".into(), vec![Val::int(v)], BTreeMap::new());
        let mut f = BTreeMap::new();
        if self.single {
            f.insert("value".to_string(), int(self.lo.unwrap()));
            f.insert("extensible".to_string(), Val::Bool(self.ext));
            Val::Ctor("SingleValue".into(), vec![], f)
        } else {
            f.insert("min".to_string(), self.lo.map(|v| Val::some(int(v))).unwrap_or(Val::none()));
            f.insert("max".to_string(), self.hi.map(|v| Val::some(int(v))).unwrap_or(Val::none()));
            f.insert("extensible".to_string(), Val::Bool(self.ext));
            Val::Ctor("ValueRange".into(), vec![], f)
        }
    }
}

fn bounds_of(v: &Val) -> Result<(Bound, Bound, bool), String> {
    // Some(SingleValue{..}) / Some(ValueRange{..}) / None
    let int_of = |v: &Val| -> Result<i128, String> {
        match v {
            Val::Ctor(n, p, _) if n == "Integer" => match p.first() { Some(Val::Int { v, .. }) => Ok(*v), _ => Err("non-int".into()) },
            o => Err(format!("non-integer bound {}", o.show())),
        }
    };
    let opt = |v: Option<&Val>| -> Result<Bound, String> {
        match v {
            Some(Val::Ctor(n, p, _)) if n == "Some" => Ok(Some(int_of(&p[0])?)),
            Some(Val::Ctor(n, _, _)) if n == "None" => Ok(None),
            o => Err(format!("bound {:?}", o.map(|x| x.show()))),
        }
    };
    match v {
        Val::Ctor(n, f, _) if n == "Some" => match &f[0] {
            Val::Ctor(k, _, named) if k == "SingleValue" => {
                let x = int_of(named.get("value").ok_or("no value")?)?;
                Ok((Some(x), Some(x), named.get("extensible") == Some(&Val::Bool(true))))
            }
            Val::Ctor(k, _, named) if k == "ValueRange" => Ok((opt(named.get("min"))?, opt(named.get("max"))?, named.get("extensible") == Some(&Val::Bool(true)))),
            o => Err(format!("folded to {}", o.show())),
        },
        o => Err(format!("folded to {}", o.show())),
    }
}

pub fn run(m: &Model, ctx: &mut Ctx) {
    ctx.explanation = "C04.fold: fold_constraint_set (with intersect_single_and_range, union_single_and_range, compare_optional_asn1values and ASN1Value::min/max inlined) is evaluated abstractly on its syntax tree \
for every pair of operands drawn from single values and ranges over the end-point alphabet {MIN, 1, 5, 10, 20, MAX} (open ends = absent bounds), for UNION, INTERSECTION and EXCEPT, with and without inner extension markers: \
the folded element must never exclude a value the set expression permits (union = hull with open ends staying open, intersection = max of lowers / min of uppers, EXCEPT = base), and extensibility is the disjunction. \
The code compares end points only with min/max/==, so every order type of two operands is covered. \
C04.serial: PerVisibleRangeConstraints += (serial constraints) is evaluated for all pairs of (lower, upper, ext) over the same alphabet: intersection, absent bound = identity, extensibility sticky. \
C04.render: the (min?, max?, extensible) -> annotation table of format_range_annotations and fixed_size (fixed iff size, non-extensible, min == max) are evaluated exhaustively. \
C04.vis: parts that are not PER-visible (X.691 10.3.21; a PATTERN constraint stands for one): fold_constraint_set is evaluated with the invisible part on either side of each operator (union => not visible, intersection => the visible part, EXCEPT => base), and `impl PerVisible for ElementOrSetOperation` must report a set operation visible as soon as one side is. Not decided: operator precedence/associativity of the constraint parser, reference resolution, expressions with three or more operands, character-string folding.".into();
    ctx.assumptions = vec!["X.691 §10.3: PER-visible constraint of a union is the hull, EXCEPT is ignored".into(), "rasn's value(\"lo..=hi\") / size(..) annotations take inclusive ranges".into()];
    ctx.rule("abstract evaluation over all order types of two operands on a 6-point end-point alphabet; exhaustive option/boolean tables");
    // a size bound is attached to a string component only if the component formatter takes the type for a known-multiplier
    // string type: the two lists of X.691 30.1 types (the analysis lives with C15.km)
    borrow(ctx, "C15", "C15.km", "C04.km", &mut |sub| crate::rules::c15::run(m, sub));
    invisible_only(m, ctx);
    size_set_operations(m, ctx);
    precedence(m, ctx, "C04.prec", true);
    element_constraints(m, ctx);
    open_ends(m, ctx);
    size_marker(m, ctx);
    contained_marker(m, ctx, "C04.ext");
    crate::rules::c09::value_chain(m, ctx, "C04.scope");
    let consts = const_resolver(m);
    let inl = inline_all(m, &["ASN1Value", "SetOperation", "SubtypeElements", "ElementOrSetOperation"]);
    for k in ["fold_constraint_set", "intersect_single_and_range", "union_single_and_range", ".min_max", ".max", ".min"] {
        if !inl.contains_key(k) {
            ctx.fail_closed("C04.fold", &format!("anchor missing: {}", k));
            return;
        }
        ctx.func(k);
    }
    // a PATTERN constraint stands for "not PER-visible" (X.691 10.3.21); everything else in the operand alphabet is visible
    fn visible(v: &Val) -> bool {
        match v {
            Val::Ctor(n, _, _) if n == "PatternConstraint" => false,
            Val::Ctor(n, p, _) if n == "Element" || n == "Some" => p.first().map(visible).unwrap_or(true),
            _ => true,
        }
    }
    let hook = |_: &Evaluator, name: &str, a: &[Val]| -> Option<Result<Val, String>> {
        if name == ".per_visible" {
            return Some(Ok(Val::Bool(a.first().map(visible).unwrap_or(true))));
        }
        None
    };
    let ev = Evaluator { consts: &consts, call_hook: &hook, inline: Some(&inl) };
    let fold = m.find_fn(None, "fold_constraint_set", Some("per_visible")).unwrap();

    // operands
    let pts: Vec<i128> = vec![1, 5, 10, 20];
    let mut elems: Vec<Elem> = vec![];
    for p in &pts {
        elems.push(Elem { lo: Some(*p), hi: Some(*p), single: true, ext: false });
    }
    let los: Vec<Bound> = vec![None, Some(1), Some(5), Some(10)];
    let his: Vec<Bound> = vec![Some(5), Some(10), Some(20), None];
    for lo in &los {
        for hi in &his {
            if let (Some(a), Some(b)) = (lo, hi) {
                if a > b {
                    continue;
                }
            }
            elems.push(Elem { lo: *lo, hi: *hi, single: false, ext: false });
        }
    }
    let n_plain = elems.len();
    // a few extensible operands
    elems.push(Elem { lo: Some(5), hi: Some(5), single: true, ext: true });
    elems.push(Elem { lo: Some(1), hi: Some(10), single: false, ext: true });
    ctx.extra.insert("operands".into(), json!(elems.len()));

    let mut n = 0;
    for op in ["Union", "Intersection", "Except"] {
        for a in &elems {
            for b in &elems {
                n += 1;
                let mut setf = BTreeMap::new();
                setf.insert("base".to_string(), a.to_val());
                setf.insert("operator".to_string(), Val::ctor(op));
                setf.insert("operant".to_string(), Val::Ctor("Element".into(), vec![b.to_val()], BTreeMap::new()));
                let mut env = Env::new();
                env.insert("set".into(), Val::Ctor("SetOperation".into(), vec![], setf));
                env.insert("char_set".into(), Val::none());
                env.insert("range_constraint".into(), Val::Bool(true));
                let key = format!("({}) {} ({})", a.show(), op.to_uppercase(), b.show());
                let r = match ev.eval_fn_body(&fold.block, &mut env) {
                    Ok(v) => v,
                    Err(e) => {
                        ctx.fail_closed("C04.fold", &format!("[{}]: {}", key, e));
                        continue;
                    }
                };
                // exact semantics
                let (want_lo, want_hi, empty): (Bound, Bound, bool) = match op {
                    "Union" => (
                        match (a.lo, b.lo) { (Some(x), Some(y)) => Some(x.min(y)), _ => None },
                        match (a.hi, b.hi) { (Some(x), Some(y)) => Some(x.max(y)), _ => None },
                        false,
                    ),
                    "Intersection" => {
                        let lo = match (a.lo, b.lo) { (Some(x), Some(y)) => Some(x.max(y)), (x, None) => x, (None, y) => y };
                        let hi = match (a.hi, b.hi) { (Some(x), Some(y)) => Some(x.min(y)), (x, None) => x, (None, y) => y };
                        let empty = matches!((lo, hi), (Some(l), Some(h)) if l > h);
                        (lo, hi, empty)
                    }
                    _ => (a.lo, a.hi, false),
                };
                if empty {
                    continue; // an empty intersection permits nothing: any answer (or an error) is acceptable
                }
                let res = match &r {
                    Val::Ctor(n, p, _) if n == "Ok" => bounds_of(&p[0]),
                    Val::Ctor(n, _, _) if n == "Err" => Err("Err(..)".to_string()),
                    o => Err(o.show()),
                };
                match res {
                    Ok((lo, hi, ext)) => {
                        // soundness: [want] within [got]
                        let lo_ok = match (lo, want_lo) { (None, _) => true, (Some(_), None) => false, (Some(g), Some(w)) => g <= w };
                        let hi_ok = match (hi, want_hi) { (None, _) => true, (Some(_), None) => false, (Some(g), Some(w)) => g >= w };
                        let shape = format!("{}:{}{}", op, if a.single { "single" } else { "range" }, if b.single { "-single" } else { "-range" });
                        let b2 = |x: Bound, d: &str| x.map(|v| v.to_string()).unwrap_or(d.to_string());
                        if !lo_ok || !hi_ok {
                            let which = if !lo_ok { if want_lo.is_none() { "open-lower-end-closed" } else { "lower-too-high" } } else if want_hi.is_none() { "open-upper-end-closed" } else { "upper-too-low" };
                            ctx.violate("C04.fold", &format!("{}:{}", shape, which), &fold.file, fold.line,
                                &format!("{} folds to {}..{} but the constraint permits {}..{}: values the ASN.1 constraint allows are excluded from the emitted bound", key, b2(lo, "MIN"), b2(hi, "MAX"), b2(want_lo, "MIN"), b2(want_hi, "MAX")));
                        } else if (lo, hi) != (want_lo, want_hi) {
                            ctx.violate("C04.fold", &format!("{}:not-tight", shape), &fold.file, fold.line,
                                &format!("{} folds to {}..{}; the PER-visible effective constraint is {}..{}", key, b2(lo, "MIN"), b2(hi, "MAX"), b2(want_lo, "MIN"), b2(want_hi, "MAX")));
                        }
                        // the lexer's element parsers take a trailing `, ...` with the element they are reading: a marker on the
                        // last operand *is* the marker of the whole element set, also when that operand follows EXCEPT and is
                        // itself ignored (`(1..5 EXCEPT 3, ...)` is extensible)
                        let want_ext = a.ext || b.ext;
                        if ext != want_ext {
                            ctx.violate("C04.ext", &format!("{}:extensible", shape), &fold.file, fold.line,
                                &format!("{} folds to extensible={}, expected {} (an extension marker on either operand makes the result extensible)", key, ext, want_ext));
                        }
                        if n % 97 == 0 {
                            ctx.sample(json!({"expr": key, "folded": format!("{}..{}", b2(lo, "MIN"), b2(hi, "MAX")), "extensible": ext}));
                        }
                    }
                    Err(e) => {
                        let shape = format!("{}:{}{}", op, if a.single { "single" } else { "range" }, if b.single { "-single" } else { "-range" });
                        ctx.violate("C04.fold", &format!("{}:no-bound", shape), &fold.file, fold.line, &format!("{} does not fold to a bound ({}) although it is PER-visible and non-empty", key, e));
                    }
                }
            }
        }
    }
    // ---- parts that are not PER-visible (X.691 10.3.21) ----
    {
        let inv = Val::Ctor("PatternConstraint".into(), vec![Val::Str("a*".into())], BTreeMap::new());
        let vis = [elems[0].clone(), Elem { lo: Some(1), hi: Some(10), single: false, ext: false }];
        for op in ["Union", "Intersection", "Except"] {
            for v in &vis {
                for (what, base, operant, want) in [
                    ("visible-op-invisible", v.to_val(), inv.clone(), if op == "Union" { None } else { Some(v.clone()) }),
                    ("invisible-op-visible", inv.clone(), v.to_val(), if op == "Intersection" { Some(v.clone()) } else { None }),
                    ("invisible-op-invisible", inv.clone(), inv.clone(), None),
                ] {
                    n += 1;
                    let key = format!("{}:{}:{}", op, what, v.show());
                    ctx.oblige("C04.vis", &key, true);
                    let mut setf = BTreeMap::new();
                    setf.insert("base".to_string(), base);
                    setf.insert("operator".to_string(), Val::ctor(op));
                    setf.insert("operant".to_string(), Val::Ctor("Element".into(), vec![operant], BTreeMap::new()));
                    let mut env = Env::new();
                    env.insert("set".into(), Val::Ctor("SetOperation".into(), vec![], setf));
                    env.insert("char_set".into(), Val::none());
                    env.insert("range_constraint".into(), Val::Bool(true));
                    let got = match ev.eval_fn_body(&fold.block, &mut env) {
                        Ok(Val::Ctor(n, p, _)) if n == "Ok" => match p.first() {
                            Some(Val::Ctor(s, _, _)) if s == "None" => Ok(None),
                            Some(o) => bounds_of(o).map(Some),
                            None => Err("Ok()".to_string()),
                        },
                        Ok(o) => Err(o.show()),
                        Err(e) => Err(e),
                    };
                    match (got, want) {
                        (Ok(None), None) => {}
                        (Ok(Some((lo, hi, _))), Some(w)) if (lo, hi) == (w.lo, w.hi) => {}
                        (Ok(g), w) => ctx.violate("C04.vis", &format!("{}:{}", op, what), &fold.file, fold.line,
                            &format!("`{} {} {}` with PATTERN standing for a part that is not PER-visible folds to {:?}; X.691 10.3.21: {} => {}",
                                if what.starts_with("visible") { v.show() } else { "PATTERN".into() }, op.to_uppercase(), if what.ends_with("-visible") { v.show() } else { "PATTERN".into() }, g.map(|(l, h, _)| format!("{:?}..{:?}", l, h)),
                                match op { "Union" => "a union with a part that is not PER-visible is not PER-visible", "Intersection" => "the parts of an intersection that are not PER-visible are ignored", _ => "EXCEPT and what follows is ignored" },
                                w.map(|w| w.show()).unwrap_or("not PER-visible".into()))),
                        (Err(e), _) => ctx.fail_closed("C04.vis", &format!("[{}]: {}", key, e)),
                    }
                }
            }
        }
        // the visibility test of a set operation itself: visible as soon as one side is
        match m.fns.iter().find(|f| f.name == "per_visible" && f.self_ty.as_deref() == Some("ElementOrSetOperation") && f.trait_.as_deref() == Some("PerVisible")) {
            Some(pv) => {
                ctx.func(&pv.key);
                let some_vis = vis[1].to_val();
                for (bv, ov) in [(true, true), (true, false), (false, true), (false, false)] {
                    let key = format!("set-operation-visible:base={},operant={}", bv, ov);
                    ctx.oblige("C04.vis", &key, true);
                    let mut setf = BTreeMap::new();
                    setf.insert("base".to_string(), if bv { some_vis.clone() } else { inv.clone() });
                    setf.insert("operator".to_string(), Val::ctor("Intersection"));
                    setf.insert("operant".to_string(), Val::Ctor("Element".into(), vec![if ov { some_vis.clone() } else { inv.clone() }], BTreeMap::new()));
                    let mut env = Env::new();
                    env.insert("self".into(), Val::Ctor("SetOperation".into(), vec![Val::Ctor("SetOperation".into(), vec![], setf)], BTreeMap::new()));
                    match ev.eval_fn_body(&pv.block, &mut env) {
                        Ok(Val::Bool(b)) => {
                            if b != (bv || ov) {
                                ctx.violate("C04.vis", &key, &pv.file, pv.line, &format!("a set operation whose base is {} and whose operant is {} is reported as {}: a constraint with a PER-visible part on either side must reach the folding (it is filtered out before, and its bounds are lost)",
                                    if bv { "PER-visible" } else { "not PER-visible" }, if ov { "PER-visible" } else { "not PER-visible" }, if b { "PER-visible" } else { "not PER-visible" }));
                            }
                        }
                        Ok(o) => ctx.fail_closed("C04.vis", &format!("[{}]: {}", key, o.show())),
                        Err(e) => ctx.fail_closed("C04.vis", &format!("[{}]: {}", key, e)),
                    }
                }
            }
            None => ctx.fail_closed("C04.vis", "anchor not found: impl PerVisible for ElementOrSetOperation"),
        }
    }
    ctx.oblige_n("C04.fold/operand-pairs", n);
    for op in ["Union", "Intersection", "Except"] {
        for s in ["single-single", "single-range", "range-single", "range-range"] {
            ctx.oblige("C04.fold", &format!("{}:{}", op, s), true);
        }
    }
    let _ = n_plain;

    endpoints(m, ctx, &consts);
    serial(m, ctx, &consts);
    render(m, ctx, &consts);
    outer_marker(m, ctx, "C04.ext");
    size_flag(m, ctx);
    marker_conversions(m, ctx);
    // an INTEGER's bounds are folded as signed (= C06.signed)
    crate::rules::c06::signed_flag(m, ctx, "C04.signed");
    // "named numbers are resolved": in the governing type's scope (= C09.scope)
    crate::rules::c09::scope(m, ctx, "C04.scope");
}

/// C04.size: whether the emitted bound is a `size(..)` or a `value(..)` annotation is decided by the conversion of a constraint
/// element into PerVisibleRangeConstraints (`is_size_constraint`). The conversion is evaluated on a value range, on SIZE of a
/// range and on SIZE of a set operation: SIZE — and only SIZE — yields a size constraint, and the bounds are carried over.
/// C04.invisible: "the bound attached is the PER-visible effective constraint" — a constraint that is not PER-visible
/// (PATTERN, CONSTRAINED BY, CONTAINING, an inner-type constraint) contributes nothing, so a type all of whose constraints are
/// of that kind carries no value or size annotation, signed or not. format_range_annotations is evaluated with
/// per_visible_range_constraints followed through the crate's code on lists of visible and invisible constraints.
fn invisible_only(m: &Model, ctx: &mut Ctx) {
    let Some(f) = anchor_fn(m, ctx, "C04.invisible", Some("Rasn"), "format_range_annotations", None) else { return };
    let consts = const_resolver(m);
    let pvrc = |lo: Option<i128>, hi: Option<i128>, size: bool| {
        let mut n = BTreeMap::new();
        n.insert("min".to_string(), lo.map(|v| Val::some(Val::int(v))).unwrap_or(Val::none()));
        n.insert("max".to_string(), hi.map(|v| Val::some(Val::int(v))).unwrap_or(Val::none()));
        n.insert("extensible".to_string(), Val::Bool(false));
        n.insert("is_size_constraint".to_string(), Val::Bool(size));
        Val::Ctor("PerVisibleRangeConstraints".into(), vec![], n)
    };
    let add = m.fns.iter().find(|f| f.name == "add_assign" && f.self_ty.as_deref() == Some("PerVisibleRangeConstraints"));
    let hook = |ev: &Evaluator, name: &str, a: &[Val]| -> Option<Result<Val, String>> {
        match name {
            // constraints are markers: "invisible", "size:1..4", "value:1..4"
            ".per_visible" => match a.first() { Some(Val::Str(s)) => Some(Ok(Val::Bool(s != "invisible"))), _ => None },
            ".try_into" => match a.first() {
                Some(Val::Str(s)) if s.starts_with("size:") || s.starts_with("value:") => Some(Ok(Val::Ctor("Ok".into(), vec![pvrc(Some(1), Some(4), s.starts_with("size:"))], BTreeMap::new()))),
                _ => None,
            },
            "PerVisibleRangeConstraints::default" | "Self::default" => Some(Ok(pvrc(None, None, false))),
            "I::from_i128" => Some(Ok(Val::some(a.first().cloned().unwrap_or(Val::Unit)))),
            "TokenStream::new" => Some(Ok(Val::Str(String::new()))),
            "op:add_assign" => {
                let f = add?;
                let mut env = Env::new();
                env.insert("self".into(), a[0].clone());
                let p = f.sig.inputs.iter().filter_map(|x| match x { syn::FnArg::Typed(t) => Some(tok(&t.pat)), _ => None }).next().unwrap_or("rhs".into());
                env.insert(p, a[1].clone());
                Some(ev.eval_fn_body(&f.block, &mut env).and_then(|_| env.get("self").cloned().ok_or("self lost".into())))
            }
            _ => None,
        }
    };
    let inl = inline_all(m, &["PerVisibleRangeConstraints"]);
    let ev = Evaluator { consts: &consts, call_hook: &hook, inline: Some(&inl) };
    let params: Vec<String> = f.sig.inputs.iter().filter_map(|a| match a { syn::FnArg::Typed(t) => Some(tok(&t.pat)), _ => None }).collect();
    for signed in [true, false] {
        for (what, list, want) in [
            ("(PATTERN ..)", vec!["invisible"], ""),
            ("(PATTERN ..) (CONSTRAINED BY {})", vec!["invisible", "invisible"], ""),
            ("no constraint", vec![], ""),
            ("(PATTERN ..) (SIZE (1..4))", vec!["invisible", "size:1..4"], "size(\"1..=4\")"),
            ("(1..4)", vec!["value:1..4"], "value(\"1..=4\")"),
        ] {
            let key = format!("{}:signed={}", what, signed);
            ctx.oblige("C04.invisible", &key, true);
            let mut env = Env::new();
            env.insert("self".into(), Val::ctor("Rasn"));
            env.insert(params.first().cloned().unwrap_or("signed".into()), Val::Bool(signed));
            env.insert(params.get(1).cloned().unwrap_or("constraints".into()), Val::List(list.iter().map(|s| Val::Str(s.to_string())).collect()));
            match ev.eval_fn_body(&f.block, &mut env) {
                Ok(Val::Ctor(ok, p, _)) if ok == "Ok" => {
                    let got = match p.first() { Some(Val::Str(s)) | Some(Val::Sym(s)) => s.replace(' ', ""), o => format!("{:?}", o.map(|v| v.show())) };
                    if got != want {
                        ctx.violate("C04.invisible", &format!("annotation:{}", if want.is_empty() { "spurious" } else { "wrong" }), &f.file, f.line,
                            &format!("format_range_annotations(signed = {}) for a type constrained by {} renders `{}`; expected `{}`: constraints that are not PER-visible contribute no bound — `a IA5String (PATTERN \"x\")` as a component must not carry `value(\"0..\")`", signed, what, got, want));
                    }
                }
                Ok(o) => ctx.fail_closed("C04.invisible", &format!("[{}]: result {}", key, o.show().chars().take(100).collect::<String>())),
                Err(e) => ctx.fail_closed("C04.invisible", &format!("[{}]: {}", key, e)),
            }
        }
    }
}

/// C04.sizeops: set operators between SIZE constraints. `SIZE (1..4) | SIZE (8..10)`, `SIZE (1..4) ^ SIZE (2..10)` and
/// `SIZE (1..4) EXCEPT SIZE (2)` have the operands wrapped in SizeConstraint nodes, a path of fold_constraint_set of its own
/// (the value-level pairs are covered by C04.fold). (1) fold_constraint_set is evaluated on such pairs: union = hull,
/// intersection = intersection, EXCEPT = the base. (2) TryFrom<&Constraint> for PerVisibleRangeConstraints must mark the
/// result a *size* bound for every operator (the annotation is `size(..)`, not `value(..)`).
fn size_set_operations(m: &Model, ctx: &mut Ctx) {
    use std::collections::BTreeMap as Map;
    let consts = const_resolver(m);
    let inl = inline_all(m, &["ASN1Value", "SetOperation", "SubtypeElements", "ElementOrSetOperation"]);
    let Ok(fold) = m.find_fn(None, "fold_constraint_set", Some("per_visible")) else {
        ctx.fail_closed("C04.sizeops", "anchor not found: fold_constraint_set");
        return;
    };
    let int = |v: i128| Val::Ctor("Integer".into(), vec![Val::int(v)], Map::new());
    let range = |lo: i128, hi: i128| {
        let mut f = Map::new();
        f.insert("min".to_string(), Val::some(int(lo)));
        f.insert("max".to_string(), Val::some(int(hi)));
        f.insert("extensible".to_string(), Val::Bool(false));
        Val::Ctor("ValueRange".into(), vec![], f)
    };
    let single = |v: i128| {
        let mut f = Map::new();
        f.insert("value".to_string(), int(v));
        f.insert("extensible".to_string(), Val::Bool(false));
        Val::Ctor("SingleValue".into(), vec![], f)
    };
    let element = |e: Val| Val::Ctor("Element".into(), vec![e], Map::new());
    let size = |inner: Val| Val::Ctor("SizeConstraint".into(), vec![element(inner)], Map::new());
    let hook = |_: &Evaluator, name: &str, _: &[Val]| -> Option<Result<Val, String>> { if name == ".per_visible" { Some(Ok(Val::Bool(true))) } else { None } };
    let ev = Evaluator { consts: &consts, call_hook: &hook, inline: Some(&inl) };
    for (op, b, o, want) in [
        ("Union", range(1, 4), range(8, 10), (Some(1), Some(10))),
        ("Intersection", range(1, 4), range(2, 10), (Some(2), Some(4))),
        ("Except", range(1, 4), single(2), (Some(1), Some(4))),
        ("Except", range(1, 4), range(8, 10), (Some(1), Some(4))),
    ] {
        let key = format!("fold:SIZE {} SIZE:{}", op, o.show().chars().take(20).collect::<String>());
        ctx.oblige("C04.sizeops", &key, true);
        let mut setf = Map::new();
        setf.insert("base".to_string(), size(b));
        setf.insert("operator".to_string(), Val::ctor(op));
        setf.insert("operant".to_string(), element(size(o)));
        let mut env = Env::new();
        env.insert("set".into(), Val::Ctor("SetOperation".into(), vec![], setf));
        env.insert("char_set".into(), Val::none());
        env.insert("range_constraint".into(), Val::Bool(true));
        let got = match ev.eval_fn_body(&fold.block, &mut env) {
            Ok(Val::Ctor(n, p, _)) if n == "Ok" => match p.first() {
                Some(Val::Ctor(s, _, _)) if s == "None" => Ok(None),
                Some(o) => bounds_of(o).map(Some),
                None => Err("Ok()".to_string()),
            },
            Ok(o) => Err(o.show()),
            Err(e) => Err(e),
        };
        match got {
            Ok(Some((lo, hi, _))) if (lo, hi) == want => {}
            Ok(g) => ctx.violate("C04.sizeops", &format!("fold:{}", op), &fold.file, fold.line,
                &format!("`SIZE (1..4) {} SIZE (..)` folds to {:?}; expected {:?}..{:?} ({})", op.to_uppercase(), g.map(|(l, h, _)| format!("{:?}..{:?}", l, h)), want.0, want.1,
                    match op { "Union" => "the hull", "Intersection" => "the intersection", _ => "EXCEPT and what follows it is ignored: the base" })),
            Err(e) => ctx.fail_closed("C04.sizeops", &format!("[{}]: {}", key, e)),
        }
    }
    // (2) the size flag
    let conv = m.fns.iter().find(|f| f.name == "try_from" && f.self_ty.as_deref() == Some("PerVisibleRangeConstraints") && f.sig.inputs.iter().any(|a| tok(a).contains("&Constraint")));
    let Some(conv) = conv else {
        ctx.fail_closed("C04.sizeops", "anchor not found: TryFrom<&Constraint> for PerVisibleRangeConstraints");
        return;
    };
    ctx.func(&conv.key);
    let pvrc = || {
        let mut n = Map::new();
        n.insert("min".to_string(), Val::some(Val::int(1)));
        n.insert("max".to_string(), Val::some(Val::int(10)));
        n.insert("extensible".to_string(), Val::Bool(false));
        n.insert("is_size_constraint".to_string(), Val::Bool(false));
        Val::Ctor("PerVisibleRangeConstraints".into(), vec![], n)
    };
    let hook2 = |_: &Evaluator, name: &str, a: &[Val]| -> Option<Result<Val, String>> {
        match name {
            "fold_constraint_set" => Some(Ok(Val::Ctor("Ok".into(), vec![Val::some(Val::Sym("folded".into()))], Map::new()))),
            ".as_ref" if a.len() == 1 => Some(Ok(a[0].clone())),
            ".try_into" => Some(Ok(Val::Ctor("Ok".into(), vec![pvrc()], Map::new()))),
            _ => None,
        }
    };
    let ev2 = Evaluator { consts: &consts, call_hook: &hook2, inline: None };
    let p = conv.sig.inputs.iter().filter_map(|a| match a { syn::FnArg::Typed(t) => Some(tok(&t.pat)), _ => None }).next().unwrap_or("value".into());
    for op in ["Union", "Intersection", "Except"] {
        ctx.oblige("C04.sizeops", &format!("size-flag:{}", op), true);
        let mut setf = Map::new();
        setf.insert("base".to_string(), size(range(1, 4)));
        setf.insert("operator".to_string(), Val::ctor(op));
        setf.insert("operant".to_string(), element(size(range(8, 10))));
        let mut spec = Map::new();
        spec.insert("set".to_string(), Val::Ctor("SetOperation".into(), vec![Val::Ctor("SetOperation".into(), vec![], setf)], Map::new()));
        spec.insert("extensible".to_string(), Val::Bool(false));
        let c = Val::Ctor("Subtype".into(), vec![Val::Ctor("ElementSetSpecs".into(), vec![], spec)], Map::new());
        let mut env = Env::new();
        env.insert(p.clone(), c);
        match ev2.eval_fn_body(&conv.block, &mut env) {
            Ok(Val::Ctor(ok, q, _)) if ok == "Ok" => {
                let flag = match q.first() { Some(Val::Ctor(_, _, f)) => f.get("is_size_constraint").cloned(), _ => None };
                if flag != Some(Val::Bool(true)) {
                    ctx.violate("C04.sizeops", &format!("size-flag:{}", op), &conv.file, conv.line,
                        &format!("`SIZE (1..4) {} SIZE (8..10)` is converted into bounds that are not marked as a size constraint (is_size_constraint = {:?}): the annotation becomes `value(\"..\")` on an OCTET STRING / string / SEQUENCE OF instead of `size(\"..\")`", op.to_uppercase(), flag.map(|v| v.show())));
                }
            }
            Ok(o) => ctx.fail_closed("C04.sizeops", &format!("[size flag {}]: {}", op, o.show().chars().take(120).collect::<String>())),
            Err(e) => ctx.fail_closed("C04.sizeops", &format!("[size flag {}]: {}", op, e)),
        }
    }
}

fn size_flag(m: &Model, ctx: &mut Ctx) {
    use std::collections::BTreeMap as Map;
    let Some(f) = m.fns.iter().find(|f| f.name == "try_from" && f.self_ty.as_deref() == Some("PerVisibleRangeConstraints") && f.sig.inputs.iter().any(|a| tok(a).contains("Option<&SubtypeElements>"))) else {
        ctx.fail_closed("C04.size", "anchor not found: TryFrom<Option<&SubtypeElements>> for PerVisibleRangeConstraints");
        return;
    };
    ctx.func(&f.key);
    let consts = const_resolver(m);
    let param = f.sig.inputs.iter().filter_map(|a| match a { syn::FnArg::Typed(t) => Some(tok(&t.pat)), _ => None }).next().unwrap_or("value".into());
    let named = |n: &str, fields: Vec<(&str, Val)>| Val::Ctor(n.to_string(), vec![], fields.into_iter().map(|(k, v)| (k.to_string(), v)).collect::<Map<_, _>>());
    let int = |v: i128| Val::some(Val::Ctor("Integer".into(), vec![Val::int(v)], Map::new()));
    let range = |a: i128, b: i128| named("ValueRange", vec![("min", int(a)), ("max", int(b)), ("extensible", Val::Bool(false))]);
    let block = f.block.clone();
    let p2 = param.clone();
    let hook = move |ev: &Evaluator, name: &str, a: &[Val]| -> Option<Result<Val, String>> {
        if name.ends_with("::try_into") || name == ".try_into" {
            // the conversion applied to an inner element: the same fn
            let mut env = Env::new();
            env.insert(p2.clone(), a.first().cloned().unwrap_or(Val::none()));
            return Some(ev.eval_fn_body(&block, &mut env));
        }
        match name {
            // the fold of `1..4 | 8`: the hull
            "fold_constraint_set" => Some(Ok(Val::Ctor("Ok".into(), vec![Val::some(range(1, 8))], Map::new()))),
            ".unwrap_as_integer" => match a.first() { Some(Val::Ctor(_, p, _)) => Some(Ok(Val::Ctor("Ok".into(), vec![p.first().cloned().unwrap_or(Val::Unit)], Map::new()))), _ => None },
            ".as_ref" if a.len() == 1 => Some(Ok(a[0].clone())),
            _ => None,
        }
    };
    let ev = Evaluator { consts: &consts, call_hook: &hook, inline: None };
    let element = |e: Val| Val::Ctor("Element".into(), vec![e], Map::new());
    let setop = Val::Ctor("SetOperation".into(), vec![Val::Opaque("1..4 | 8".into())], Map::new());
    let size = |inner: Val| Val::Ctor("SizeConstraint".into(), vec![inner], Map::new());
    for (what, v, want_size, want) in [
        ("(1..4)", range(1, 4), false, (1, 4)),
        ("(SIZE (1..4))", size(element(range(1, 4))), true, (1, 4)),
        ("(SIZE (1..4 | 8))", size(setop), true, (1, 8)),
    ] {
        ctx.oblige("C04.size", what, true);
        let mut env = Env::new();
        env.insert(param.clone(), Val::some(v));
        match ev.eval_fn_body(&f.block, &mut env) {
            Ok(Val::Ctor(ok, p, _)) if ok == "Ok" => match p.first() {
                Some(Val::Ctor(_, _, fl)) => {
                    let is_size = matches!(fl.get("is_size_constraint"), Some(Val::Bool(true)));
                    let num = |k: &str| match fl.get(k) { Some(Val::Ctor(s, p, _)) if s == "Some" => match p.first() { Some(Val::Int { v, .. }) => Some(*v), _ => None }, _ => None };
                    if is_size != want_size {
                        ctx.violate("C04.size", "size-flag", &f.file, f.line,
                            &format!("the constraint {} is converted with is_size_constraint = {}: a SIZE constraint is emitted as `size(..)`, a value range as `value(..)` — the wrong kind bounds the wrong quantity", what, is_size));
                    }
                    if (num("min"), num("max")) != (Some(want.0), Some(want.1)) {
                        ctx.violate("C04.size", "size-bounds", &f.file, f.line, &format!("the constraint {} is converted to the bounds {:?}..{:?}, expected {}..{}", what, num("min"), num("max"), want.0, want.1));
                    }
                }
                o => ctx.fail_closed("C04.size", &format!("[{}]: result {:?}", what, o.map(|x| x.show()))),
            },
            Ok(o) => ctx.fail_closed("C04.size", &format!("[{}]: result {}", what, o.show())),
            Err(e) => ctx.fail_closed("C04.size", &format!("[{}]: {}", what, e)),
        }
    }
}

/// C04.marker: "flagged extensible exactly when the constraint has an extension marker" starts where the parser's
/// (value, Option<ExtensionMarker>) pairs become IR: every `From<(.., Option<ExtensionMarker>)>` conversion into a constraint
/// node is evaluated with and without the marker — `extensible` is true exactly with it.
fn marker_conversions(m: &Model, ctx: &mut Ctx) {
    use std::collections::BTreeMap as Map;
    let consts = const_resolver(m);
    let hook = |_: &Evaluator, _: &str, _: &[Val]| -> Option<Result<Val, String>> { None };
    let ev = Evaluator { consts: &consts, call_hook: &hook, inline: None };
    let mut n = 0;
    for f in m.fns.iter().filter(|f| f.krate == "rasn-compiler" && f.module.starts_with("intermediate::constraints") && f.name == "from" && f.trait_.as_deref().map(|t| t.starts_with("From")).unwrap_or(false)) {
        let Some(syn::FnArg::Typed(arg)) = f.sig.inputs.first() else { continue };
        let ty = tok(&arg.ty);
        if !ty.contains("Option<ExtensionMarker>") {
            continue;
        }
        // position of the marker in the tuple
        let inner = ty.trim_start_matches('(').trim_end_matches(')');
        let mut depth = 0;
        let mut parts: Vec<String> = vec![String::new()];
        for ch in inner.chars() {
            match ch {
                '<' | '(' => { depth += 1; parts.last_mut().unwrap().push(ch) }
                '>' | ')' => { depth -= 1; parts.last_mut().unwrap().push(ch) }
                ',' if depth == 0 => parts.push(String::new()),
                c => parts.last_mut().unwrap().push(c),
            }
        }
        let Some(pos) = parts.iter().position(|p| p.trim() == "Option<ExtensionMarker>") else { continue };
        // is the result a node with an `extensible` flag?
        if !tok(&f.block).contains("extensible") {
            continue;
        }
        n += 1;
        ctx.func(&f.key);
        let pname = tok(&arg.pat);
        for marker in [false, true] {
            ctx.oblige("C04.marker", &format!("{}:{}", f.self_ty.clone().unwrap_or_default(), marker), true);
            let vals: Vec<Val> = (0..parts.len()).map(|i| if i == pos { if marker { Val::some(Val::Ctor("ExtensionMarker".into(), vec![], Map::new())) } else { Val::none() } } else if parts[i].trim().starts_with("Vec<") { Val::List(vec![]) } else { Val::Sym(format!("part{}", i)) }).collect();
            let mut env = Env::new();
            env.insert(pname.clone(), Val::Tuple(vals));
            match ev.eval_fn_body(&f.block, &mut env) {
                Ok(v) => {
                    let sh = v.show();
                    let flag = if sh.contains("extensible:true") { Some(true) } else if sh.contains("extensible:false") { Some(false) } else { None };
                    if flag != Some(marker) {
                        ctx.violate("C04.marker", &format!("conversion:{}", f.self_ty.clone().unwrap_or_default()), &f.file, f.line,
                            &format!("`impl From<{}> for {}` with{} an extension marker yields `{}`: the node is extensible exactly when the marker was written", ty, f.self_ty.clone().unwrap_or_default(), if marker { "" } else { "out" }, sh.chars().take(100).collect::<String>()));
                    }
                }
                Err(e) => ctx.fail_closed("C04.marker", &format!("[{}]: {}", f.key, e)),
            }
        }
    }
    ctx.floor("C04.marker/conversions", n, 2);
}

fn serial(m: &Model, ctx: &mut Ctx, consts: &dyn Fn(&str) -> Option<Val>) {
    let f = m.fns.iter().find(|f| f.name == "add_assign" && f.self_ty.as_deref() == Some("PerVisibleRangeConstraints"));
    let Some(f) = f else {
        ctx.fail_closed("C04.serial", "anchor not found: AddAssign for PerVisibleRangeConstraints");
        return;
    };
    ctx.func(&f.key);
    let ev = Evaluator { consts, call_hook: &crate::eval::no_hook, inline: None };
    let rhs_name = f.sig.inputs.iter().filter_map(|a| match a { syn::FnArg::Typed(t) => Some(tok(&t.pat)), _ => None }).next().unwrap_or("rhs".into());
    let mk = |lo: Bound, hi: Bound, ext: bool, size: bool| {
        let mut n = BTreeMap::new();
        n.insert("min".to_string(), lo.map(|v| Val::some(Val::int(v))).unwrap_or(Val::none()));
        n.insert("max".to_string(), hi.map(|v| Val::some(Val::int(v))).unwrap_or(Val::none()));
        n.insert("extensible".to_string(), Val::Bool(ext));
        n.insert("is_size_constraint".to_string(), Val::Bool(size));
        Val::Ctor("PerVisibleRangeConstraints".into(), vec![], n)
    };
    let bs: Vec<Bound> = vec![None, Some(1), Some(5), Some(10)];
    let mut n = 0;
    for lo1 in &bs { for hi1 in &bs { for lo2 in &bs { for hi2 in &bs { for (x1, x2) in [(false, false), (true, false), (false, true)] {
        n += 1;
        let mut env = Env::new();
        env.insert("self".into(), mk(*lo1, *hi1, x1, false));
        env.insert(rhs_name.clone(), mk(*lo2, *hi2, x2, true));
        if let Err(e) = ev.eval_fn_body(&f.block, &mut env) {
            ctx.fail_closed("C04.serial", &e);
            return;
        }
        let get = |k: &str| -> Option<Val> { match env.get("self") { Some(Val::Ctor(_, _, n)) => n.get(k).cloned(), _ => None } };
        let gb = |k: &str| -> Bound { match get(k) { Some(Val::Ctor(n, p, _)) if n == "Some" => match p.first() { Some(Val::Int { v, .. }) => Some(*v), _ => None }, _ => None } };
        let want_lo = match (lo1, lo2) { (Some(a), Some(b)) => Some(*a.max(b)), (a, None) => *a, (None, b) => *b };
        let want_hi = match (hi1, hi2) { (Some(a), Some(b)) => Some(*a.min(b)), (a, None) => *a, (None, b) => *b };
        let key = format!("({:?}..{:?} ext={}) then ({:?}..{:?} ext={})", lo1, hi1, x1, lo2, hi2, x2);
        if gb("min") != want_lo {
            ctx.violate("C04.serial", "lower", &f.file, f.line, &format!("serial constraints {} combine to lower bound {:?}, the intersection has {:?}", key, gb("min"), want_lo));
        }
        if gb("max") != want_hi {
            ctx.violate("C04.serial", "upper", &f.file, f.line, &format!("serial constraints {} combine to upper bound {:?}, the intersection has {:?}", key, gb("max"), want_hi));
        }
        if get("extensible") != Some(Val::Bool(x1 || x2)) {
            ctx.violate("C04.serial", "extensible", &f.file, f.line, &format!("serial constraints {}: extensible={:?}, expected {} (sticky)", key, get("extensible").map(|v| v.show()), x1 || x2));
        }
        if get("is_size_constraint") != Some(Val::Bool(true)) {
            ctx.violate("C04.serial", "size-flag", &f.file, f.line, "a SIZE constraint among serial constraints must keep the result a size constraint");
        }
    }}}}}
    ctx.oblige_n("C04.serial/pairs", n);
    ctx.oblige("C04.serial", "lower=max,None=identity", true);
    ctx.oblige("C04.serial", "upper=min,None=identity", true);
    ctx.oblige("C04.serial", "extensible-sticky", true);
    // unsigned default
    if let Ok(f) = m.find_fn(Some("PerVisibleRangeConstraints"), "default_unsigned", None) {
        ctx.oblige("C04.serial", "default_unsigned", true);
        let b = tok(&f.block);
        if !(b.contains("min:Some(0)") && b.contains("max:None") && b.contains("extensible:false")) {
            ctx.violate("C04.serial", "default_unsigned", &f.file, f.line, "the unsigned default must be 0..MAX, not extensible");
        }
    }
}

fn render(m: &Model, ctx: &mut Ctx, consts: &dyn Fn(&str) -> Option<Val>) {
    let Some(f) = anchor_fn(m, ctx, "C04.render", Some("Rasn"), "format_range_annotations", None) else { return };
    let bs: Vec<Bound> = vec![None, Some(0), Some(3), Some(7)];
    for lo in &bs { for hi in &bs { for ext in [false, true] { for size in [false, true] {
        if let (Some(a), Some(b)) = (lo, hi) { if a > b { continue; } }
        let key = format!("min={:?} max={:?} ext={} size={}", lo, hi, ext, size);
        ctx.oblige("C04.render", &key, true);
        let (lo2, hi2) = (*lo, *hi);
        let hook = move |_: &Evaluator, name: &str, _a: &[Val]| -> Option<Result<Val, String>> {
            match name {
                "per_visible_range_constraints" => Some(Ok(Val::Ctor("Ok".into(), vec![Val::ctor("PVRC")], BTreeMap::new()))),
                ".is_size_constraint" => Some(Ok(Val::Bool(size))),
                ".is_extensible" => Some(Ok(Val::Bool(ext))),
                ".min" => Some(Ok(lo2.map(|v| Val::some(Val::int(v))).unwrap_or(Val::none()))),
                ".max" => Some(Ok(hi2.map(|v| Val::some(Val::int(v))).unwrap_or(Val::none()))),
                _ => None,
            }
        };
        let ev = Evaluator { consts, call_hook: &hook, inline: None };
        let mut env = Env::new();
        env.insert("self".into(), Val::ctor("Rasn"));
        env.insert("signed".into(), Val::Bool(true));
        env.insert("constraints".into(), Val::List(vec![Val::ctor("c")]));
        match ev.eval_fn_body(&f.block, &mut env) {
            Ok(Val::Ctor(n, p, _)) if n == "Ok" => {
                let got = match &p[0] { Val::Sym(s) => s.replace(' ', ""), Val::Opaque(s) if s.contains("TokenStream::new") => String::new(), o => o.show() };
                let prefix = if size { "size" } else { "value" };
                let range = match (lo, hi) {
                    (Some(a), Some(b)) if a == b => format!("{}", a),
                    (Some(a), Some(b)) => format!("{}..={}", a, b),
                    (Some(a), None) => format!("{}..", a),
                    (None, Some(b)) => format!("..={}", b),
                    (None, None) => String::new(),
                };
                let default_size = size && !ext && *lo == Some(0) && hi.is_none();
                let want = if range.is_empty() || default_size { String::new() } else if ext { format!("{}(\"{}\",extensible)", prefix, range) } else { format!("{}(\"{}\")", prefix, range) };
                if got != want {
                    ctx.violate("C04.render", &format!("min={},max={},ext={},size={}", lo.is_some(), hi.is_some(), ext, size), &f.file, f.line,
                        &format!("[{}] rendered `{}`, expected `{}`", key, got, want));
                }
            }
            Ok(o) => ctx.fail_closed("C04.render", &format!("[{}]: {}", key, o.show())),
            Err(e) => ctx.fail_closed("C04.render", &format!("[{}]: {}", key, e)),
        }
    }}}}
    // fixed_size
    for ty in ["OctetString", "BitString"] {
        let Ok(g) = m.find_fn(Some(ty), "fixed_size", None) else {
            ctx.fail_closed("C04.render", &format!("anchor not found: {}::fixed_size", ty));
            continue;
        };
        ctx.func(&g.key);
        for lo in &bs { for hi in &bs { for ext in [false, true] { for size in [false, true] {
            let key = format!("{}::fixed_size min={:?} max={:?} ext={} size={}", ty, lo, hi, ext, size);
            ctx.oblige("C04.render", &key, true);
            let (lo2, hi2) = (*lo, *hi);
            let hook = move |_: &Evaluator, name: &str, _a: &[Val]| -> Option<Result<Val, String>> {
                match name {
                    "per_visible_range_constraints" => Some(Ok(Val::Ctor("Ok".into(), vec![Val::ctor("PVRC")], BTreeMap::new()))),
                    ".is_size_constraint" => Some(Ok(Val::Bool(size))),
                    ".is_extensible" => Some(Ok(Val::Bool(ext))),
                    ".min" => Some(Ok(lo2.map(|v| Val::some(Val::int(v))).unwrap_or(Val::none()))),
                    ".max" => Some(Ok(hi2.map(|v| Val::some(Val::int(v))).unwrap_or(Val::none()))),
                    _ => None,
                }
            };
            let ev = Evaluator { consts, call_hook: &hook, inline: None };
            let mut env = Env::new();
            let mut n = BTreeMap::new();
            n.insert("constraints".to_string(), Val::List(vec![]));
            env.insert("self".into(), Val::Ctor(ty.to_string(), vec![], n));
            match ev.eval_fn_body(&g.block, &mut env) {
                Ok(v) => {
                    let got = match &v { Val::Ctor(n, p, _) if n == "Some" => match p.first() { Some(Val::Int { v, .. }) => Some(*v), _ => Some(-1) }, _ => None };
                    let want = if size && !ext && lo == hi { *lo } else { None };
                    if got != want {
                        ctx.violate("C04.render", &format!("{}::fixed_size:size={},ext={},eq={}", ty, size, ext, lo == hi), &g.file, g.line,
                            &format!("[{}] fixed size {:?}, expected {:?}: Fixed{{Bit,Octet}}String<n> only for a non-extensible SIZE(n)", key, got, want));
                    }
                }
                Err(e) => ctx.fail_closed("C04.render", &format!("[{}]: {}", key, e)),
            }
        }}}}
    }
}

/// `(1..5, ...)`, `((1..5), ...)`, `(0..5 | (10..20), ...)`: the marker written after the element set makes the emitted
/// bound extensible, whatever the element set is — a single element or a set operation. The conversion
/// TryFrom<&Constraint> for PerVisibleRangeConstraints is evaluated (the element conversion and the fold answer with finite,
/// non-extensible bounds) on both shapes with and without the marker.
pub fn outer_marker(m: &Model, ctx: &mut Ctx, rule: &str) {
    use std::collections::BTreeMap as Map;
    let f = m.fns.iter().find(|f| f.name == "try_from" && f.self_ty.as_deref() == Some("PerVisibleRangeConstraints") && f.trait_.as_deref().map(|t| t.contains("&Constraint")).unwrap_or(false));
    let Some(f) = f else {
        ctx.fail_closed(rule, "anchor not found: TryFrom<&Constraint> for PerVisibleRangeConstraints");
        return;
    };
    ctx.func(&f.key);
    let consts = const_resolver(m);
    // which ends of the folded bound are finite: both, the lower one only (`5..MAX`), the upper one only (`MIN..20`)
    let ends = std::cell::Cell::new((true, true));
    let pvrc = || {
        let (lo, hi) = ends.get();
        let mut n = Map::new();
        n.insert("min".to_string(), if lo { Val::some(Val::int(0)) } else { Val::none() });
        n.insert("max".to_string(), if hi { Val::some(Val::int(20)) } else { Val::none() });
        n.insert("extensible".to_string(), Val::Bool(false));
        n.insert("is_size_constraint".to_string(), Val::Bool(false));
        Val::Ctor("PerVisibleRangeConstraints".into(), vec![], n)
    };
    let hook = |_: &Evaluator, name: &str, a: &[Val]| -> Option<Result<Val, String>> {
        match name {
            "fold_constraint_set" => Some(Ok(Val::Ctor("Ok".into(), vec![Val::some(Val::Sym("folded".into()))], Map::new()))),
            ".as_ref" | ".as_mut" | ".clone" if a.len() == 1 => Some(Ok(a[0].clone())),
            ".try_into" | "PerVisibleRangeConstraints::try_from" | "Self::try_from" | "TryFrom::try_from" => Some(Ok(Val::Ctor("Ok".into(), vec![pvrc()], Map::new()))),
            _ => None,
        }
    };
    let ev = Evaluator { consts: &consts, call_hook: &hook, inline: None };
    let p = f.sig.inputs.iter().filter_map(|a| match a { syn::FnArg::Typed(t) => Some(tok(&t.pat)), _ => None }).next().unwrap_or("value".into());
    let int = |v: i128| Val::Ctor("Integer".into(), vec![Val::int(v)], Map::new());
    let range = |lo: i128, hi: i128| {
        let mut fm = Map::new();
        fm.insert("min".to_string(), Val::some(int(lo)));
        fm.insert("max".to_string(), Val::some(int(hi)));
        fm.insert("extensible".to_string(), Val::Bool(false));
        Val::Ctor("ValueRange".into(), vec![], fm)
    };
    let element = |e: Val| Val::Ctor("Element".into(), vec![e], Map::new());
    let setop = |op: &str| {
        let mut setf = Map::new();
        setf.insert("base".to_string(), range(0, 5));
        setf.insert("operator".to_string(), Val::ctor(op));
        setf.insert("operant".to_string(), Val::Ctor("Box".into(), vec![element(range(10, 20))], Map::new()));
        Val::Ctor("SetOperation".into(), vec![Val::Ctor("SetOperation".into(), vec![], setf)], Map::new())
    };
    for (what, set, finite) in [("((0..20), ...)", element(range(0, 20)), (true, true)), ("(0..5 | (10..20), ...)", setop("Union"), (true, true)), ("((0..5) ^ (10..20), ...)", setop("Intersection"), (true, true)),
        // a bound with one open end is as extensible as any other: `((0..MAX), ...)`, `((MIN..20), ...)`
        ("((0..MAX), ...)", element(range(0, 20)), (true, false)), ("((MIN..20), ...)", element(range(0, 20)), (false, true))] {
        for marker in [true, false] {
            ends.set(finite);
            let shown = if marker { what.to_string() } else { what.replace(", ...", "") };
            ctx.oblige(rule, &format!("outer-marker:{}", shown), true);
            let mut spec = Map::new();
            spec.insert("set".to_string(), set.clone());
            spec.insert("extensible".to_string(), Val::Bool(marker));
            let c = Val::Ctor("Subtype".into(), vec![Val::Ctor("ElementSetSpecs".into(), vec![], spec)], Map::new());
            let mut env = Env::new();
            env.insert(p.clone(), c);
            match ev.eval_fn_body(&f.block, &mut env) {
                Ok(Val::Ctor(ok, q, _)) if ok == "Ok" => {
                    let flag = match q.first() { Some(Val::Ctor(_, _, fm)) => fm.get("extensible").cloned(), _ => None };
                    if flag != Some(Val::Bool(marker)) {
                        ctx.violate(rule, if marker { "outer-marker" } else { "outer-marker:invented" }, &f.file, f.line,
                            &format!("INTEGER {} is converted into bounds with extensible = {:?}: an extension marker after the element set makes the emitted bound extensible (and the Rust integer arbitrary-precision) whether the set is one element or a set operation, and only then", shown, flag.map(|v| v.show())));
                    }
                }
                Ok(o) => ctx.fail_closed(rule, &format!("[outer marker {}]: {}", shown, o.show().chars().take(120).collect::<String>())),
                Err(e) => ctx.fail_closed(rule, &format!("[outer marker {}]: {}", shown, e)),
            }
        }
    }
}

/// C04.refs: "value references in a constraint are resolved" — the linker's visit of a constraint element
/// (SubtypeElements::link_cross_reference) reaches every end point that is present: a single value, the lower end of a
/// range whether or not the upper end is MAX, the upper end whether or not the lower end is MIN.
fn endpoints(m: &Model, ctx: &mut Ctx, consts: &dyn Fn(&str) -> Option<Val>) {
    let Some(f) = m.fns.iter().find(|f| f.name == "link_cross_reference" && f.self_ty.as_deref() == Some("SubtypeElements")) else {
        ctx.fail_closed("C04.refs", "anchor not found: SubtypeElements::link_cross_reference");
        return;
    };
    ctx.func(&f.key);
    // an end point written "REF" answers the link call with Err(LINKED) so that reaching it is observable as the
    // fn's result; an end point written "SKIP" links fine
    let hook = |_: &Evaluator, name: &str, a: &[Val]| -> Option<Result<Val, String>> {
        match (name, a.first()) {
            (".link_elsewhere_declared", Some(Val::Str(s))) => Some(Ok(if s == "REF" { Val::Ctor("Err".into(), vec![Val::Str("LINKED".into())], BTreeMap::new()) } else { Val::Ctor("Ok".into(), vec![Val::Unit], BTreeMap::new()) })),
            (".as_mut", Some(v)) | (".as_ref", Some(v)) if a.len() == 1 => Some(Ok(v.clone())),
            _ => None,
        }
    };
    let ev = Evaluator { consts, call_hook: &hook, inline: None };
    let params: Vec<String> = f.sig.inputs.iter().filter_map(|a| match a { syn::FnArg::Typed(t) => Some(tok(&t.pat)), _ => None }).collect();
    let opt = |s: Option<&str>| s.map(|x| Val::some(Val::Str(x.into()))).unwrap_or(Val::none());
    let range = |lo: Option<&str>, hi: Option<&str>| {
        let mut fm = BTreeMap::new();
        fm.insert("min".to_string(), opt(lo));
        fm.insert("max".to_string(), opt(hi));
        fm.insert("extensible".to_string(), Val::Bool(false));
        Val::Ctor("ValueRange".into(), vec![], fm)
    };
    let single = {
        let mut fm = BTreeMap::new();
        fm.insert("value".to_string(), Val::Str("REF".into()));
        fm.insert("extensible".to_string(), Val::Bool(false));
        Val::Ctor("SingleValue".into(), vec![], fm)
    };
    for (what, v) in [
        ("single value", single),
        ("lower end of ref..MAX", range(Some("REF"), None)),
        ("upper end of MIN..ref", range(None, Some("REF"))),
        ("lower end of ref..n", range(Some("REF"), Some("SKIP"))),
        ("upper end of n..ref", range(Some("SKIP"), Some("REF"))),
    ] {
        ctx.oblige("C04.refs", what, true);
        let mut env = Env::new();
        env.insert("self".into(), v);
        for p in &params {
            env.insert(p.clone(), Val::Opaque(p.clone()));
        }
        match ev.eval_fn_body(&f.block, &mut env) {
            Ok(Val::Ctor(n, p, _)) if n == "Err" && p.first() == Some(&Val::Str("LINKED".into())) => {}
            Ok(o) => ctx.violate("C04.refs", &format!("endpoint-not-linked:{}", what.replace(' ', "-")), &f.file, f.line,
                &format!("link_cross_reference does not reach the {} (result {}): a value reference written there stays unresolved and the bound is silently treated as absent", what, o.show())),
            Err(e) => ctx.fail_closed("C04.refs", &format!("[{}]: {}", what, e)),
        }
    }
}

/// The `SetOperation` value the lexer builds for `E0 op1 E1 op2 E2 ..`: the production returning `SetOperation` is run
/// (SRC-G, `nomx`) on the token list, the productions returning `SubtypeElements` being leaves that yield the operands.
pub fn parser_chain(m: &Model, ev: &Evaluator, consts: &dyn Fn(&str) -> Option<Val>, ops: &[&str], operands: &[Val]) -> Result<Val, String> {
    use crate::nomx::{ret_type_name, Grammar, Tok};
    let prods: Vec<&crate::model::FnInfo> = m.fns.iter().filter(|f| f.self_ty.is_none() && f.module.starts_with("lexer") && !f.module.contains("tests") && ret_type_name(f).as_deref() == Some("SetOperation")).collect();
    if prods.len() != 1 {
        return Err(format!("{} lexer productions return a SetOperation", prods.len()));
    }
    let mut toks = vec![Tok::Leaf(0)];
    for (i, op) in ops.iter().enumerate() {
        toks.push(Tok::Word((*op).to_string()));
        toks.push(Tok::Leaf(i + 1));
    }
    let g = Grammar { m, ev, leaves: vec!["SubtypeElements"], leaf_vals: operands.to_vec(), consts };
    match g.parse_production(&prods[0].name, &toks, 0, 0)? {
        Some((v, p)) if p == toks.len() => Ok(v),
        Some((_, p)) => Err(format!("`{}` stops after {} of {} tokens of `E0 {}`", prods[0].name, p, toks.len(), ops.join(" E "))),
        None => Err(format!("`{}` does not accept `E0 {} E`", prods[0].name, ops.join(" E "))),
    }
}

/// C04.prec: chains of three and four operands with *mixed* operators. X.680 (clause 50: Unions of Intersections of
/// Elements [EXCEPT Elements]) gives EXCEPT precedence over intersection and intersection over union; X.691 10.3.21 ignores
/// an EXCEPT together with the elements that follow it. The tree is the one the lexer's own production builds (SRC-G), the
/// bound the one `fold_constraint_set` computes for that tree — the composition the generators see — compared with the
/// hull of the union of the intersections.
pub fn precedence(m: &Model, ctx: &mut Ctx, rule: &str, four: bool) {
    let consts = const_resolver(m);
    let inl = inline_all(m, &["ASN1Value", "SetOperation", "SubtypeElements", "ElementOrSetOperation"]);
    // the helpers of the folding that take a set operation and no closure are pure functions of plain data: their results are
    // memoised (the chains share most of their sub-folds)
    let pure: Vec<String> = m.fns.iter().filter(|f| f.self_ty.is_none() && f.module.contains("per_visible") && !f.module.contains("tests") && f.name != "fold_constraint_set"
        && f.sig.inputs.iter().any(|a| matches!(a, syn::FnArg::Typed(t) if tok(&t.ty).contains("SetOperation")))
        && !f.sig.inputs.iter().any(|a| matches!(a, syn::FnArg::Typed(t) if tok(&t.ty).contains("Fn") || tok(&t.ty).contains("& mut")))).map(|f| f.name.clone()).collect();
    let memo: std::cell::RefCell<BTreeMap<String, Result<Val, String>>> = Default::default();
    let hook = |ev: &Evaluator, name: &str, a: &[Val]| -> Option<Result<Val, String>> {
        if name == ".per_visible" {
            return Some(Ok(Val::Bool(true)));
        }
        if pure.iter().any(|p| p == name) {
            let (params, body) = inl.get(name)?;
            let key = format!("{}({})", name, a.iter().map(|v| v.show()).collect::<Vec<_>>().join(";"));
            if let Some(r) = memo.borrow().get(&key) {
                return Some(r.clone());
            }
            let mut e2 = Env::new();
            for (p, v) in params.iter().zip(a.iter()) {
                e2.insert(p.clone(), v.clone());
            }
            let r = ev.eval_fn_body(body, &mut e2);
            memo.borrow_mut().insert(key, r.clone());
            return Some(r);
        }
        None
    };
    let ev = Evaluator { consts: &consts, call_hook: &hook, inline: Some(&inl) };
    let Ok(fold) = m.find_fn(None, "fold_constraint_set", Some("per_visible")) else {
        ctx.fail_closed(rule, "anchor not found: fold_constraint_set");
        return;
    };
    let r = |lo: Bound, hi: Bound| Elem { lo, hi, single: false, ext: false };
    let s = |v: i128| Elem { lo: Some(v), hi: Some(v), single: true, ext: false };
    let thorough = ctx.tier == "thorough";
    let elems: Vec<Elem> = if thorough {
        vec![s(5), s(20), s(30), r(None, Some(5)), r(Some(1), Some(5)), r(Some(1), Some(10)), r(Some(3), Some(10)), r(Some(5), Some(20)), r(Some(10), Some(20)), r(Some(10), None), Elem { lo: Some(1), hi: Some(10), single: false, ext: true }]
    } else {
        vec![s(5), s(20), r(None, Some(5)), r(Some(3), Some(10)), r(Some(10), None)]
    };
    let words = [("|", "Union"), ("^", "Intersection"), ("EXCEPT", "Except"), ("UNION", "Union"), ("INTERSECTION", "Intersection")];
    // the X.680 / X.691 oracle
    let oracle = |es: &[&Elem], ops: &[&str]| -> Option<(Bound, Bound, bool)> {
        let mut groups: Vec<(Bound, Bound)> = vec![(es[0].lo, es[0].hi)];
        let mut ext = es[0].ext;
        for (op, e) in ops.iter().zip(es.iter().skip(1)) {
            match *op {
                "Except" => {}
                "Intersection" => {
                    ext |= e.ext;
                    let g = groups.last_mut().unwrap();
                    g.0 = match (g.0, e.lo) { (Some(x), Some(y)) => Some(x.max(y)), (x, None) => x, (None, y) => y };
                    g.1 = match (g.1, e.hi) { (Some(x), Some(y)) => Some(x.min(y)), (x, None) => x, (None, y) => y };
                }
                _ => {
                    ext |= e.ext;
                    groups.push((e.lo, e.hi));
                }
            }
        }
        if groups.iter().any(|g| matches!(g, (Some(l), Some(h)) if l > h)) {
            return None; // an empty intersection: an error is acceptable
        }
        let lo = groups.iter().map(|g| g.0).fold(Some(i128::MAX), |a, b| match (a, b) { (Some(x), Some(y)) => Some(x.min(y)), _ => None });
        let hi = groups.iter().map(|g| g.1).fold(Some(i128::MIN), |a, b| match (a, b) { (Some(x), Some(y)) => Some(x.max(y)), _ => None });
        Some((lo, hi, ext))
    };
    let mut n = 0usize;
    let mut shapes_reported: std::collections::BTreeSet<String> = Default::default();
    let mut run_chain = |ctx: &mut Ctx, es: Vec<&Elem>, ws: Vec<(&str, &str)>| {
        let ops: Vec<&str> = ws.iter().map(|w| w.1).collect();
        let shape = ops.join("-");
        if shapes_reported.contains(&shape) {
            return;
        }
        let Some((want_lo, want_hi, want_ext)) = oracle(&es, &ops) else { return };
        n += 1;
        let text = format!("({})", es.iter().enumerate().map(|(i, e)| if i == 0 { e.show() } else { format!("{} {}", ws[i - 1].0, e.show()) }).collect::<Vec<_>>().join(" "));
        let vals: Vec<Val> = es.iter().map(|e| e.to_val()).collect();
        let tree = match parser_chain(m, &ev, &consts, &ws.iter().map(|w| w.0).collect::<Vec<_>>(), &vals) {
            Ok(t) => t,
            Err(e) => {
                ctx.fail_closed(rule, &format!("[tree of {}]: {}", text, e));
                shapes_reported.insert(shape);
                return;
            }
        };
        let mut env = Env::new();
        env.insert("set".into(), tree);
        env.insert("char_set".into(), Val::none());
        env.insert("range_constraint".into(), Val::Bool(true));
        let got = match ev.eval_fn_body(&fold.block, &mut env) {
            Ok(Val::Ctor(k, p, _)) if k == "Ok" => bounds_of(&p[0]),
            Ok(Val::Ctor(k, _, _)) if k == "Err" => Err("Err(..)".to_string()),
            Ok(o) => Err(o.show()),
            Err(e) => {
                ctx.fail_closed(rule, &format!("[{}]: {}", text, e));
                shapes_reported.insert(shape);
                return;
            }
        };
        let b2 = |x: Bound, d: &str| x.map(|v| v.to_string()).unwrap_or(d.to_string());
        match got {
            Ok((lo, hi, ext)) => {
                let lo_ok = match (lo, want_lo) { (None, _) => true, (Some(_), None) => false, (Some(g), Some(w)) => g <= w };
                let hi_ok = match (hi, want_hi) { (None, _) => true, (Some(_), None) => false, (Some(g), Some(w)) => g >= w };
                if !lo_ok || !hi_ok {
                    ctx.violate(rule, &format!("{}:excludes-permitted-values", shape), &fold.file, fold.line,
                        &format!("{} is emitted as {}..{}; by X.680 precedence (EXCEPT over intersection over union; X.691 10.3.21 drops the EXCEPT part) the constraint permits {}..{}: permitted values are excluded from the bound (and from the integer type chosen from it)", text, b2(lo, "MIN"), b2(hi, "MAX"), b2(want_lo, "MIN"), b2(want_hi, "MAX")));
                    shapes_reported.insert(shape);
                } else if (lo, hi) != (want_lo, want_hi) {
                    ctx.violate(rule, &format!("{}:not-tight", shape), &fold.file, fold.line,
                        &format!("{} is emitted as {}..{}; the PER-visible effective constraint is {}..{}", text, b2(lo, "MIN"), b2(hi, "MAX"), b2(want_lo, "MIN"), b2(want_hi, "MAX")));
                    shapes_reported.insert(shape);
                } else if ext != want_ext {
                    ctx.violate(rule, &format!("{}:extensible", shape), &fold.file, fold.line, &format!("{} is emitted extensible={}, expected {}", text, ext, want_ext));
                    shapes_reported.insert(shape);
                }
            }
            Err(e) => {
                ctx.violate(rule, &format!("{}:no-bound", shape), &fold.file, fold.line, &format!("{} does not fold to a bound ({}) although every part is PER-visible and no intersection is empty", text, e));
                shapes_reported.insert(shape);
            }
        }
    };
    // three operands, every pair of operators (both spellings of the marks are accepted by the lexer: checked on one pair each)
    for w1 in &words[..3] {
        for w2 in &words[..3] {
            ctx.oblige(rule, &format!("{}-{}", w1.1, w2.1), true);
            for a in &elems {
                for b in &elems {
                    for c in &elems {
                        run_chain(ctx, vec![a, b, c], vec![*w1, *w2]);
                    }
                }
            }
        }
    }
    ctx.oblige(rule, "word-marks", true);
    run_chain(ctx, vec![&elems[2], &elems[3], &elems[1]], vec![words[4], words[3]]);
    // four operands: a smaller alphabet; the quick tier takes the operator triples that mix precedence levels
    if four {
    let small: Vec<&Elem> = if thorough { elems.iter().filter(|e| !e.single || e.lo == Some(20)).take(5).collect() } else { vec![&elems[1], &elems[2], &elems[3]] };
    for w1 in &words[..3] {
        for w2 in &words[..3] {
            for w3 in &words[..3] {
                if !thorough && w1.1 == w2.1 && w2.1 == w3.1 {
                    continue;
                }
                ctx.oblige(rule, &format!("{}-{}-{}", w1.1, w2.1, w3.1), true);
                for a in &small {
                    for b in &small {
                        for c in &small {
                            for d in &small {
                                run_chain(ctx, vec![*a, *b, *c, *d], vec![*w1, *w2, *w3]);
                            }
                        }
                    }
                }
            }
        }
    }
    }
    ctx.oblige_n(&format!("{}/chains", rule), n);
    ctx.floor(&format!("{}/chains", rule), n, if four { 1000 } else { 500 });
}


/// C04.element: the bound attached to the *element* of a SEQUENCE OF / SET OF. An element written as a builtin type with a
/// constraint gets a wrapper item that carries the annotation (`AnonymousL(pub u8)` with value("0..=7")). generate_sequence_or_set_of
/// is evaluated with an element that is a *type reference carrying a constraint of its own* (`SEQUENCE OF Plain (0..7)`,
/// `SET OF Str (SIZE (2))`): the constraint must reach a wrapper (generate_type) or an annotation — an element type rendered as
/// the bare referenced type has lost it, and the PER encoding of the list differs from the one the ASN.1 type has.
fn element_constraints(m: &Model, ctx: &mut Ctx) {
    let rule = "C04.element";
    let Some(f) = m.fns.iter().find(|f| f.name == "generate_sequence_or_set_of" && f.self_ty.as_deref() == Some("Rasn")) else {
        ctx.fail_closed(rule, "anchor not found: Rasn::generate_sequence_or_set_of");
        return;
    };
    let consts = const_resolver(m);
    let seen = std::cell::RefCell::new(Vec::<String>::new());
    let okv = |v: Val| Val::Ctor("Ok".into(), vec![v], BTreeMap::new());
    let hook = |_: &Evaluator, name: &str, a: &[Val]| -> Option<Result<Val, String>> {
        match name {
            ".generate_type" => { seen.borrow_mut().push(a.get(1).map(|v| v.show()).unwrap_or_default()); Some(Ok(okv(Val::Sym("<ITEM>".into())))) }
            ".format_range_annotations" | ".format_alphabet_annotations" => { seen.borrow_mut().push(a.get(2).map(|v| v.show()).unwrap_or_default()); Some(Ok(okv(Val::Sym("<RANGE>".into())))) }
            ".to_rust_title_case" | ".to_rust_qualified_type" => Some(Ok(Val::Sym(a.last().map(|v| match v { Val::Str(s) | Val::Sym(s) => s.clone(), o => o.show() }).unwrap_or_default()))),
            ".format_tag" | ".format_identifier_annotation" | ".format_comments" => Some(Ok(Val::Sym(String::new()))),
            ".join_annotations" => Some(Ok(okv(Val::Sym("<ANNOTATIONS>".into())))),
            "sequence_or_set_of_template" => Some(Ok(Val::Sym(format!("<LIST item={} member={}>", a.get(3).map(|v| v.show()).unwrap_or_default(), a.get(4).map(|v| v.show()).unwrap_or_default())))),
            ".to_string" | ".clone" | ".to_token_stream" | ".unwrap_or_default" | ".as_ref" | ".as_deref" if a.len() == 1 => Some(Ok(match &a[0] { Val::Sym(s) => Val::Str(s.clone()), Val::Ctor(n, p, _) if n == "Some" => p.first().cloned().unwrap_or(Val::Unit), Val::Ctor(n, _, _) if n == "None" && name == ".unwrap_or_default" => Val::Sym(String::new()), o => o.clone() })),
            _ => None,
        }
    };
    let ev = Evaluator { consts: &consts, call_hook: &hook, inline: None };
    let named = |n: &str, fields: Vec<(&str, Val)>| Val::Ctor(n.to_string(), vec![], fields.into_iter().map(|(k, v)| (k.to_string(), v)).collect::<BTreeMap<_, _>>());
    let param = f.sig.inputs.iter().filter_map(|a| match a { syn::FnArg::Typed(t) => Some(tok(&t.pat)), _ => None }).next().unwrap_or("tld".into());
    for (label, kind, constrained) in [("SEQUENCE OF Plain (0..7)", "SequenceOf", true), ("SET OF Plain (0..7)", "SetOf", true), ("SEQUENCE OF Plain", "SequenceOf", false)] {
        ctx.oblige(rule, label, true);
        seen.borrow_mut().clear();
        let marker = Val::Sym("ELEMENT-CONSTRAINT-0..7".into());
        let element = Val::Ctor("ElsewhereDeclaredType".into(), vec![named("DeclarationElsewhere", vec![("identifier", Val::Str("Plain".into())), ("module", Val::none()), ("parent", Val::none()), ("constraints", Val::List(if constrained { vec![marker.clone()] } else { vec![] }))])], BTreeMap::new());
        let list = Val::Ctor(kind.into(), vec![named("SequenceOrSetOf", vec![("element_type", element), ("element_tag", Val::none()), ("constraints", Val::List(vec![])), ("is_recursive", Val::Bool(false))])], BTreeMap::new());
        let tld = named("ToplevelTypeDefinition", vec![("name", Val::Str("L".into())), ("comments", Val::Str(String::new())), ("tag", Val::none()), ("ty", list), ("parameterization", Val::none()), ("module_header", Val::none())]);
        let mut env = Env::new();
        env.insert("self".into(), Val::ctor("Rasn"));
        env.insert(param.clone(), tld);
        match ev.eval_fn_body(&f.block, &mut env) {
            Ok(_) => {
                let reached = seen.borrow().iter().any(|s| s.contains("ELEMENT-CONSTRAINT-0..7"));
                if constrained && !reached {
                    ctx.violate(rule, "constrained-reference-element:constraint-dropped", &f.file, f.line,
                        &format!("`L ::= {}`: the element's own constraint reaches neither a wrapper item nor an annotation — the list is declared over the bare referenced type (`SequenceOf<Plain>`), the bound (0..7) is gone without a warning, and the PER encoding of the elements is the unconstrained one (a builtin element, `SEQUENCE OF INTEGER (0..7)`, gets `AnonymousL(pub u8)` with value(\"0..=7\"))", label));
                    break;
                }
            }
            Err(e) => { ctx.fail_closed(rule, &format!("[{}]: {}", label, e)); break }
        }
    }
}


/// C04.open — X.680 51.4: `LowerEndpoint ::= LowerEndValue | LowerEndValue "<"`, `UpperEndpoint ::= UpperEndValue | "<"
/// UpperEndValue`. In every production of the constraint lexer that parses `lo .. hi`, the optional terminal behind the lower
/// end value and the one in front of the upper end value is `<` (the constant is resolved to its character); and the
/// production that builds the ValueRange must not throw the terminal away: `(0..<5)` permits 0..4, a bound of 0..=5 is not
/// the effective constraint.
fn open_ends(m: &Model, ctx: &mut Ctx) {
    let rule = "C04.open";
    let consts = const_resolver(m);
    let char_of = |e: &syn::Expr| -> Option<(String, Option<char>)> {
        // the X of the first `char(X)` inside an `opt(..)` of the expression
        struct F { out: Option<syn::Expr> }
        impl crate::model::DeepCb for F {
            fn expr(&mut self, e: &syn::Expr) {
                if self.out.is_some() { return; }
                if let syn::Expr::Call(c) = e {
                    if crate::model::callee_name(c).as_deref() == Some("char") && c.args.len() == 1 {
                        self.out = Some(c.args[0].clone());
                    }
                }
            }
        }
        if !tok(e).contains("opt(char(") {
            return None;
        }
        let mut f = F { out: None };
        crate::model::deep_walk_expr(e, &mut f);
        let x = f.out?;
        let name = tok(&x);
        let ch = match consts(&name) { Some(Val::Char(c)) => Some(c), _ => match &x { syn::Expr::Lit(l) => match &l.lit { syn::Lit::Char(c) => Some(c.value()), _ => None }, _ => None } };
        Some((name, ch))
    };
    let mut sites = 0;
    for f in m.fns.iter().filter(|f| f.krate == "rasn-compiler" && f.module.starts_with("lexer") && !f.module.contains("tests") && tok(&f.block).contains("range_seperator")) {
        let mut dropped = false;
        for c in crate::model::calls_in(&f.block) {
            let name = crate::model::callee_name(&c).unwrap_or_default();
            if c.args.len() != 2 {
                continue;
            }
            let (a0, a1) = (tok(&c.args[0]), tok(&c.args[1]));
            // terminated(<lower end value>, opt(char(X)))
            let lower = name == "terminated" && a0.contains("MIN") && !a0.contains("range_seperator") && a1.contains("opt(char(") && !a1.contains("range_seperator");
            // preceded(opt(char(X)), <upper end value>)
            let upper = name == "preceded" && a1.contains("MAX") && a0.contains("opt(char(") && !a0.contains("range_seperator");
            if !(lower || upper) {
                continue;
            }
            let which = if lower { "lower" } else { "upper" };
            let Some((cname, ch)) = char_of(if lower { &c.args[1] } else { &c.args[0] }) else { continue };
            sites += 1;
            ctx.oblige(rule, &format!("{}:{}-end-terminal", f.name, which), true);
            match ch {
                Some('<') => {}
                Some(o) => ctx.violate(rule, &format!("{}-end-terminal:{}", which, f.name), &f.file, span_line(&c),
                    &format!("`{}` accepts `{}` ({}) {} of a value range: X.680 51.4 writes an open end as `<` on either side (`1<..5`, `1..<5`); the legal `({})` is a syntax error and the illegal `({})` is accepted", f.name, o, cname,
                        if lower { "behind the lower end value" } else { "in front of the upper end value" }, if lower { "1<..5" } else { "1..<5" }, if lower { format!("1{}..5", o) } else { format!("1..{}5", o) })),
                None => ctx.fail_closed(rule, &format!("[{}]: the terminal `{}` of the {} end point is not a character constant", f.name, cname, which)),
            }
            dropped = true;
        }
        // the production that builds the range: does the `<` reach the value it builds?
        if dropped && tok(&f.block).contains("ValueRange{") {
            ctx.oblige(rule, &format!("{}:exclusive-end-kept", f.name), true);
            ctx.violate(rule, &format!("exclusive-end-dropped:{}", f.name), &f.file, f.line,
                &format!("`{}` parses the `<` of an open end point on the discarded side of terminated / preceded: `INTEGER (0..<5)` and `INTEGER (0..5)` build the same ValueRange, and the emitted bound value(\"0..=5\") permits 5, which the constraint excludes", f.name));
        }
    }
    ctx.floor("C04.open/end-point-terminals", sites, 4);
}


/// C04.sizemarker — `SIZE ((1..5), ...)`, `SIZE (1..5 | 7, ...)`: the operand of SIZE is a whole constraint with its own
/// extension marker; the conversion that turns it into the SIZE element (TryFrom<Constraint> for SubtypeElements) keeps the
/// element set — the marker has to survive in it (on an element of the set: the fold takes the disjunction), and must not
/// appear when it was not written.
fn size_marker(m: &Model, ctx: &mut Ctx) {
    use std::collections::BTreeMap as Map;
    let rule = "C04.sizemarker";
    let f = m.fns.iter().find(|f| f.name == "try_from" && f.self_ty.as_deref() == Some("SubtypeElements") && f.trait_.as_deref().map(|t| t.contains("Constraint")).unwrap_or(false));
    let Some(f) = f else {
        ctx.fail_closed(rule, "anchor not found: TryFrom<Constraint> for SubtypeElements");
        return;
    };
    ctx.func(&f.key);
    let consts = const_resolver(m);
    let inl = inline_all(m, &["ElementOrSetOperation", "SubtypeElements", "ElementSetSpecs", "SetOperation"]);
    let hook = |_: &Evaluator, name: &str, a: &[Val]| -> Option<Result<Val, String>> {
        match name {
            "Box::new" if a.len() == 1 => Some(Ok(Val::Ctor("Box".into(), vec![a[0].clone()], Map::new()))),
            ".as_mut" | ".as_ref" if a.len() == 1 => Some(Ok(a[0].clone())),
            _ => None,
        }
    };
    let ev = Evaluator { consts: &consts, call_hook: &hook, inline: Some(&inl) };
    let int = |v: i128| Val::Ctor("Integer".into(), vec![Val::int(v)], Map::new());
    let range = |lo: i128, hi: i128| {
        let mut fm = Map::new();
        fm.insert("min".to_string(), Val::some(int(lo)));
        fm.insert("max".to_string(), Val::some(int(hi)));
        fm.insert("extensible".to_string(), Val::Bool(false));
        Val::Ctor("ValueRange".into(), vec![], fm)
    };
    let single = |v: i128| {
        let mut fm = Map::new();
        fm.insert("value".to_string(), int(v));
        fm.insert("extensible".to_string(), Val::Bool(false));
        Val::Ctor("SingleValue".into(), vec![], fm)
    };
    let element = |e: Val| Val::Ctor("Element".into(), vec![e], Map::new());
    let setop = |base: Val, operant: Val| {
        let mut setf = Map::new();
        setf.insert("base".to_string(), base);
        setf.insert("operator".to_string(), Val::ctor("Union"));
        setf.insert("operant".to_string(), Val::Ctor("Box".into(), vec![element(operant)], Map::new()));
        Val::Ctor("SetOperation".into(), vec![Val::Ctor("SetOperation".into(), vec![], setf)], Map::new())
    };
    fn any_ext(v: &Val) -> bool {
        match v {
            Val::Ctor(_, p, f) => f.get("extensible") == Some(&Val::Bool(true)) || p.iter().any(any_ext) || f.values().any(any_ext),
            Val::List(l) | Val::Tuple(l) => l.iter().any(any_ext),
            _ => false,
        }
    }
    let p = f.sig.inputs.iter().filter_map(|a| match a { syn::FnArg::Typed(t) => Some(tok(&t.pat).replace("mut ", "")), _ => None }).next().unwrap_or("value".into());
    for (what, set) in [("SIZE ((1..5), ...)", element(range(1, 5))), ("SIZE ((4), ...)", element(single(4))), ("SIZE (1..5 | 7, ...)", setop(range(1, 5), single(7)))] {
        for marker in [true, false] {
            let shown = if marker { what.to_string() } else { what.replace(", ...", "") };
            ctx.oblige(rule, &shown, true);
            let mut spec = Map::new();
            spec.insert("set".to_string(), set.clone());
            spec.insert("extensible".to_string(), Val::Bool(marker));
            let c = Val::Ctor("Subtype".into(), vec![Val::Ctor("ElementSetSpecs".into(), vec![], spec)], Map::new());
            let mut env = Env::new();
            env.insert(p.clone(), c);
            match ev.eval_fn_body(&f.block, &mut env) {
                Ok(Val::Ctor(ok, q, _)) if ok == "Ok" => {
                    let got = q.first().map(any_ext).unwrap_or(false);
                    if got != marker {
                        ctx.violate(rule, if marker { "marker-lost" } else { "marker-invented" }, &f.file, f.line,
                            &format!("{} becomes {} — {}: the emitted size bound is flagged extensible exactly when the constraint carries an extension marker", shown, q.first().map(|v| v.show()).unwrap_or_default().chars().take(160).collect::<String>(), if marker { "the extension marker of the operand is gone" } else { "an extension marker appears that was not written" }));
                    }
                }
                Ok(o) => ctx.fail_closed(rule, &format!("[{}]: {}", shown, o.show().chars().take(120).collect::<String>())),
                Err(e) => ctx.fail_closed(rule, &format!("[{}]: {}", shown, e)),
            }
        }
    }
}


/// `INTEGER (INCLUDES E, ...)` / `INTEGER (E, ...)`: the marker written behind a contained subtype makes the bound extensible
/// (and the Rust integer arbitrary-precision: both type selectors come through this conversion). The conversion
/// TryFrom<Option<&SubtypeElements>> for PerVisibleRangeConstraints is evaluated on a contained INTEGER subtype whose own
/// bound is 0..300, not extensible, with and without the marker.
pub fn contained_marker(m: &Model, ctx: &mut Ctx, rule: &str) {
    use std::collections::BTreeMap as Map;
    let Some(f) = m.fns.iter().find(|f| f.name == "try_from" && f.self_ty.as_deref() == Some("PerVisibleRangeConstraints") && f.sig.inputs.iter().any(|a| tok(a).contains("Option<&SubtypeElements>"))) else {
        ctx.fail_closed(rule, "anchor not found: TryFrom<Option<&SubtypeElements>> for PerVisibleRangeConstraints");
        return;
    };
    ctx.func(&f.key);
    let consts = const_resolver(m);
    let pvrc = || {
        let mut n = Map::new();
        n.insert("min".to_string(), Val::some(Val::int(0)));
        n.insert("max".to_string(), Val::some(Val::int(300)));
        n.insert("extensible".to_string(), Val::Bool(false));
        n.insert("is_size_constraint".to_string(), Val::Bool(false));
        Val::Ctor("PerVisibleRangeConstraints".into(), vec![], n)
    };
    let hook = |_: &Evaluator, name: &str, a: &[Val]| -> Option<Result<Val, String>> {
        match name {
            "per_visible_range_constraints" => Some(Ok(Val::Ctor("Ok".into(), vec![pvrc()], Map::new()))),
            ".constraints" if a.len() == 1 => Some(Ok(Val::List(vec![Val::Sym("0..300".into())]))),
            ".as_ref" | ".clone" if a.len() == 1 => Some(Ok(a[0].clone())),
            _ => None,
        }
    };
    let ev = Evaluator { consts: &consts, call_hook: &hook, inline: None };
    let p = f.sig.inputs.iter().filter_map(|a| match a { syn::FnArg::Typed(t) => Some(tok(&t.pat)), _ => None }).next().unwrap_or("value".into());
    for marker in [true, false] {
        let shown = if marker { "INTEGER (INCLUDES E, ...)" } else { "INTEGER (INCLUDES E)" };
        ctx.oblige(rule, &format!("contained-subtype-marker:{}", marker), true);
        let mut cs = Map::new();
        cs.insert("subtype".to_string(), Val::Ctor("Integer".into(), vec![Val::Opaque("integer".into())], Map::new()));
        cs.insert("extensible".to_string(), Val::Bool(marker));
        let mut env = Env::new();
        env.insert(p.clone(), Val::some(Val::Ctor("ContainedSubtype".into(), vec![], cs)));
        match ev.eval_fn_body(&f.block, &mut env) {
            Ok(Val::Ctor(ok, q, _)) if ok == "Ok" => {
                let flag = match q.first() { Some(Val::Ctor(_, _, fm)) => fm.get("extensible").cloned(), _ => None };
                if flag != Some(Val::Bool(marker)) {
                    ctx.violate(rule, if marker { "contained-subtype-marker" } else { "contained-subtype-marker:invented" }, &f.file, f.line,
                        &format!("{} with E ::= INTEGER (0..300) is converted into bounds with extensible = {:?}: the marker behind a contained subtype makes the constraint extensible — `A ::= INTEGER (INCLUDES E, ...)` is otherwise annotated value(\"0..=300\") and declared u16", shown, flag.map(|v| v.show())));
                }
            }
            Ok(o) => ctx.fail_closed(rule, &format!("[{}]: {}", shown, o.show().chars().take(120).collect::<String>())),
            Err(e) => ctx.fail_closed(rule, &format!("[{}]: {}", shown, e)),
        }
    }
}
