//! C19 — backend options change only what they document.
use crate::model::{self, tok, FnInfo, Model};
use crate::quotex;
use crate::report::Ctx;
use crate::rules::util::*;
use serde_json::{json, Value};
use std::collections::{BTreeMap, BTreeSet};

/// The Rust type format_member_or_option declares for a component / alternative (`member`: a SequenceOrSetMember or
/// ChoiceOption value), with constraints_and_type_name and needs_unnesting inlined and the leaf renderers symbolic:
/// `Inner<name>` for a hoisted inner type, `Ref<T>` for a type reference, `Box<..>` where boxed.
pub fn declared_type(m: &Model, member: crate::eval::Val) -> Result<String, String> {
    use crate::eval::{Env, Evaluator, Val};
    let fmo = m.fns.iter().find(|f| f.name == "format_member_or_option" && f.self_ty.as_deref() == Some("Rasn")).ok_or("anchor not found: Rasn::format_member_or_option")?;
    let consts = const_resolver(m);
    let okv = |v: Val| Val::Ctor("Ok".into(), vec![v], BTreeMap::new());
    let sym = |v: &Val| match v { Val::Sym(s) | Val::Str(s) => s.clone(), o => o.show() };
    let hook = |_: &Evaluator, name: &str, a: &[Val]| -> Option<Result<Val, String>> {
        let field = |k: &str| match a.first() { Some(Val::Ctor(_, _, f)) => f.get(k).cloned(), _ => None };
        let is_member = matches!(a.first(), Some(Val::Ctor(k, _, _)) if k == "ChoiceOption" || k == "SequenceOrSetMember");
        match name {
            ".ty" | ".name" | ".is_recursive" | ".tag" if a.len() == 1 && is_member => field(&name[1..]).map(Ok),
            ".constraints" if a.len() == 1 => match a.first() {
                Some(Val::Ctor(_, _, _)) if is_member => field("constraints").map(Ok),
                Some(Val::Ctor(_, p, _)) => Some(Ok(match p.first() { Some(Val::Ctor(_, _, f)) => f.get("constraints").cloned().unwrap_or(Val::List(vec![])), _ => Val::List(vec![]) })),
                _ => None,
            },
            ".inner_name" => Some(Ok(Val::Sym(format!("Inner<{}>", a.get(1).map(sym).unwrap_or_default())))),
            "boxed_type" => Some(Ok(Val::Sym(format!("Box<{}>", a.first().map(sym).unwrap_or_default())))),
            ".to_rust_qualified_type" => Some(Ok(Val::Sym(format!("Ref<{}>", a.get(2).map(sym).unwrap_or_default())))),
            ".format_range_annotations" | ".format_alphabet_annotations" | ".join_annotations" => Some(Ok(okv(Val::Sym(String::new())))),
            ".format_tag" | ".format_identifier_annotation" => Some(Ok(Val::Sym(String::new()))),
            ".int_type_token" => Some(Ok(Val::Sym("INT".into()))),
            "per_visible_range_constraints" => Some(Ok(okv(Val::Opaque("per".into())))),
            ".min" | ".max" | ".is_extensible" if matches!(a.first(), Some(Val::Opaque(s)) if s == "per") => Some(Ok(Val::none())),
            ".to_token_stream" | ".to_owned" | ".clone" | ".as_ref" if a.len() == 1 => Some(Ok(a[0].clone())),
            ".to_string" if a.len() == 1 => Some(Ok(match &a[0] { Val::Sym(s) => Val::Str(s.clone()), o => o.clone() })),
            _ => None,
        }
    };
    let mut inl = inline_all(m, &["Rasn"]);
    inl.retain(|k, _| [".constraints_and_type_name", "needs_unnesting"].contains(&k.as_str()));
    let ev = Evaluator { consts: &consts, call_hook: &hook, inline: Some(&inl) };
    let fparams: Vec<String> = fmo.sig.inputs.iter().filter_map(|a| match a { syn::FnArg::Typed(t) => Some(tok(&t.pat)), _ => None }).collect();
    if fparams.len() < 5 {
        return Err("format_member_or_option: expected five parameters".into());
    }
    let mut env = Env::new();
    env.insert("self".into(), Val::ctor("Rasn"));
    env.insert(fparams[0].clone(), member);
    env.insert(fparams[1].clone(), Val::Str("Name".into()));
    env.insert(fparams[2].clone(), Val::Sym("alt".into()));
    env.insert(fparams[3].clone(), Val::Sym(String::new()));
    env.insert(fparams[4].clone(), Val::none());
    match ev.eval_fn_body(&fmo.block, &mut env)? {
        Val::Ctor(ok, p, _) if ok == "Ok" => match p.first() { Some(Val::Ctor(_, _, fl)) => fl.get("formatted_type_name").map(sym).ok_or_else(|| "no formatted_type_name".to_string()), _ => Err("unexpected result".into()) },
        o => Err(o.show().chars().take(100).collect()),
    }
}

/// C19.payload: `impl From<T> for Choice { Self::alt(value) }` type-checks only when T is the type the variant `alt` is
/// declared with. The variant's type is what format_member_or_option renders for the alternative (a hoisted inner type for
/// anonymous SEQUENCE / CHOICE / ENUMERATED alternatives and for lists of constrained or anonymous elements, boxed when
/// recursive); the type of the From impl is whatever the generate_from_impls block of generate_choice hands to the template.
/// Both are evaluated (the helpers they call inlined) for alternatives of every shape and compared.
pub fn from_payload(m: &Model, ctx: &mut Ctx, rule: &str) {
    use crate::eval::{new_map, Env, Evaluator, Val};
    let Some(f) = anchor_fn(m, ctx, rule, Some("Rasn"), "generate_choice", None) else { return };
    let Some(fmo) = anchor_fn(m, ctx, rule, Some("Rasn"), "format_member_or_option", None) else { return };
    struct F { out: Vec<syn::ExprIf> }
    impl model::DeepCb for F {
        fn expr(&mut self, e: &syn::Expr) {
            if let syn::Expr::If(i) = e {
                if tok(&i.cond).contains("generate_from_impls") {
                    self.out.push(i.clone());
                }
            }
        }
    }
    let mut c = F { out: vec![] };
    model::deep_walk_block(&f.block, &mut c);
    let Some(iff) = c.out.first().cloned() else {
        ctx.fail_closed(rule, "generate_choice: no block guarded by config.generate_from_impls");
        return;
    };
    let consts = const_resolver(m);
    let okv = |v: Val| Val::Ctor("Ok".into(), vec![v], BTreeMap::new());
    let sym = |v: &Val| match v { Val::Sym(s) | Val::Str(s) => s.clone(), o => o.show() };
    let log = std::cell::RefCell::new(Vec::<String>::new());
    let hook = |_: &Evaluator, name: &str, a: &[Val]| -> Option<Result<Val, String>> {
        let field = |k: &str| match a.first() { Some(Val::Ctor(_, _, f)) => f.get(k).cloned(), _ => None };
        match name {
            "BTreeMap::new" | "HashMap::new" | "BTreeMap::default" | "HashMap::default" => Some(Ok(new_map())),
            ".ty" | ".name" | ".is_recursive" | ".tag" if a.len() == 1 && matches!(a.first(), Some(Val::Ctor(k, _, _)) if k == "ChoiceOption") => field(&name[1..]).map(Ok),
            ".constraints" if a.len() == 1 => match a.first() {
                Some(Val::Ctor(k, _, _)) if k == "ChoiceOption" => field("constraints").map(Ok),
                Some(Val::Ctor(_, p, _)) => Some(Ok(match p.first() { Some(Val::Ctor(_, _, f)) => f.get("constraints").cloned().unwrap_or(Val::List(vec![])), _ => Val::List(vec![]) })),
                _ => None,
            },
            ".inner_name" => Some(Ok(Val::Sym(format!("Inner<{}>", a.get(1).map(sym).unwrap_or_default())))),
            "boxed_type" => Some(Ok(Val::Sym(format!("Box<{}>", a.first().map(sym).unwrap_or_default())))),
            ".to_rust_qualified_type" => Some(Ok(Val::Sym(format!("Ref<{}>", a.get(2).map(sym).unwrap_or_default())))),
            ".to_rust_enum_identifier" | ".to_rust_snake_case" => a.get(1).map(|v| Ok(Val::Sym(sym(v)))),
            ".format_range_annotations" | ".format_alphabet_annotations" | ".join_annotations" => Some(Ok(okv(Val::Sym(String::new())))),
            ".format_tag" | ".format_identifier_annotation" => Some(Ok(Val::Sym(String::new()))),
            ".int_type_token" => Some(Ok(Val::Sym("INT".into()))),
            "per_visible_range_constraints" => Some(Ok(okv(Val::Opaque("per".into())))),
            ".min" | ".max" | ".is_extensible" if matches!(a.first(), Some(Val::Opaque(s)) if s == "per") => Some(Ok(Val::none())),
            ".to_token_stream" | ".to_owned" | ".clone" | ".as_ref" if a.len() == 1 => Some(Ok(a[0].clone())),
            ".to_string" if a.len() == 1 => Some(Ok(match &a[0] { Val::Sym(s) => Val::Str(s.clone()), o => o.clone() })),
            "choice_from_impl_template" => {
                log.borrow_mut().push(format!("{}={}", a.get(1).map(sym).unwrap_or_default(), a.get(2).map(sym).unwrap_or_default()));
                Some(Ok(Val::Sym("from_impl".into())))
            }
            "std::iter::once" | "iter::once" | "once" => Some(Ok(Val::List(a.to_vec()))),
            _ => None,
        }
    };
    let mut inl = inline_all(m, &["Rasn"]);
    inl.retain(|k, _| [".constraints_and_type_name", ".format_member_or_option", ".choice_option_type", "needs_unnesting", ".format_sequence_or_set_of_item_type"].contains(&k.as_str()));
    let mut inl_ty = inline_all(m, &["ASN1Type"]);
    inl_ty.retain(|k, _| k == ".constraints");
    let ev = Evaluator { consts: &consts, call_hook: &hook, inline: Some(&inl) };
    let named = |n: &str, fields: Vec<(&str, Val)>| Val::Ctor(n.to_string(), vec![], fields.into_iter().map(|(k, v)| (k.to_string(), v)).collect::<BTreeMap<_, _>>());
    let boolean = || Val::Ctor("Boolean".into(), vec![named("Boolean", vec![("constraints", Val::List(vec![]))])], BTreeMap::new());
    let integer = |constrained: bool| Val::Ctor("Integer".into(), vec![named("Integer", vec![("constraints", Val::List(if constrained { vec![Val::Opaque("c".into())] } else { vec![] })), ("distinguished_values", Val::none())])], BTreeMap::new());
    let reference = |to: &str| Val::Ctor("ElsewhereDeclaredType".into(), vec![named("DeclarationElsewhere", vec![("identifier", Val::Str(to.into())), ("module", Val::none()), ("parent", Val::none()), ("constraints", Val::List(vec![]))])], BTreeMap::new());
    let seq = || Val::Ctor("Sequence".into(), vec![named("SequenceOrSet", vec![("members", Val::List(vec![])), ("extensible", Val::none()), ("constraints", Val::List(vec![]))])], BTreeMap::new());
    let list_of = |ty: Val| Val::Ctor("SequenceOf".into(), vec![named("SequenceOrSetOf", vec![("element_type", ty), ("element_tag", Val::none()), ("constraints", Val::List(vec![])), ("is_recursive", Val::Bool(false))])], BTreeMap::new());
    let shapes: Vec<(&str, Val, bool)> = vec![
        ("BOOLEAN", boolean(), false),
        ("a type reference", reference("Other"), false),
        ("a recursive type reference", reference("Tree"), true),
        ("an inline SEQUENCE", seq(), false),
        ("a recursive inline SEQUENCE", seq(), true),
        ("SEQUENCE OF BOOLEAN", list_of(boolean()), false),
        ("SEQUENCE OF a constrained INTEGER", list_of(integer(true)), false),
        ("SEQUENCE OF an inline SEQUENCE", list_of(seq()), false),
        ("SEQUENCE OF a type reference", list_of(reference("Other")), false),
    ];
    let fparams: Vec<String> = fmo.sig.inputs.iter().filter_map(|a| match a { syn::FnArg::Typed(t) => Some(tok(&t.pat)), _ => None }).collect();
    for (label, ty, recursive) in shapes {
        ctx.oblige(rule, &format!("payload:{}", label), true);
        let option = named("ChoiceOption", vec![("name", Val::Str("alt".into())), ("ty", ty), ("is_recursive", Val::Bool(recursive)), ("tag", Val::none()), ("constraints", Val::List(vec![]))]);
        // (a) the declared type of the variant
        let mut env = Env::new();
        env.insert("self".into(), Val::ctor("Rasn"));
        env.insert(fparams[0].clone(), option.clone());
        env.insert(fparams[1].clone(), Val::Str("Name".into()));
        env.insert(fparams[2].clone(), Val::Sym("alt".into()));
        env.insert(fparams[3].clone(), Val::Sym(String::new()));
        env.insert(fparams[4].clone(), Val::none());
        let declared = match ev.eval_fn_body(&fmo.block, &mut env) {
            Ok(Val::Ctor(ok, p, _)) if ok == "Ok" => match p.first() { Some(Val::Ctor(_, _, fl)) => fl.get("formatted_type_name").map(sym), _ => None },
            Ok(o) => { ctx.fail_closed(rule, &format!("[{}] format_member_or_option: {}", label, o.show().chars().take(100).collect::<String>())); continue; }
            Err(e) => { ctx.fail_closed(rule, &format!("[{}] format_member_or_option: {}", label, e)); continue; }
        };
        let Some(declared) = declared else { ctx.fail_closed(rule, &format!("[{}]: no formatted_type_name", label)); continue; };
        // (b) the type of the From impl
        log.borrow_mut().clear();
        let mut env = Env::new();
        env.insert("choice".into(), named("Choice", vec![("options", Val::List(vec![option])), ("extensible", Val::none())]));
        env.insert("name".into(), Val::Sym("Name".into()));
        env.insert("choice_str".into(), Val::Sym("choice_str".into()));
        env.insert("self".into(), Val::ctor("Rasn"));
        match ev.eval_block(&iff.then_branch, &mut env) {
            Ok(_) => {
                let got = log.borrow().first().cloned().unwrap_or_default();
                let want = format!("alt={}", declared);
                if got != want {
                    ctx.violate(rule, "from-impl-payload-differs", &f.file, span_line(&iff),
                        &format!("generate_from_impls, alternative `alt` of type {}: the variant is declared `alt({})`, the impl is `impl From<{}> for Name {{ Self::alt(value) }}` — mismatched types (E0308) in the bindings, with an option that should only add impls", label, declared, got.trim_start_matches("alt=")));
                }
            }
            Err(e) => ctx.fail_closed(rule, &format!("[{}] from-impl block: {}", label, e)),
        }
    }
    let _ = inl_ty;
}

pub fn run(m: &Model, ctx: &mut Ctx) {
    ctx.explanation = "C19.reads (who-may-read): every read of a Config field in the rasn backend is enumerated from the syntax tree and compared with the audited table audit/config_reads.json (option -> fns that may consult it); a new reader means an option leaks into an aspect it does not document. \
C19.delta: for each boolean option the two branches it selects differ only in the documented tokens: no_std templates interpolate the same variables in both branches, use lazy_static! in one and LazyLock in the other, and the module wrapper imports the matching item; \
generate_from_impls only appends choice_from_impl_template items after the unchanged CHOICE item, one per alternative whose payload type occurs once; wildcard vs listed imports differ only inside the braces; custom imports only add `use` lines. \
C19.derives: the derives rasn needs are always present (REQUIRED_DERIVES), user derives are merged without duplicates, and every type item goes through join_annotations(.., is_type_annotation = true).".into();
    ctx.assumptions = vec!["audit/config_reads.json lists the documented readers of each option".into()];
    ctx.rule("who-may-read table; branch delta of quote! templates; derive set facts");
    config_defaults(m, ctx);

    let cfg = match m.find_struct("Config", Some("generator::rasn")) {
        Ok(c) => c,
        Err(e) => {
            ctx.fail_closed("C19.reads", &e);
            return;
        }
    };
    let fields: Vec<String> = cfg.fields.iter().map(|(n, _, _)| n.clone()).collect();
    ctx.floor("C19.reads/config-fields", fields.len(), 6);
    let audit: Value = match std::fs::read_to_string(ctx.verif.join("audit/config_reads.json")).ok().and_then(|s| serde_json::from_str(&s).ok()) {
        Some(v) => v,
        None => {
            ctx.fail_closed("C19.reads", "audit/config_reads.json missing");
            return;
        }
    };
    let mut readers: BTreeMap<String, BTreeSet<String>> = BTreeMap::new();
    for f in m.fns.iter().filter(|f| f.module.starts_with("generator::rasn")) {
        let b = tok(&f.block);
        for fld in &fields {
            if b.contains(&format!("config.{}", fld)) {
                readers.entry(fld.clone()).or_default().insert(f.name.clone());
            }
        }
    }
    for fld in &fields {
        let allowed: BTreeSet<String> = audit["readers"][fld].as_array().cloned().unwrap_or_default().iter().filter_map(|v| v.as_str().map(|s| s.to_string())).collect();
        let got = readers.get(fld).cloned().unwrap_or_default();
        for r in &got {
            ctx.oblige("C19.reads", &format!("{}:{}", fld, r), true);
            if !allowed.contains(r) {
                let f = m.fns.iter().find(|f| f.name == *r && f.module.starts_with("generator::rasn"));
                ctx.violate("C19.reads", &format!("{}:{}", fld, r), f.map(|f| f.file.as_str()).unwrap_or(""), f.map(|f| f.line).unwrap_or(0),
                    &format!("`{}` reads the option `{}`; its documented effect is confined to {:?}", r, fld, allowed));
            }
        }
        if got.is_empty() {
            ctx.violate("C19.reads", &format!("{}:unread", fld), &cfg.file, cfg.line, &format!("the option `{}` is never read: it has no effect", fld));
        }
    }
    ctx.sample(json!({"config_readers": readers}));
    // state derived from an option (Rasn fields other than the config and the two module defaults): same who-may-read rule
    if let Ok(st) = m.find_struct("Rasn", Some("generator::rasn")) {
        for (fld, _, _) in st.fields.iter().filter(|(n, _, _)| !["config", "tagging_environment", "extensibility_environment"].contains(&n.as_str())) {
            let allowed: BTreeSet<String> = audit["derived"][fld]["readers"].as_array().cloned().unwrap_or_default().iter().filter_map(|v| v.as_str().map(|s| s.to_string())).collect();
            let mut got: BTreeSet<String> = BTreeSet::new();
            for f in m.fns.iter().filter(|f| f.module.starts_with("generator::rasn") && !f.module.contains("tests")) {
                if tok(&f.block).contains(&format!("self.{}", fld)) {
                    got.insert(f.name.clone());
                }
            }
            for r in &got {
                ctx.oblige("C19.reads", &format!("derived:{}:{}", fld, r), true);
                if !allowed.contains(r) {
                    let f = m.fns.iter().find(|f| f.name == *r && f.module.starts_with("generator::rasn"));
                    ctx.violate("C19.reads", &format!("derived:{}:{}", fld, r), f.map(|f| f.file.as_str()).unwrap_or(""), f.map(|f| f.line).unwrap_or(0),
                        &format!("`{}` reads `self.{}` (derived from the option `{}`); its documented effect is confined to {:?} — an option that only adds attributes must not decide what else is generated", r, fld, audit["derived"][fld]["from"].as_str().unwrap_or("?"), allowed));
                }
            }
            if got.is_empty() {
                ctx.violate("C19.reads", &format!("derived:{}:unread", fld), &st.file, st.line, &format!("the backend field `{}` is never read", fld));
            }
        }
    }

    no_std(m, ctx, "C19.delta");
    from_impls(m, ctx);
    from_payload(m, ctx, "C19.payload");
    imports(m, ctx);
    derives(m, ctx);
}

fn branch_quotes(i: &syn::ExprIf) -> Option<(Vec<quotex::QTok>, Vec<quotex::QTok>)> {
    let t = model::macros_named(&i.then_branch, "quote");
    let e = match &i.else_branch {
        Some((_, e)) => match &**e {
            syn::Expr::Block(b) => model::macros_named(&b.block, "quote"),
            _ => vec![],
        },
        None => vec![],
    };
    if t.len() == 1 && e.len() == 1 {
        Some((quotex::parse_quote_body(&t[0].tokens), quotex::parse_quote_body(&e[0].tokens)))
    } else {
        None
    }
}

pub fn no_std(m: &Model, ctx: &mut Ctx, rule: &str) {
    // every template fn with a bool parameter used as `if <param> { quote!{..} } else { quote!{..} }`
    let mut n = 0;
    for f in m.fns.iter().filter(|f| f.module.starts_with("generator::rasn::template")) {
        let bool_params: Vec<String> = f.sig.inputs.iter().filter_map(|a| match a {
            syn::FnArg::Typed(t) if tok(&t.ty) == "bool" => Some(tok(&t.pat)),
            _ => None,
        }).collect();
        for p in &bool_params {
            if !p.contains("no_std") {
                continue;
            }
            // the template is evaluated for both values of the flag (other templates it delegates to are followed): the
            // two items must declare the same name with the same type and the same initialiser, one as
            // `lazy_static! { pub static ref N: T = INIT; }`, the other as `pub static N: LazyLock<T> = LazyLock::new(|| INIT);`
            n += 1;
            ctx.func(&f.key);
            ctx.oblige(rule, &format!("no_std:{}", f.name), true);
            use crate::eval::{Env, Evaluator, Val};
            let consts = const_resolver(m);
            let inl = inline_all(m, &[]);
            let ev = Evaluator { consts: &consts, call_hook: &crate::eval::no_hook, inline: Some(&inl) };
            let mut rendered: Vec<String> = vec![];
            let mut failed = false;
            for flag in [true, false] {
                let mut env = Env::new();
                for a in f.sig.inputs.iter() {
                    if let syn::FnArg::Typed(t) = a {
                        let pn = tok(&t.pat);
                        let v = if &pn == p { Val::Bool(flag) } else if tok(&t.ty) == "bool" { Val::Bool(false) } else { Val::Sym(format!("<{}>", pn)) };
                        env.insert(pn, v);
                    }
                }
                match ev.eval_fn_body(&f.block, &mut env) {
                    Ok(Val::Sym(t)) | Ok(Val::Str(t)) => rendered.push(t.split_whitespace().collect::<Vec<_>>().join(" ")),
                    Ok(o) => { ctx.fail_closed(rule, &format!("[{} no_std={}]: result {}", f.name, flag, o.show().chars().take(100).collect::<String>())); failed = true; break }
                    Err(e) => { ctx.fail_closed(rule, &format!("[{} no_std={}]: {}", f.name, flag, e)); failed = true; break }
                }
            }
            if failed {
                continue;
            }
            let squeeze = |t: &str| t.replace(' ', "");
            let (with, without) = (squeeze(&rendered[0]), squeeze(&rendered[1]));
            // (prefix, name, type, initialiser) of each form
            let parse_with = |t: &str| -> Option<(String, String, String, String)> {
                let i = t.find("lazy_static!{")?;
                let inner = t[i + "lazy_static!{".len()..].strip_suffix('}')?;
                let j = inner.find("pubstaticref")?;
                let (prefix, rest) = (format!("{}{}", &t[..i], &inner[..j]), &inner[j + "pubstaticref".len()..]);
                let c = rest.find(':')?;
                let e = rest[c..].find('=')? + c;
                Some((prefix, rest[..c].to_string(), rest[c + 1..e].to_string(), rest[e + 1..].strip_suffix(';')?.to_string()))
            };
            let parse_without = |t: &str| -> Option<(String, String, String, String)> {
                let j = t.find("pubstatic")?;
                let (prefix, rest) = (t[..j].to_string(), &t[j + "pubstatic".len()..]);
                let c = rest.find(":LazyLock<")?;
                let e = rest.find(">=LazyLock::new(||")?;
                Some((prefix, rest[..c].to_string(), rest[c + ":LazyLock<".len()..e].to_string(), rest[e + ">=LazyLock::new(||".len()..].strip_suffix(");")?.to_string()))
            };
            match (parse_with(&with), parse_without(&without)) {
                (Some(a), Some(b)) => {
                    if a != b {
                        ctx.violate(rule, &format!("no_std:{}:variables", f.name), &f.file, f.line,
                            &format!("{}: with no_std_compliant_bindings the item is `{}`, without it `{}` — the option may only swap LazyLock for lazy_static, name, type and initialiser must be the same (no_std: {:?}; std: {:?})", f.name, rendered[0], rendered[1], a, b));
                    }
                }
                (None, _) => ctx.violate(rule, &format!("no_std:{}:true-branch", f.name), &f.file, f.line, &format!("{}: with no_std_compliant_bindings the item must be `lazy_static! {{ pub static ref N: T = INIT; }}` (and not mention LazyLock); it is `{}`", f.name, rendered[0])),
                (_, None) => ctx.violate(rule, &format!("no_std:{}:false-branch", f.name), &f.file, f.line, &format!("{}: without the option the item must be `pub static N: LazyLock<T> = LazyLock::new(|| INIT);` (and not lazy_static!); it is `{}`", f.name, rendered[1])),
            }
        }
    }
    ctx.floor(&format!("{}/no_std-templates", rule), n, 3);
    // module wrapper import
    if let Some(gm) = m.fns.iter().find(|f| f.name == "generate_module" && f.self_ty.as_deref() == Some("Rasn")) {
        ctx.oblige(rule, "no_std:module-import", true);
        // the imported item is decided by the option: the local that is spliced into `use #..;` is evaluated for both values
        let b = tok(&gm.block);
        struct L { out: Vec<syn::Local> }
        impl model::DeepCb for L {
            fn local(&mut self, l: &syn::Local) {
                if let Some(init) = &l.init {
                    if tok(&init.expr).contains("no_std_compliant_bindings") && tok(&init.expr).contains("LazyLock") {
                        self.out.push(l.clone());
                    }
                }
            }
        }
        let mut lc = L { out: vec![] };
        model::deep_walk_block(&gm.block, &mut lc);
        match lc.out.first() {
            None => ctx.violate(rule, "no_std:module-import", &gm.file, gm.line, "the module wrapper must import lazy_static::lazy_static exactly when no_std_compliant_bindings is set, std::sync::LazyLock otherwise (no such decision found)"),
            Some(l) => {
                use crate::eval::{Env, Evaluator, Val};
                let var = tok(&l.pat);
                let consts = const_resolver(m);
                let hook = |_: &Evaluator, _: &str, _: &[Val]| -> Option<Result<Val, String>> { None };
                let ev = Evaluator { consts: &consts, call_hook: &hook, inline: None };
                // locals the decision is computed from (`let x = ..;` statements of the same function that it mentions, in order)
                struct All { out: Vec<syn::Local> }
                impl model::DeepCb for All { fn local(&mut self, l: &syn::Local) { self.out.push(l.clone()); } }
                let mut all = All { out: vec![] };
                model::deep_walk_block(&gm.block, &mut all);
                let init_text = tok(&l.init.as_ref().unwrap().expr);
                let helpers: Vec<&syn::Local> = all.out.iter().take_while(|x| tok(*x) != tok(l)).filter(|x| match &x.pat { syn::Pat::Ident(pi) => init_text.contains(&pi.ident.to_string()) && x.init.is_some(), _ => false }).collect();
                // the other options are set too: the import depends on no_std_compliant_bindings alone
                for (no_std, custom) in [(false, vec![]), (true, vec![]), (false, vec!["lazy_static::initialize", "my::Thing"]), (true, vec!["lazy_static::initialize", "my::Thing"]), (true, vec!["other::lazy_static_like"])] {
                    let mut cfg = BTreeMap::new();
                    cfg.insert("no_std_compliant_bindings".to_string(), Val::Bool(no_std));
                    cfg.insert("custom_imports".to_string(), Val::List(custom.iter().map(|c| Val::Str(c.to_string())).collect()));
                    cfg.insert("default_wildcard_imports".to_string(), Val::Bool(false));
                    cfg.insert("generate_from_impls".to_string(), Val::Bool(false));
                    cfg.insert("opaque_open_types".to_string(), Val::Bool(true));
                    cfg.insert("type_annotations".to_string(), Val::List(vec![]));
                    let mut me = BTreeMap::new();
                    me.insert("config".to_string(), Val::Ctor("Config".into(), vec![], cfg));
                    let mut env = Env::new();
                    env.insert("self".into(), Val::Ctor("Rasn".into(), vec![], me));
                    for h in &helpers {
                        if let (syn::Pat::Ident(pi), Some(init)) = (&h.pat, &h.init) {
                            if let Ok(v) = ev.eval(&init.expr, &mut env) {
                                env.insert(pi.ident.to_string(), v);
                            }
                        }
                    }
                    match ev.eval(&l.init.as_ref().unwrap().expr, &mut env) {
                        Ok(v) => {
                            let t = v.show().replace(' ', "");
                            let want = if no_std { "lazy_static::lazy_static" } else { "std::sync::LazyLock" };
                            if !t.contains(want) {
                                ctx.violate(rule, "no_std:module-import", &gm.file, span_line(l), &format!("with no_std_compliant_bindings = {}{} the module wrapper imports `{}`, expected `{}`: the value templates are chosen by this option alone, so the module then uses a macro / type it does not import", no_std, if custom.is_empty() { String::new() } else { format!(" and custom_imports = {:?}", custom) }, t, want));
                                break;
                            }
                        }
                        Err(e) => { ctx.fail_closed(rule, &format!("[no_std module import]: {}", e)); break }
                    }
                }
                if !b.contains(&model::norm_tokens(&format!("use #{};", var))) {
                    ctx.violate(rule, "no_std:module-import", &gm.file, gm.line, &format!("the decision `{}` is not spliced into a `use` line of the module wrapper", var));
                }
            }
        }
    }
    // callers pass the option itself
    for f in m.fns.iter().filter(|f| f.module.starts_with("generator::rasn::builder")) {
        for mac in model::all_macros(&f.block) {
            if mac.path.is_ident("call_template") {
                let t = model::norm_tokens(&mac.tokens.to_string());
                if ["lazy_static_value_template", "choice_value_template", "sequence_or_set_value_template"].iter().any(|n| t.contains(n)) && !t.contains("const_choice_value_template") {
                    ctx.oblige(rule, &format!("no_std:caller:{}", f.name), false);
                    if !t.ends_with("self.config.no_std_compliant_bindings") {
                        ctx.violate(rule, &format!("no_std:caller:{}", f.name), &f.file, f.line, &format!("{}: a lazily initialised constant must be rendered according to config.no_std_compliant_bindings", f.name));
                    }
                }
            }
        }
    }
}

fn from_impls(m: &Model, ctx: &mut Ctx) {
    let Some(f) = anchor_fn(m, ctx, "C19.delta", Some("Rasn"), "generate_choice", None) else { return };
    struct C {
        out: Vec<syn::ExprIf>,
    }
    impl model::DeepCb for C {
        fn expr(&mut self, e: &syn::Expr) {
            if let syn::Expr::If(i) = e {
                if tok(&i.cond) == "self.config.generate_from_impls" {
                    self.out.push(i.clone());
                }
            }
        }
    }
    let mut c = C { out: vec![] };
    model::deep_walk_block(&f.block, &mut c);
    ctx.oblige("C19.delta", "from_impls:block", true);
    if c.out.len() != 1 {
        ctx.violate("C19.delta", "from_impls:block", &f.file, f.line, "generate_choice must consult generate_from_impls exactly once");
        return;
    }
    // what the guarded block emits is decided by evaluation (= C01.fromimpl): the CHOICE item first, then one From impl for
    // every alternative whose Rust type occurs exactly once
    crate::rules::c01::from_impls(m, ctx, "C19.delta");
    // without the option: the same choice_str
    ctx.oblige("C19.delta", "from_impls:off", true);
    let body = tok(&f.block);
    if !body.contains(&model::norm_tokens("} Ok(choice_str) }")) {
        ctx.violate("C19.delta", "from_impls:off", &f.file, f.line, "without generate_from_impls generate_choice must return the CHOICE item alone");
    }
    if let Ok(t) = m.find_fn(None, "choice_from_impl_template", Some("generator::rasn")) {
        ctx.oblige("C19.delta", "from_impls:template-shape", true);
        let q = model::macros_named(&t.block, "quote");
        let ok = q.len() == 1 && quotex::canon(&quotex::parse_quote_body(&q[0].tokens)).replace(' ', "") == "implFrom<#wrapped>for#name{fnfrom(value:#wrapped)->Self{Self::#variant(value)}}";
        if !ok {
            ctx.violate("C19.delta", "from_impls:template-shape", &t.file, t.line, "choice_from_impl_template must be `impl From<T> for Choice { fn from(value: T) -> Self { Self::Variant(value) } }`");
        }
    }
}

fn imports(m: &Model, ctx: &mut Ctx) {
    use crate::eval::{Env, Evaluator, Val};
    use std::collections::BTreeMap as Map;
    let Some(gm) = m.fns.iter().find(|f| f.name == "generate_module" && f.self_ty.as_deref() == Some("Rasn")) else { return };
    let b = tok(&gm.block);
    let consts = const_resolver(m);
    // custom_imports only adds `use <path>;` lines: the local built from the option is evaluated — one line per entry, in order,
    // and the option itself is left as it was (it is read again for the next module)
    struct L { out: Vec<syn::Local> }
    impl model::DeepCb for L {
        fn local(&mut self, l: &syn::Local) {
            if let Some(init) = &l.init {
                if tok(&init.expr).contains("custom_imports") {
                    self.out.push(l.clone());
                }
            }
        }
    }
    let mut lc = L { out: vec![] };
    model::deep_walk_block(&gm.block, &mut lc);
    ctx.oblige("C19.delta", "imports:custom", true);
    match lc.out.first() {
        None => ctx.violate("C19.delta", "imports:custom", &gm.file, gm.line, "custom_imports is not turned into `use <path>;` lines"),
        Some(l) => {
            let hook = |_: &Evaluator, name: &str, a: &[Val]| -> Option<Result<Val, String>> {
                match name {
                    "TokenStream::from_str" => match a.first() { Some(Val::Str(t)) => Some(Ok(Val::Ctor("Ok".into(), vec![Val::Sym(t.clone())], Map::new()))), _ => None },
                    _ => None,
                }
            };
            let ev = Evaluator { consts: &consts, call_hook: &hook, inline: None };
            for list in [vec![], vec!["a::B"], vec!["a::B", "c::d::E"]] {
                let mut cfg = Map::new();
                cfg.insert("custom_imports".to_string(), Val::List(list.iter().map(|x| Val::Str(x.to_string())).collect()));
                let mut me = Map::new();
                me.insert("config".to_string(), Val::Ctor("Config".into(), vec![], cfg));
                let mut env = Env::new();
                env.insert("self".into(), Val::Ctor("Rasn".into(), vec![], me));
                match ev.eval(&l.init.as_ref().unwrap().expr, &mut env) {
                    Ok(v) => {
                        let v = match v { Val::Ctor(n, mut p, _) if n == "Ok" && p.len() == 1 => p.remove(0), o => o };
                        let lines: Vec<String> = match &v { Val::List(l) => l.iter().map(|x| x.show().replace(' ', "")).collect(), o => vec![o.show()] };
                        let want: Vec<String> = list.iter().map(|x| format!("use{};", x)).collect();
                        if lines != want {
                            ctx.violate("C19.delta", "imports:custom", &gm.file, span_line(l), &format!("custom_imports {:?} is rendered as {:?}; custom_imports may only add one `use <path>;` line per entry, in order", list, lines));
                        }
                        let after = match env.get("self") { Some(Val::Ctor(_, _, f)) => match f.get("config") { Some(Val::Ctor(_, _, c)) => c.get("custom_imports").map(|x| x.show()), _ => None }, _ => None };
                        let before = Val::List(list.iter().map(|x| Val::Str(x.to_string())).collect()).show();
                        if after.as_deref() != Some(before.as_str()) {
                            ctx.violate("C19.delta", "imports:custom", &gm.file, span_line(l), &format!("rendering the custom imports changes the option itself ({} -> {:?}): the next module of the same run gets a different import list", before, after));
                        }
                    }
                    Err(e) => ctx.fail_closed("C19.delta", &format!("[custom imports {:?}]: {}", list, e)),
                }
            }
        }
    }
    // default_wildcard_imports only replaces the import list by `*` (= C01.imports with the option set)
    crate::rules::c01::import_lists_with(m, ctx, "C19.delta", true);
    // position of the custom imports in the module template
    ctx.oblige("C19.delta", "imports:custom-position", true);
    if !b.contains(&model::norm_tokens("#(#custom_imports)*#(#imports)*#(#pdus)*")) {
        ctx.violate("C19.delta", "imports:custom-position", &gm.file, gm.line, "custom imports come after the fixed prelude and before the module imports and definitions");
    }
}

fn derives(m: &Model, ctx: &mut Ctx) {
    let req = m.consts.iter().find(|c| c.name == "REQUIRED_DERIVES");
    match req {
        None => ctx.fail_closed("C19.derives", "REQUIRED_DERIVES not found"),
        Some(c) => {
            let t = tok(&c.expr);
            for d in ["AsnType", "Decode", "Encode"] {
                ctx.oblige("C19.derives", &format!("required:{}", d), true);
                if !t.contains(&format!("\"{}\"", d)) {
                    ctx.violate("C19.derives", &format!("required:{}", d), &c.file, c.line, &format!("REQUIRED_DERIVES lacks {}: with custom type_annotations the bindings would not implement what rasn needs", d));
                }
            }
        }
    }
    // Rasn::new merges the user's derives into the required ones: evaluated on annotation lists — the result starts with
    // REQUIRED_DERIVES, every user derive follows once (in order, none twice, none lost), and what is not a derive stays an
    // annotation of its own
    let newf: Vec<&FnInfo> = m.fns.iter().filter(|f| f.name == "new" && f.self_ty.as_deref() == Some("Rasn")).collect();
    if let Some(f) = newf.first() {
        use crate::eval::{Env, Evaluator, Val};
        use std::collections::BTreeMap as Map;
        ctx.func(&f.key);
        let base: Vec<String> = req.and_then(|c| str_array(&c.expr)).unwrap_or_default();
        let base2 = base.clone();
        let cr0 = const_resolver(m);
        let consts = move |name: &str| -> Option<Val> {
            let last = name.rsplit("::").next().unwrap_or(name).trim();
            if last == "REQUIRED_DERIVES" { Some(Val::List(base2.iter().map(|s| Val::Str(s.clone())).collect())) } else { cr0(name) }
        };
        // the annotation parser is the crate's own, interpreted character by character (SRC-C)
        let parser = m.fns.iter().find(|g| g.name == "parse_rust_derive_annotation" && g.krate == "rasn-compiler");
        let Some(parser) = parser else {
            ctx.fail_closed("C19.derives", "anchor not found: parse_rust_derive_annotation");
            return;
        };
        ctx.func(&parser.key);
        let ptail = match parser.block.stmts.last() { Some(syn::Stmt::Expr(e, None)) => e.clone(), _ => { ctx.fail_closed("C19.derives", "parse_rust_derive_annotation does not end in a parser expression"); return; } };
        let hook = |ev: &Evaluator, name: &str, a: &[Val]| -> Option<Result<Val, String>> {
            match name {
                "parse_rust_derive_annotation" => match a.first() {
                    Some(Val::Str(t)) => Some(match crate::nomchars::run(ev, &ptail, t, 0, 0) {
                        Ok(Some((pos, out))) => Ok(Val::Ctor("Ok".into(), vec![Val::Tuple(vec![Val::Str(t[pos..].to_string()), out.to_val()])], Map::new())),
                        Ok(None) => Ok(Val::Ctor("Err".into(), vec![Val::Sym("not a derive".into())], Map::new())),
                        Err(e) => Err(format!("parse_rust_derive_annotation: {}", e)),
                    }),
                    _ => None,
                },
                _ => None,
            }
        };
        let ev = Evaluator { consts: &consts, call_hook: &hook, inline: None };
        let params: Vec<String> = f.sig.inputs.iter().filter_map(|a| match a { syn::FnArg::Typed(t) => Some(tok(&t.pat).trim_start_matches("mut ").to_string()), _ => None }).collect();
        // what a derive attribute is (the oracle, independent of the crate's parser): `#[derive(` paths separated by commas, a
        // trailing comma allowed, `)]`, blanks anywhere between the tokens — and nothing else in the string
        fn derive_items(a: &str) -> Option<Vec<String>> {
            let t: String = a.chars().filter(|c| !c.is_whitespace()).collect();
            let inner = t.strip_prefix("#[derive(")?.strip_suffix(")]")?;
            if inner.contains(['(', ')', '[', ']', '#']) {
                return None;
            }
            let items: Vec<String> = inner.split(',').filter(|x| !x.is_empty()).map(|x| x.to_string()).collect();
            if items.is_empty() || !items.iter().all(|i| i.split("::").all(|seg| !seg.is_empty() && seg.chars().all(|c| c.is_alphanumeric() || c == '_'))) {
                return None;
            }
            Some(items)
        }
        for annots in [vec![], vec!["#[derive(Copy)]"], vec!["#[derive(Debug, PartialOrd, Clone)]", "#[repr(C)]"], vec!["#[repr(C)]", "#[derive(Ord)]", "#[derive(Ord, Default)]"],
            vec!["#[derive(Debug, serde::Serialize)]"], vec!["#[derive(Clone,)]"], vec![" # [ derive ( PartialOrd , my_crate::My_Trait ) ] "], vec!["#[derive(Serialize)] #[serde(rename_all = \"camelCase\")]"], vec!["#[derive(Hash)]", "#[serde(tag = \"derive(Eq)\")]"]] {
            let key = format!("merge:{:?}", annots);
            ctx.oblige("C19.derives", &key, true);
            let mut cfg = Map::new();
            cfg.insert("type_annotations".to_string(), Val::List(annots.iter().map(|a| Val::Str(a.to_string())).collect()));
            let mut env = Env::new();
            for (i, p) in params.iter().enumerate() {
                env.insert(p.clone(), if i == 0 { Val::Ctor("Config".into(), vec![], cfg.clone()) } else { Val::Sym(format!("arg{}", i)) });
            }
            let mut want = base.clone();
            let mut kept: Vec<String> = vec![];
            for a in &annots {
                match derive_items(a) {
                    Some(items) => for d in items { if !want.contains(&d) { want.push(d); } },
                    None => kept.push(a.to_string()),
                }
            }
            match ev.eval_fn_body(&f.block, &mut env) {
                Ok(Val::Ctor(_, _, fl)) => {
                    let strs = |v: Option<&Val>| -> Vec<String> { match v { Some(Val::List(l)) => l.iter().map(|x| match x { Val::Str(s) => s.clone(), o => o.show() }).collect(), _ => vec!["?".into()] } };
                    let got = strs(fl.get("required_derives"));
                    let got_kept = match fl.get("config") { Some(Val::Ctor(_, _, c)) => strs(c.get("type_annotations")), _ => vec!["?".into()] };
                    if got != want {
                        ctx.violate("C19.derives", "merge", &f.file, f.line, &format!("Rasn::new with type_annotations {:?} derives {:?}; expected the required derives followed by each user derive once: {:?} — a derive attribute that is not recognised as one is emitted next to the built-in #[derive(..)] (a trait derived twice is E0119 in the bindings), one recognised in part loses its remainder", annots, got, want));
                    }
                    if got_kept != kept {
                        ctx.violate("C19.derives", "non-derive-kept", &f.file, f.line, &format!("Rasn::new with type_annotations {:?} keeps the annotations {:?}; expected {:?} (what is not a derive stays as it is)", annots, got_kept, kept));
                    }
                }
                Ok(o) => ctx.fail_closed("C19.derives", &format!("[{}]: Rasn::new evaluates to {}", key, o.show().chars().take(100).collect::<String>())),
                Err(e) => ctx.fail_closed("C19.derives", &format!("[{}]: {}", key, e)),
            }
        }
    } else {
        ctx.fail_closed("C19.derives", "anchor not found: Rasn::new");
    }
    // the derive line itself: required_annotations evaluated on merged derive lists (REQUIRED_DERIVES followed by the user's
    // derives in every position of `Copy`) x needs_copy — every derive exactly once, in order, Copy iff needed or asked for
    if let Some(f) = anchor_fn(m, ctx, "C19.derives", Some("Rasn"), "required_annotations", None) {
        use crate::eval::{Env, Evaluator, Val};
        use std::collections::BTreeMap as Map;
        let base: Vec<String> = req.and_then(|c| str_array(&c.expr)).unwrap_or_default();
        if base.is_empty() {
            ctx.fail_closed("C19.derives", "REQUIRED_DERIVES is not an array of string literals");
        }
        let consts = const_resolver(m);
        let param = f.sig.inputs.iter().filter_map(|a| match a { syn::FnArg::Typed(t) => Some(tok(&t.pat)), _ => None }).next().unwrap_or("needs_copy".into());
        for user in [vec![], vec!["Copy"], vec!["Copy", "PartialOrd"], vec!["PartialOrd", "Copy"], vec!["PartialOrd", "Copy", "Ord"], vec!["Default"]] {
            for needs_copy in [false, true] {
                let key = format!("derive-line:user={:?}:needs_copy={}", user, needs_copy);
                ctx.oblige("C19.derives", &key, true);
                let merged: Vec<String> = base.iter().cloned().chain(user.iter().map(|s| s.to_string())).collect();
                let log = std::cell::RefCell::new(Vec::<String>::new());
                let hook = |_: &Evaluator, name: &str, a: &[Val]| -> Option<Result<Val, String>> {
                    if name == "TokenStream::from_str" {
                        if let Some(Val::Str(s)) = a.first() {
                            log.borrow_mut().push(s.clone());
                            return Some(Ok(Val::Ctor("Ok".into(), vec![Val::Sym(s.clone())], Map::new())));
                        }
                    }
                    None
                };
                let ev = Evaluator { consts: &consts, call_hook: &hook, inline: None };
                let mut cfg = Map::new();
                cfg.insert("type_annotations".to_string(), Val::List(vec![]));
                let mut me = Map::new();
                me.insert("required_derives".to_string(), Val::List(merged.iter().map(|s| Val::Str(s.clone())).collect()));
                me.insert("config".to_string(), Val::Ctor("Config".into(), vec![], cfg));
                let mut env = Env::new();
                env.insert("self".into(), Val::Ctor("Rasn".into(), vec![], me));
                env.insert(param.clone(), Val::Bool(needs_copy));
                match ev.eval_fn_body(&f.block, &mut env) {
                    Ok(Val::Ctor(ok, _, _)) if ok == "Ok" => {
                        let got = log.borrow().clone();
                        let mut want = merged.clone();
                        if needs_copy && !want.iter().any(|d| d == "Copy") {
                            want.push("Copy".into());
                        }
                        if got != want {
                            ctx.violate("C19.derives", "derive-line", &f.file, f.line,
                                &format!("required_annotations with user derives {:?} and needs_copy={} derives {:?}; every derive must appear exactly once ({:?}): a derive listed twice does not compile, a missing one changes the type", user, needs_copy, got, want));
                        }
                    }
                    Ok(o) => ctx.fail_closed("C19.derives", &format!("[{}]: required_annotations evaluates to {}", key, o.show())),
                    Err(e) => ctx.fail_closed("C19.derives", &format!("[{}]: {}", key, e)),
                }
            }
        }
    }
    // every type template call passes join_annotations(.., .., true)
    let mut n = 0;
    for f in m.fns.iter().filter(|f| f.module.starts_with("generator::rasn::builder")) {
        for c in model::calls_in(&f.block) {
            let Some(name) = model::callee_name(&c) else { continue };
            if !name.ends_with("_template") || name.contains("value") || name == "choice_from_impl_template" {
                continue;
            }
            let ja: Vec<String> = c.args.iter().map(|a| tok(a)).filter(|a| a.contains("join_annotations(")).collect();
            n += 1;
            ctx.oblige("C19.derives", &format!("type-annotation:{}:{}", f.name, name), true);
            if ja.len() != 1 || !ja[0].ends_with(",true)?") {
                ctx.violate("C19.derives", &format!("type-annotation:{}:{}", f.name, name), &f.file, span_line(&c),
                    &format!("{} passes {:?} to {}: every generated type must carry the merged derive/annotation list (join_annotations(.., .., true))", f.name, ja, name));
            }
        }
    }
    ctx.floor("C19.derives/type-template-calls", n, 12);
    // `Copy` is derived (join_annotations' needs_copy) exactly for the generated types whose payload is Copy in Rust: bool, (),
    // and a field-less enum. Every other payload (Integer, BitString, OctetString, strings, Any, times, ObjectIdentifier,
    // lists, structs with such fields) is not Copy, and `#[derive(Copy)]` on it is E0204.
    {
        let copy_kinds = ["generate_boolean", "generate_null", "generate_enumerated"];
        let mut sites = 0;
        for f in m.fns.iter().filter(|f| f.module.starts_with("generator::rasn::builder") && f.name.starts_with("generate_")) {
            for mc in model::method_calls_in(&f.block) {
                if mc.method != "join_annotations" || mc.args.len() != 3 {
                    continue;
                }
                // only the type-level annotation lists (third argument true)
                if tok(&mc.args[2]) != "true" {
                    continue;
                }
                sites += 1;
                let flag = tok(&mc.args[1]);
                let want = copy_kinds.contains(&f.name.as_str());
                ctx.oblige("C19.derives", &format!("needs-copy:{}", f.name), true);
                if flag != want.to_string() {
                    ctx.violate("C19.derives", &format!("needs-copy:{}", f.name), &f.file, span_line(&mc),
                        &format!("{} passes needs_copy = {} to join_annotations: `Copy` is derived exactly for BOOLEAN, NULL and ENUMERATED types (payloads bool, (), field-less enum); {}", f.name, flag,
                            if want { "leaving it out changes the type's traits" } else { "on any other payload `#[derive(Copy)]` does not compile (E0204)" }));
                }
            }
        }
        ctx.floor("C19.derives/needs-copy-sites", sites, 15);
    }
    // join_annotations evaluated: the custom and required annotations are prepended exactly for type items, empty elements
    // are skipped, the others are joined inside one #[rasn(..)]
    if let Some(f) = anchor_fn(m, ctx, "C19.derives", Some("Rasn"), "join_annotations", None) {
        use crate::eval::{Env, Evaluator, Val};
        use std::collections::BTreeMap as Map;
        let consts = const_resolver(m);
        let hook = |_: &Evaluator, name: &str, a: &[Val]| -> Option<Result<Val, String>> {
            match name {
                ".required_annotations" => Some(Ok(Val::Ctor("Ok".into(), vec![Val::List(vec![Val::Sym("#[derive(REQ)]".into()), Val::Sym("#[custom]".into())])], Map::new()))),
                "Punct::new" => match a.first() { Some(Val::Char(c)) => Some(Ok(Val::Str(c.to_string()))), _ => None },
                _ => None,
            }
        };
        let ev = Evaluator { consts: &consts, call_hook: &hook, inline: None };
        let params: Vec<String> = f.sig.inputs.iter().filter_map(|a| match a { syn::FnArg::Typed(t) => Some(tok(&t.pat)), _ => None }).collect();
        for (elems, is_type) in [(vec!["delegate", "", "tag(1)"], true), (vec!["delegate", "", "tag(1)"], false), (vec!["", ""], true), (vec![], false)] {
            let key = format!("join:{:?}:type={}", elems, is_type);
            ctx.oblige("C19.derives", &key, true);
            let mut env = Env::new();
            env.insert("self".into(), Val::ctor("Rasn"));
            env.insert(params.first().cloned().unwrap_or("elements".into()), Val::List(elems.iter().map(|e| Val::Str(e.to_string())).collect()));
            env.insert(params.get(1).cloned().unwrap_or("needs_copy".into()), Val::Bool(false));
            env.insert(params.get(2).cloned().unwrap_or("is_type_annotation".into()), Val::Bool(is_type));
            match ev.eval_fn_body(&f.block, &mut env) {
                Ok(Val::Ctor(ok, p, _)) if ok == "Ok" => {
                    let out = p.first().map(|v| match v { Val::Sym(s) | Val::Str(s) => s.clone(), o => o.show() }).unwrap_or_default().replace(' ', "").replace('"', "");
                    let has_req = out.contains("derive(REQ)") && out.contains("#[custom]");
                    let non_empty: Vec<&&str> = elems.iter().filter(|e| !e.is_empty()).collect();
                    let rasn_ok = if non_empty.is_empty() { !out.contains("#[rasn(") } else { out.contains(&format!("#[rasn({})]", non_empty.iter().map(|e| e.to_string()).collect::<Vec<_>>().join(","))) };
                    if has_req != is_type {
                        ctx.violate("C19.derives", "join-type-annotation", &f.file, f.line, &format!("join_annotations({:?}, .., is_type_annotation = {}) yields `{}`: the derive line and the custom annotations belong on type items and only there", elems, is_type, out));
                    }
                    if !rasn_ok {
                        ctx.violate("C19.derives", "join-rasn-attribute", &f.file, f.line, &format!("join_annotations({:?}) yields `{}`: the non-empty elements are joined by commas inside one #[rasn(..)], nothing is emitted for none", elems, out));
                    }
                }
                Ok(o) => ctx.fail_closed("C19.derives", &format!("[{}]: {}", key, o.show().chars().take(100).collect::<String>())),
                Err(e) => ctx.fail_closed("C19.derives", &format!("[{}]: {}", key, e)),
            }
        }
    }
}


/// C19.defaults: what a user gets who sets no option is part of what the options document — opaque open types, exact import
/// lists, no From impls ("disabled by default"), std bindings, no custom imports, and the documented derive line. The
/// `Default` impl of the backend's Config is evaluated and compared with the documentation of the fields.
fn config_defaults(m: &Model, ctx: &mut Ctx) {
    use crate::eval::{Env, Evaluator, Val};
    let rule = "C19.defaults";
    let Some(f) = m.fns.iter().find(|f| f.name == "default" && f.self_ty.as_deref() == Some("Config") && f.module.starts_with("generator::rasn")) else {
        ctx.fail_closed(rule, "anchor not found: Default for generator::rasn::Config");
        return;
    };
    let consts = const_resolver(m);
    let ev = Evaluator { consts: &consts, call_hook: &crate::eval::no_hook, inline: None };
    match ev.eval_fn_body(&f.block, &mut Env::new()) {
        Ok(Val::Ctor(_, _, fl)) => {
            let want: Vec<(&str, Val, &str)> = vec![
                ("opaque_open_types", Val::Bool(true), "open types are opaque unless asked otherwise (the non-opaque code is documented as experimental)"),
                ("default_wildcard_imports", Val::Bool(false), "import lists name exactly the imported symbols unless the option is set"),
                ("generate_from_impls", Val::Bool(false), "\"disabled by default\""),
                ("no_std_compliant_bindings", Val::Bool(false), "std bindings (LazyLock) unless asked otherwise"),
                ("custom_imports", Val::List(vec![]), "no use line nobody asked for"),
                ("type_annotations", Val::List(vec![Val::Str("#[derive(AsnType, Debug, Clone, Decode, Encode, PartialEq, Eq, Hash)]".into())]), "\"Default: vec![#[derive(AsnType, Debug, Clone, Decode, Encode, PartialEq, Eq, Hash)]]\""),
            ];
            for (k, v, why) in want {
                ctx.oblige(rule, k, true);
                if fl.get(k) != Some(&v) {
                    ctx.violate(rule, &format!("default:{}", k), &f.file, f.line, &format!("Config::default().{} is {}, documented {} — {}: bindings made with the default configuration change without any option being set", k, fl.get(k).map(|x| x.show()).unwrap_or("<missing>".into()), v.show(), why));
                }
            }
            ctx.floor("C19.defaults/fields", fl.len(), 6);
        }
        Ok(o) => ctx.fail_closed(rule, &format!("Config::default() evaluates to {}", o.show().chars().take(100).collect::<String>())),
        Err(e) => ctx.fail_closed(rule, &format!("[Config::default]: {}", e)),
    }
}
