//! C06 — the chosen Rust integer type can hold every permitted value.
//!
//! Both width selectors touch their integer inputs only through comparisons (and min/max) with
//! constants; the evaluator enforces that ("order-only", fails closed on arithmetic). The constants
//! partition Z into finitely many regions, so evaluating the selector's syntax tree on one
//! representative per region (c-1, c, c+1 for every constant c, and i128::MIN/MAX) for every
//! pair of regions decides the containment obligation for *all* integers.
use crate::eval::{int_const, Env, Evaluator, Val};
use crate::model::{self, tok, FnInfo, Model};
use crate::report::Ctx;
use crate::rules::util::*;
use serde_json::json;
use std::cell::RefCell;
use std::collections::{BTreeMap, BTreeSet};

fn range_of(ty: &str) -> Option<(i128, i128)> {
    let t = match ty {
        "u8" | "Uint8" => "u8",
        "u16" | "Uint16" => "u16",
        "u32" | "Uint32" => "u32",
        "u64" | "Uint64" => "u64",
        "i8" | "Int8" => "i8",
        "i16" | "Int16" => "i16",
        "i32" | "Int32" => "i32",
        "i64" | "Int64" => "i64",
        _ => return None,
    };
    Some((int_const(t, "MIN")?, int_const(t, "MAX")?))
}

fn is_unbounded_name(s: &str) -> bool {
    s == "Integer" || s == "Unbounded"
}

/// every `T::MIN`/`T::MAX` constant and integer literal mentioned in the fn
fn constants_of(f: &FnInfo) -> BTreeSet<i128> {
    struct C {
        out: BTreeSet<i128>,
    }
    impl model::DeepCb for C {
        fn expr(&mut self, e: &syn::Expr) {
            match e {
                syn::Expr::Path(p) if p.path.segments.len() == 2 => {
                    let a = p.path.segments[0].ident.to_string();
                    let b = p.path.segments[1].ident.to_string();
                    if let Some(c) = int_const(&a, &b) {
                        self.out.insert(c);
                    }
                }
                syn::Expr::Lit(l) => {
                    if let syn::Lit::Int(i) = &l.lit {
                        if let Ok(v) = i.base10_parse::<i128>() {
                            self.out.insert(v);
                        }
                    }
                }
                _ => {}
            }
        }
    }
    let mut c = C { out: BTreeSet::new() };
    model::deep_walk_block(&f.block, &mut c);
    c.out
}

fn reps(consts: &BTreeSet<i128>) -> Vec<i128> {
    let mut r = BTreeSet::new();
    r.insert(i128::MIN);
    r.insert(i128::MAX);
    for c in consts {
        r.insert(*c);
        if let Some(x) = c.checked_sub(1) {
            r.insert(x);
        }
        if let Some(x) = c.checked_add(1) {
            r.insert(x);
        }
    }
    r.into_iter().collect()
}

fn result_name(v: &Val) -> String {
    match v {
        Val::Sym(s) => s.clone(),
        Val::Ctor(n, _, _) => n.clone(),
        o => o.show(),
    }
}

/// content-based discovery: fns comparing a value with >= 3 fixed-width MIN/MAX constants
fn selectors(m: &Model) -> Vec<&FnInfo> {
    m.fns
        .iter()
        .filter(|f| {
            let b = tok(&f.block);
            let n = ["u8::MAX", "u16::MAX", "u32::MAX", "u64::MAX", "i8::MIN", "i16::MIN", "i32::MIN", "i64::MIN", "i8::MAX", "i16::MAX", "i32::MAX", "i64::MAX"]
                .iter()
                .filter(|c| b.contains(*c))
                .count();
            n >= 3
        })
        .collect()
}

/// C06.unpack: Integer::int_type / Constraint::integer_constraints (type assignments, SEQUENCE OF elements, value assignments,
/// DEFAULT helpers) read the bounds of a constraint through Constraint::unpack_as_value_range. That fn is evaluated on a plain
/// range and on set operations whose first operand is a range: a union must not be typed by its first operand alone, and an
/// extension marker after the last operand must not be lost — giving up (Err => Integer) is always sound.
pub fn unpack(m: &Model, ctx: &mut Ctx, rule: &str) {
    let Some(f) = m.fns.iter().find(|f| f.name == "unpack_as_value_range" && f.self_ty.as_deref() == Some("Constraint")) else {
        ctx.fail_closed(rule, "anchor not found: Constraint::unpack_as_value_range");
        return;
    };
    ctx.func(&f.key);
    let consts = const_resolver(m);
    let hook = |_: &Evaluator, name: &str, _a: &[Val]| -> Option<Result<Val, String>> {
        match name {
            "GrammarError::new" => Some(Ok(Val::Sym("error".into()))),
            "format!" => Some(Ok(Val::Str("message".into()))),
            _ => None,
        }
    };
    let ev = Evaluator { consts: &consts, call_hook: &hook, inline: None };
    let named = |n: &str, fields: Vec<(&str, Val)>| Val::Ctor(n.to_string(), vec![], fields.into_iter().map(|(k, v)| (k.to_string(), v)).collect::<BTreeMap<_, _>>());
    let int = |v: i128| Val::some(Val::Ctor("Integer".into(), vec![Val::int(v)], BTreeMap::new()));
    let range = |a: i128, b: i128, ext: bool| named("ValueRange", vec![("min", int(a)), ("max", int(b)), ("extensible", Val::Bool(ext))]);
    let single = |a: i128| named("SingleValue", vec![("value", Val::Ctor("Integer".into(), vec![Val::int(a)], BTreeMap::new())), ("extensible", Val::Bool(false))]);
    let element = |e: Val| Val::Ctor("Element".into(), vec![e], BTreeMap::new());
    let setop = |base: Val, op: &str, operant: Val| Val::Ctor("SetOperation".into(), vec![named("SetOperation", vec![("base", base), ("operator", Val::ctor(op)), ("operant", Val::Ctor("Box".into(), vec![operant], BTreeMap::new()))])], BTreeMap::new());
    let subtype = |set: Val, ext: bool| Val::Ctor("Subtype".into(), vec![named("ElementSetSpecs", vec![("set", set), ("extensible", Val::Bool(ext))])], BTreeMap::new());
    // (description, constraint, permitted maximum that must be representable, extensible?)
    let cases: Vec<(&str, Val, Option<(i128, i128)>, bool)> = vec![
        ("(0..255)", subtype(element(range(0, 255, false)), false), Some((0, 255)), false),
        ("(0..255 | 300..400)", subtype(setop(range(0, 255, false), "Union", element(range(300, 400, false))), false), Some((0, 400)), false),
        ("(-128..127 | 65536)", subtype(setop(range(-128, 127, false), "Union", element(single(65536))), false), Some((-128, 65536)), false),
        ("(0..255 EXCEPT 5, ...)", subtype(setop(range(0, 255, false), "Except", element(single(5))), true), Some((0, 255)), true),
        // the marker written behind a parenthesised element belongs to the element set, not to the element
        ("((0..5), ...)", subtype(element(range(0, 5, false)), true), Some((0, 5)), true),
        ("(0..5, ...)", subtype(element(range(0, 5, true)), false), Some((0, 5)), true),
    ];
    // the same for a single value: `((5), ...)`
    if let Some(g) = m.fns.iter().find(|g| g.name == "unpack_as_strict_value" && g.self_ty.as_deref() == Some("Constraint")) {
        for (what, c) in [("((5), ...)", subtype(element(single(5)), true))] {
            ctx.oblige(rule, what, true);
            let mut env = Env::new();
            env.insert("self".into(), c);
            match ev.eval_fn_body(&g.block, &mut env) {
                Ok(Val::Ctor(ok, p, _)) if ok == "Ok" => match p.first() {
                    Some(Val::Tuple(t)) if t.len() == 2 => {
                        if !matches!(t[1], Val::Bool(true)) {
                            ctx.violate(rule, "extension-marker-lost:single-value", &g.file, g.line,
                                &format!("INTEGER {} is unpacked as not extensible: a fixed-width type is then chosen for an extensible constraint", what));
                        }
                    }
                    o => ctx.fail_closed(rule, &format!("[{}]: result {:?}", what, o.map(|x| x.show()))),
                },
                Ok(Val::Ctor(e, _, _)) if e == "Err" => {}
                Ok(o) => ctx.fail_closed(rule, &format!("[{}]: result {}", what, o.show())),
                Err(e) => ctx.fail_closed(rule, &format!("[{}]: {}", what, e)),
            }
        }
    }
    for (what, c, hull, ext) in cases {
        ctx.oblige(rule, what, true);
        let mut env = Env::new();
        env.insert("self".into(), c);
        match ev.eval_fn_body(&f.block, &mut env) {
            Ok(Val::Ctor(ok, p, _)) if ok == "Ok" => {
                let t = match p.first() { Some(Val::Tuple(t)) if t.len() == 3 => t.clone(), o => { ctx.fail_closed(rule, &format!("[{}]: result {:?}", what, o.map(|x| x.show()))); continue } };
                let num = |v: &Val| -> Option<i128> { match v { Val::Ctor(s, p, _) if s == "Some" => match p.first() { Some(Val::Ctor(_, q, _)) => match q.first() { Some(Val::Int { v, .. }) => Some(*v), _ => None }, _ => None }, _ => None } };
                let (lo, hi, e) = (num(&t[0]), num(&t[1]), matches!(t[2], Val::Bool(true)));
                if let Some((wl, wh)) = hull {
                    if lo.map(|l| l > wl).unwrap_or(false) || hi.map(|h| h < wh).unwrap_or(false) {
                        ctx.violate(rule, "set-operation-typed-by-one-operand", &f.file, f.line,
                            &format!("INTEGER {} is unpacked as the range {:?}..{:?}: the constraint permits values up to {} / down to {}, the Rust type chosen from this range cannot hold them (`Holey ::= INTEGER (0..255 | 300..400)` becomes u8)", what, lo, hi, wh, wl));
                    }
                }
                if ext && !e {
                    ctx.violate(rule, "extension-marker-lost", &f.file, f.line,
                        &format!("INTEGER {} is unpacked as not extensible: a fixed-width type is then chosen for an extensible constraint", what));
                }
            }
            Ok(Val::Ctor(e, _, _)) if e == "Err" => {} // falls back to Integer: sound
            Ok(o) => ctx.fail_closed(rule, &format!("[{}]: result {}", what, o.show())),
            Err(e) => ctx.fail_closed(rule, &format!("[{}]: {}", what, e)),
        }
    }
}

/// C06.signed: the PER-visible bounds of an INTEGER are folded with `signed = true` (an absent lower bound is MIN, not 0 — 0
/// is the default for sizes). Every call of per_visible_range_constraints / format_range_annotations whose constraints are an
/// INTEGER's passes `true` (or the test "is this an INTEGER"): with `false`, `INTEGER (MIN..10)` is typed and annotated as
/// 0..10.
pub fn signed_flag(m: &Model, ctx: &mut Ctx, rule: &str) {
    let mut sites = 0;
    for f in m.fns.iter().filter(|f| f.krate == "rasn-compiler" && f.module.starts_with("generator::rasn") && !f.module.contains("tests")) {
        // match arms binding an INTEGER payload: `ASN1Type::Integer(i)` -> `i`
        let mut int_bindings: Vec<String> = vec![];
        for mt in crate::model::matches_in(&f.block) {
            for a in &mt.arms {
                let p = tok(&a.pat);
                if let Some(rest) = p.split("ASN1Type::Integer(").nth(1) {
                    let b = rest.split(')').next().unwrap_or("").trim_start_matches("ref ").trim_start_matches("mut ").to_string();
                    if !b.is_empty() && b != "_" {
                        int_bindings.push(b);
                    }
                }
            }
        }
        let b = tok(&f.block);
        if b.contains("if let ASN1Type::Integer(ref int)=") || b.contains("if let ASN1Type::Integer(int)=") {
            int_bindings.push("int".into());
        }
        let mut calls: Vec<(String, Vec<String>, usize)> = vec![];
        for c in crate::model::calls_in(&f.block) {
            if crate::model::callee_name(&c).as_deref() == Some("per_visible_range_constraints") {
                calls.push(("per_visible_range_constraints".into(), c.args.iter().map(|a| tok(a)).collect(), crate::rules::util::span_line(&c)));
            }
        }
        for mc in crate::model::method_calls_in(&f.block) {
            if mc.method == "format_range_annotations" {
                calls.push(("format_range_annotations".into(), mc.args.iter().map(|a| tok(a)).collect(), crate::rules::util::span_line(&mc)));
            }
        }
        for (callee, args, line) in calls {
            if args.len() != 2 {
                continue;
            }
            let on_integer = int_bindings.iter().any(|b| args[1] == format!("&{}.constraints", b) || args[1] == format!("{}.constraints()", b) || args[1] == format!("&{}.constraints()", b));
            if !on_integer {
                continue;
            }
            sites += 1;
            ctx.oblige(rule, &format!("{}:{}", f.name, callee), true);
            let ok = args[0] == "true" || (args[0].starts_with("matches!(") && args[0].contains("ASN1Type::Integer("));
            if !ok {
                ctx.violate(rule, &format!("integer-bounds-folded-unsigned:{}", f.name), &f.file, line,
                    &format!("{} calls {}({}, {}): the constraints are an INTEGER's, whose absent lower bound is MIN — folded as unsigned, `INTEGER (MIN..10)` gets the lower bound 0 (and an unsigned Rust type)", f.name, callee, args[0], args[1]));
            }
        }
    }
    ctx.floor(&format!("{}/integer-sites", rule), sites, 2);
    // the component formatter decides the flag from the kind of the component's type: evaluated per kind
    crate::rules::c05::member_annotations(m, ctx, rule, "signed");
}

pub fn run(m: &Model, ctx: &mut Ctx) {
    ctx.explanation = "C06.tree: both width selectors (found by content: fns that compare against >= 3 fixed-width MIN/MAX constants — Rasn::int_type_token and Constraint::integer_constraints) \
are evaluated abstractly on their syntax tree over the region partition of Z induced by the constants they mention (order-only use of the inputs is enforced; arithmetic on an input fails closed). \
For every (lower, upper, presence, extensible) region combination: a fixed-width result requires both bounds present and integral, no extension marker, and [lower, upper] within the type's range — for all integers, not for sampled pairs. \
C06.lub: max_restrictive (81 cells) returns one of its arguments, every fold over it starts from Unbounded, IntegerType::to_tokens (9 cells) names the type it denotes. \
C06.literal: LinkedIntValue renders Integer::from(<i128-suffixed>) iff Unbounded, else an unsuffixed literal; is_unbounded <=> Unbounded; constants are const exactly when not Unbounded. \
Not decided: that the (min, max) handed to the selector is the true hull of the constraint (C04), or that a user-supplied literal lies inside its constraint.".into();
    ctx.assumptions = vec![
        "rasn's Integer is arbitrary precision; Rust's fixed-width ranges as in core".into(),
        "per_visible_range_constraints yields the effective bounds (C04's subject)".into(),
    ];
    ctx.rule("region-exhaustive abstract evaluation of the selectors' syntax trees; exhaustive enum tables");
    // the hull handed to the selectors, for chains of set operators as the lexer nests them (shared with C04.prec): a hull that
    // leaves out permitted values selects a type that cannot hold them (`a INTEGER (1..5 ^ 3..10 | 300)` as u8)
    crate::rules::c04::precedence(m, ctx, "C06.prec", false);
    // the extension marker of a constraint decides between a fixed-width type and Integer: it must be read whatever the
    // layout of the constraint (the token-boundary analysis lives with C13; its reports about the constraint lexer are taken over)
    borrow_where(ctx, "C13", "C13.boundary", "C06.lexer", "lexer::constraint", &mut |sub| crate::rules::c13::run(m, sub));

    let sel = selectors(m);
    ctx.floor("C06.tree/selectors", sel.len(), 2);
    let consts = const_resolver(m);
    for f in sel {
        ctx.func(&f.key);
        ctx.anchor(&format!("width selector {} @ {}:{}", f.key, f.file, f.line));
        let mut cs = constants_of(f);
        // region refinement: evaluate once silently, add every constant an input was actually compared with, repeat to a fixpoint
        let mut rounds = 0;
        loop {
            rounds += 1;
            let rp = reps(&cs);
            crate::eval::CMP_LOG.with(|l| l.borrow_mut().clear());
            let mut scratch = Ctx::new("scratch", "quick", &ctx.verif);
            let typed0: Vec<(String, String)> = f.sig.inputs.iter().filter_map(|a| match a { syn::FnArg::Typed(t) => Some((tok(&t.pat), tok(&t.ty))), _ => None }).collect();
            if typed0.len() == 3 {
                check_opt_selector(&mut scratch, f, &consts, &rp, &typed0);
            } else {
                check_constraint_selector(&mut scratch, f, &consts, &rp);
            }
            let logged: BTreeSet<i128> = crate::eval::CMP_LOG.with(|l| l.borrow().clone());
            let before = cs.len();
            cs.extend(logged);
            if cs.len() == before || rounds >= 6 {
                break;
            }
        }
        ctx.extra.insert(format!("constants:{}", f.name), json!(cs.iter().map(|c| c.to_string()).collect::<Vec<_>>()));
        let rp = reps(&cs);
        ctx.extra.insert(format!("regions:{}", f.name), json!(rp.len()));
        let typed: Vec<(String, String)> = f
            .sig
            .inputs
            .iter()
            .filter_map(|a| match a {
                syn::FnArg::Typed(t) => Some((tok(&t.pat), tok(&t.ty))),
                _ => None,
            })
            .collect();
        if typed.len() == 3 && typed[0].1 == "Option<i128>" && typed[1].1 == "Option<i128>" && typed[2].1 == "bool" {
            check_opt_selector(ctx, f, &consts, &rp, &typed);
        } else if typed.is_empty() && f.sig.inputs.len() == 1 {
            check_constraint_selector(ctx, f, &consts, &rp);
        } else {
            ctx.fail_closed("C06.tree", &format!("width selector {} has an unknown signature ({:?})", f.key, typed));
        }
    }
    lub(m, ctx);
    literal(m, ctx);
    // a DEFAULT the linker never visits keeps its unlinked literal (`fn d() -> Integer { 3 }`): the traversal analysis is C09.traverse
    crate::rules::c09::traverse(m, ctx, "C06.traverse");
    named_first(m, ctx, "C06.named");
    unpack(m, ctx, "C06.unpack");
    crate::rules::c04::outer_marker(m, ctx, "C06.ext");
    crate::rules::c04::contained_marker(m, ctx, "C06.ext");
    signed_flag(m, ctx, "C06.signed");
    crate::rules::c07::named_lookup(m, ctx, "C06.named");
    agree(m, ctx, "C06.agree");
    selector_arguments(m, ctx);
}

/// C06.args: the width selectors are exact (C06.tree), so the type is right iff they are handed the right numbers: wherever
/// constraints_and_type_name chooses the type of an INTEGER component, the selector must receive the lower bound, the upper
/// bound and the extensibility of the effective constraint — in that order. The INTEGER arm is evaluated with an effective
/// constraint -5..300 (not extensible) and with 0..300 extensible; the selector's arguments are read back.
fn selector_arguments(m: &Model, ctx: &mut Ctx) {
    let Some(f) = anchor_fn(m, ctx, "C06.args", Some("Rasn"), "constraints_and_type_name", None) else { return };
    let Some(mt) = model::matches_in(&f.block).into_iter().find(|mt| mt.arms.iter().any(|a| tok(&a.pat).starts_with("ASN1Type::Integer("))) else {
        ctx.fail_closed("C06.args", "constraints_and_type_name: no arm for ASN1Type::Integer");
        return;
    };
    let consts = const_resolver(m);
    for (lo, hi, ext) in [(-5i128, 300i128, false), (0, 300, true)] {
        ctx.oblige("C06.args", &format!("{}..{} ext={}", lo, hi, ext), true);
        let seen: std::cell::RefCell<Option<Vec<Val>>> = std::cell::RefCell::new(None);
        let hook = |_: &Evaluator, name: &str, a: &[Val]| -> Option<Result<Val, String>> {
            match name {
                "per_visible_range_constraints" => {
                    let mut n = BTreeMap::new();
                    n.insert("min".to_string(), Val::some(Val::int(lo)));
                    n.insert("max".to_string(), Val::some(Val::int(hi)));
                    n.insert("extensible".to_string(), Val::Bool(ext));
                    n.insert("is_size_constraint".to_string(), Val::Bool(false));
                    Some(Ok(Val::Ctor("Ok".into(), vec![Val::Ctor("PerVisibleRangeConstraints".into(), vec![], n)], BTreeMap::new())))
                }
                "I::from_i128" => Some(Ok(Val::some(a.first().cloned().unwrap_or(Val::Unit)))),
                ".int_type_token" => {
                    *seen.borrow_mut() = Some(a[1..].to_vec());
                    Some(Ok(Val::Sym("TYPE".into())))
                }
                ".to_token_stream" | ".clone" if a.len() == 1 => Some(Ok(a[0].clone())),
                _ => None,
            }
        };
        let inl = inline_all(m, &["PerVisibleRangeConstraints"]);
        let ev = Evaluator { consts: &consts, call_hook: &hook, inline: Some(&inl) };
        let mut i = BTreeMap::new();
        i.insert("constraints".to_string(), Val::List(vec![Val::Sym("c".into())]));
        i.insert("distinguished_values".to_string(), Val::none());
        let ty = Val::Ctor("Integer".into(), vec![Val::Ctor("Integer".into(), vec![], i)], BTreeMap::new());
        let mut env = Env::new();
        env.insert("self".into(), Val::ctor("Rasn"));
        let r = ev.select_arm(&mt, &ty, &env).and_then(|(k, mut e2)| ev.eval(&mt.arms[k].body, &mut e2));
        let got: Option<Vec<Val>> = seen.borrow().clone();
        match (r, got) {
            (Ok(_), Some(args)) => {
                let want = vec![Val::some(Val::int(lo)), Val::some(Val::int(hi)), Val::Bool(ext)];
                if args != want {
                    ctx.violate("C06.args", "constraints_and_type_name", &f.file, span_line(&mt), &format!("for an INTEGER component with the effective constraint {}..{}{} the width selector is handed ({}); it must get (lower bound, upper bound, extensible) = ({})", lo, hi, if ext { ", ..." } else { "" }, args.iter().map(|v| v.show()).collect::<Vec<_>>().join(", "), want.iter().map(|v| v.show()).collect::<Vec<_>>().join(", ")));
                }
            }
            (Ok(_), None) => ctx.violate("C06.args", "constraints_and_type_name", &f.file, span_line(&mt), "the INTEGER arm of constraints_and_type_name does not consult the width selector"),
            (Err(e), _) => ctx.fail_closed("C06.args", &format!("[constraints_and_type_name]: {}", e)),
        }
    }
}

fn judge(ctx: &mut Ctx, f: &FnInfo, scenario: &str, res: &Val, lo: Option<i128>, hi: Option<i128>, ext: bool, both_integral: bool) {
    let name = result_name(res);
    if is_unbounded_name(&name) {
        return;
    }
    let Some((tmin, tmax)) = range_of(&name) else {
        ctx.violate("C06.tree", &format!("{}:unknown-type:{}", f.name, name), &f.file, f.line, &format!("{} returns `{}`, not one of the nine integer types [{}]", f.name, name, scenario));
        return;
    };
    let mut why = None;
    if ext {
        why = Some("the constraint is extensible".to_string());
    } else if !both_integral || lo.is_none() || hi.is_none() {
        why = Some("a bound is absent or not an integer".to_string());
    } else {
        let (lo, hi) = (lo.unwrap(), hi.unwrap());
        if lo <= hi && (lo < tmin || hi > tmax) {
            why = Some(format!("permitted values [{}, {}] do not fit {} = [{}, {}]", lo, hi, name, tmin, tmax));
        }
    }
    if let Some(w) = why {
        let region = |v: Option<i128>| v.map(|x| x.to_string()).unwrap_or("-".into());
        ctx.violate("C06.tree", &format!("{}:{}:{}", f.name, name, if ext { "extensible" } else if !both_integral || lo.is_none() || hi.is_none() { "open-bound" } else { "range" }), &f.file, f.line,
            &format!("{} selects {} although {} (lower={}, upper={}, extensible={}) [{}]", f.name, name, w, region(lo), region(hi), ext, scenario));
    }
}

/// the selectors' Option parameters hold i128 bounds: `None.unwrap_or_default()` is the constant 0
fn bound_default_hook(_: &Evaluator, name: &str, a: &[Val]) -> Option<Result<Val, String>> {
    match (name, a.first()) {
        (".unwrap_or_default", Some(Val::Ctor(n, _, _))) if n == "None" => Some(Ok(Val::int(0))),
        _ => None,
    }
}

fn check_opt_selector(ctx: &mut Ctx, f: &FnInfo, consts: &dyn Fn(&str) -> Option<Val>, rp: &[i128], typed: &[(String, String)]) {
    let ev = Evaluator { consts, call_hook: &bound_default_hook, inline: None };
    let mut n = 0;
    let mut results: BTreeMap<String, usize> = BTreeMap::new();
    let mut opts: Vec<Option<i128>> = vec![None];
    opts.extend(rp.iter().map(|x| Some(*x)));
    for lo in &opts {
        for hi in &opts {
            for ext in [false, true] {
                let mut env = Env::new();
                env.insert(typed[0].0.clone(), lo.map(|x| Val::some(Val::input(x))).unwrap_or(Val::none()));
                env.insert(typed[1].0.clone(), hi.map(|x| Val::some(Val::input(x))).unwrap_or(Val::none()));
                env.insert(typed[2].0.clone(), Val::Bool(ext));
                env.insert("self".into(), Val::ctor("Rasn"));
                n += 1;
                match ev.eval_fn_body(&f.block, &mut env) {
                    Ok(v) => {
                        *results.entry(result_name(&v)).or_default() += 1;
                        judge(ctx, f, "Option<i128> bounds", &v, *lo, *hi, ext, true);
                    }
                    Err(e) => {
                        ctx.fail_closed("C06.tree", &format!("{}: {}", f.key, e));
                        return;
                    }
                }
            }
        }
    }
    ctx.oblige_n("C06.tree/region-combinations", n);
    for (k, v) in &results {
        ctx.oblige("C06.tree", &format!("{}->{}", f.name, k), true);
        let _ = v;
    }
    ctx.sample(json!({"selector": f.key, "region_combinations": n, "results": results}));
    if results.len() < 9 {
        ctx.notes.push(format!("{} produces only {} distinct types", f.name, results.len()));
    }
}

fn check_constraint_selector(ctx: &mut Ctx, f: &FnInfo, consts: &dyn Fn(&str) -> Option<Val>, rp: &[i128]) {
    // the constraint is observed only through unpack_as_value_range / unpack_as_strict_value
    #[derive(Clone, Debug)]
    enum Shape {
        Range(Option<Option<i128>>, Option<Option<i128>>, bool), // None = absent, Some(None) = non-integer value
        Strict(Option<i128>, bool),
        /// written with set operators (`1..5 | 10`): neither a range nor a single value; what is known of it is the hull of its
        /// PER-visible parts, as per_visible_range_constraints computes it
        Set(Option<i128>, Option<i128>, bool),
        Neither,
    }
    let cur: RefCell<Shape> = RefCell::new(Shape::Neither);
    let mk = |b: &Option<Option<i128>>| match b {
        None => Val::none(),
        Some(None) => Val::some(Val::Ctor("Real".into(), vec![Val::Sym("1.5".into())], BTreeMap::new())),
        Some(Some(i)) => Val::some(Val::Ctor("Integer".into(), vec![Val::input(*i)], BTreeMap::new())),
    };
    let hook = |_: &Evaluator, name: &str, _args: &[Val]| -> Option<Result<Val, String>> {
        let err = Val::Ctor("Err".into(), vec![Val::Sym("e".into())], BTreeMap::new());
        match name {
            ".unpack_as_value_range" => Some(Ok(match &*cur.borrow() {
                Shape::Range(lo, hi, ext) => Val::Ctor("Ok".into(), vec![Val::Tuple(vec![mk(lo), mk(hi), Val::Bool(*ext)])], BTreeMap::new()),
                _ => err,
            })),
            ".unpack_as_strict_value" => Some(Ok(match &*cur.borrow() {
                Shape::Strict(v, ext) => {
                    let val = match v {
                        Some(i) => Val::Ctor("Integer".into(), vec![Val::input(*i)], BTreeMap::new()),
                        None => Val::Ctor("Real".into(), vec![Val::Sym("1.5".into())], BTreeMap::new()),
                    };
                    Val::Ctor("Ok".into(), vec![Val::Tuple(vec![val, Val::Bool(*ext)])], BTreeMap::new())
                }
                _ => err,
            })),
            "per_visible_range_constraints" if matches!(_args.get(1), Some(Val::List(l)) if l.is_empty()) => {
                Some(Ok(Val::Ctor("Ok".into(), vec![Val::Ctor("PVRC".into(), vec![], [("min".to_string(), Val::none()), ("max".to_string(), Val::none()), ("extensible".to_string(), Val::Bool(false))].into_iter().collect())], BTreeMap::new())))
            }
            "per_visible_range_constraints" => Some(Ok(match &*cur.borrow() {
                Shape::Set(lo, hi, ext) => {
                    let o = |b: &Option<i128>| b.map(|i| Val::some(Val::input(i))).unwrap_or(Val::none());
                    Val::Ctor("Ok".into(), vec![Val::Ctor("PVRC".into(), vec![], [("min".to_string(), o(lo)), ("max".to_string(), o(hi)), ("extensible".to_string(), Val::Bool(*ext))].into_iter().collect())], BTreeMap::new())
                }
                _ => Val::Ctor("Ok".into(), vec![Val::Ctor("PVRC".into(), vec![], [("min".to_string(), Val::none()), ("max".to_string(), Val::none()), ("extensible".to_string(), Val::Bool(false))].into_iter().collect())], BTreeMap::new()),
            })),
            ".min" | ".max" | ".is_extensible" if matches!(_args.first(), Some(Val::Ctor(n, _, _)) if n == "PVRC") => match _args.first() {
                Some(Val::Ctor(_, _, f)) => f.get(if name == ".is_extensible" { "extensible" } else { &name[1..] }).cloned().map(Ok),
                _ => None,
            },
            _ => None,
        }
    };
    let ev = Evaluator { consts, call_hook: &hook, inline: None };
    let mut bounds: Vec<Option<Option<i128>>> = vec![None, Some(None)];
    bounds.extend(rp.iter().map(|x| Some(Some(*x))));
    let mut scenarios: Vec<Shape> = vec![Shape::Neither];
    for lo in &bounds {
        for hi in &bounds {
            for ext in [false, true] {
                scenarios.push(Shape::Range(lo.clone(), hi.clone(), ext));
            }
        }
    }
    for v in rp.iter().map(|x| Some(*x)).chain(std::iter::once(None)) {
        for ext in [false, true] {
            scenarios.push(Shape::Strict(v, ext));
        }
    }
    // set-operator constraints: the component's type is chosen from the PER-visible hull (Rasn::int_type_token on
    // per_visible_range_constraints), so the type of the assignment / value / DEFAULT must come from the same bounds
    let mut setb: Vec<Option<i128>> = vec![None];
    setb.extend(rp.iter().map(|x| Some(*x)));
    for lo in &setb {
        for hi in &setb {
            if let (Some(a), Some(b)) = (lo, hi) {
                if a > b {
                    continue;
                }
            }
            for ext in [false, true] {
                scenarios.push(Shape::Set(*lo, *hi, ext));
            }
        }
    }
    let mut results: BTreeMap<String, usize> = BTreeMap::new();
    let n = scenarios.len();
    for sc in scenarios {
        *cur.borrow_mut() = sc.clone();
        let mut env = Env::new();
        env.insert("self".into(), Val::ctor("Constraint"));
        match ev.eval_fn_body(&f.block, &mut env) {
            Ok(v) => {
                *results.entry(result_name(&v)).or_default() += 1;
                let (lo, hi, ext, integral) = match &sc {
                    Shape::Neither => (None, None, false, false),
                    Shape::Range(lo, hi, ext) => (lo.clone().flatten(), hi.clone().flatten(), *ext, matches!(lo, Some(Some(_))) && matches!(hi, Some(Some(_)))),
                    Shape::Strict(v, ext) => (*v, *v, *ext, v.is_some()),
                    Shape::Set(lo, hi, ext) => (*lo, *hi, *ext, lo.is_some() && hi.is_some()),
                };
                judge(ctx, f, &format!("{:?}", sc).chars().take(60).collect::<String>(), &v, lo, hi, ext, integral);
            }
            Err(e) => {
                ctx.fail_closed("C06.tree", &format!("{}: {}", f.key, e));
                return;
            }
        }
    }
    ctx.oblige_n("C06.tree/region-combinations", n);
    for k in results.keys() {
        ctx.oblige("C06.tree", &format!("{}->{}", f.name, k), true);
    }
    ctx.sample(json!({"selector": f.key, "region_combinations": n, "results": results}));
}

fn lub(m: &Model, ctx: &mut Ctx) {
    let consts = const_resolver(m);
    let ev = Evaluator { consts: &consts, call_hook: &crate::eval::no_hook, inline: None };
    let variants = match m.find_enum("IntegerType") {
        Ok(e) => e.variants.clone(),
        Err(e) => {
            ctx.fail_closed("C06.lub", &e);
            return;
        }
    };
    ctx.floor("C06.lub/IntegerType-variants", variants.len(), 9);
    if let Some(f) = anchor_fn(m, ctx, "C06.lub", Some("IntegerType"), "max_restrictive", None) {
        let params: Vec<String> = f.sig.inputs.iter().map(|a| match a { syn::FnArg::Receiver(_) => "self".to_string(), syn::FnArg::Typed(t) => tok(&t.pat) }).collect();
        for x in &variants {
            for y in &variants {
                ctx.oblige("C06.lub", &format!("max_restrictive({},{})", x, y), x != y);
                let mut env = Env::new();
                env.insert(params[0].clone(), Val::ctor(x));
                env.insert(params.get(1).cloned().unwrap_or("rhs".into()), Val::ctor(y));
                match ev.eval_fn_body(&f.block, &mut env) {
                    Ok(v) => {
                        let r = result_name(&v);
                        if r != *x && r != *y {
                            ctx.violate("C06.lub", &format!("max_restrictive({},{})", x, y), &f.file, f.line,
                                &format!("max_restrictive({}, {}) = {}: combining serial constraints may only pick one of the two candidate types (each already holds every permitted value); a third type need not", x, y, r));
                        }
                    }
                    Err(e) => {
                        ctx.fail_closed("C06.lub", &format!("max_restrictive: {}", e));
                        return;
                    }
                }
            }
        }
    }
    // every fold over max_restrictive starts from Unbounded
    let mut folds = 0;
    for f in m.fns.iter() {
        for mc in model::method_calls_in(&f.block) {
            if mc.method == "fold" && mc.args.len() == 2 && tok(&mc.args[1]).contains("max_restrictive") {
                folds += 1;
                ctx.func(&f.key);
                ctx.oblige("C06.lub", &format!("fold-init:{}", f.key), true);
                if tok(&mc.args[0]) != "IntegerType::Unbounded" {
                    ctx.violate("C06.lub", &format!("fold-init:{}", f.key), &f.file, span_line(&mc),
                        &format!("the fold over max_restrictive in {} starts from `{}`: only Unbounded is a sound identity (any other start can narrow the type below what the constraints allow)", f.key, tok(&mc.args[0])));
                }
            }
        }
    }
    ctx.floor("C06.lub/folds", folds, 4);
    // to_tokens
    let tt: Vec<&FnInfo> = m.fns.iter().filter(|f| f.name == "to_tokens" && f.self_ty.as_deref() == Some("IntegerType")).collect();
    if tt.len() != 1 {
        ctx.fail_closed("C06.lub", "ToTokens for IntegerType not found");
    } else {
        let f = tt[0];
        ctx.func(&f.key);
        let ms = model::matches_in(&f.block);
        if let Some(mt) = ms.first() {
            for v in &variants {
                ctx.oblige("C06.lub", &format!("to_tokens({})", v), true);
                match ev.select_arm(mt, &Val::ctor(v), &Env::new()) {
                    Ok((i, _)) => {
                        let body = tok(&mt.arms[i].body);
                        let want = match v.as_str() {
                            "Int8" => "i8", "Uint8" => "u8", "Int16" => "i16", "Uint16" => "u16", "Int32" => "i32", "Uint32" => "u32", "Int64" => "i64", "Uint64" => "u64", "Unbounded" => "Integer", _ => "?",
                        };
                        if !body.contains(&format!("quote!({})", want)) {
                            ctx.violate("C06.lub", &format!("to_tokens({})", v), &f.file, span_line(&mt.arms[i]), &format!("IntegerType::{} is rendered by `{}`, expected the type `{}`", v, body, want));
                        }
                    }
                    Err(e) => ctx.fail_closed("C06.lub", &format!("to_tokens: {}", e)),
                }
            }
        }
    }
    if let Some(f) = anchor_fn(m, ctx, "C06.lub", Some("IntegerType"), "is_unbounded", None) {
        for v in &variants {
            ctx.oblige("C06.lub", &format!("is_unbounded({})", v), false);
            let mut env = Env::new();
            env.insert("self".into(), Val::ctor(v));
            match ev.eval_fn_body(&f.block, &mut env) {
                Ok(Val::Bool(b)) => {
                    if b != (v == "Unbounded") {
                        ctx.violate("C06.lub", &format!("is_unbounded({})", v), &f.file, f.line, &format!("is_unbounded({}) = {}", v, b));
                    }
                }
                o => ctx.fail_closed("C06.lub", &format!("is_unbounded: {:?}", o)),
            }
        }
    }
}

fn literal(m: &Model, ctx: &mut Ctx) {
    // value_to_tokens on a LinkedIntValue: evaluated for every integer type at the ends of its range (and around 2^63 for the
    // 64-bit types): the literal written denotes the value, carries no suffix of another type, and the arbitrary-precision
    // type gets `Integer::from(<literal with a suffix wide enough>)` (an unsuffixed literal is an i32 to rustc)
    if let Some(f) = anchor_fn(m, ctx, "C06.literal", Some("Rasn"), "value_to_tokens", None) {
        let consts = const_resolver(m);
        let range_of = |t: &str| -> Option<(i128, i128)> {
            Some(match t {
                "i8" => (i8::MIN as i128, i8::MAX as i128), "u8" => (0, u8::MAX as i128), "i16" => (i16::MIN as i128, i16::MAX as i128), "u16" => (0, u16::MAX as i128),
                "i32" => (i32::MIN as i128, i32::MAX as i128), "u32" => (0, u32::MAX as i128), "i64" => (i64::MIN as i128, i64::MAX as i128), "u64" => (0, u64::MAX as i128),
                "i128" | "isize" | "usize" | "u128" => (i128::MIN, i128::MAX),
                _ => return None,
            })
        };
        let hook = |_: &Evaluator, name: &str, a: &[Val]| -> Option<Result<Val, String>> {
            if let Some(rest) = name.strip_prefix("Literal::") {
                // Literal::<ty>_suffixed / _unsuffixed: the argument has the type <ty> (a cast in the argument has been applied)
                let (ty, suffixed) = match rest.split_once('_') { Some((t, "suffixed")) => (t, true), Some((t, "unsuffixed")) => (t, false), _ => return None };
                let (lo, hi) = range_of(ty)?;
                return match a.first() {
                    Some(Val::Int { v, .. }) if *v >= lo && *v <= hi => Some(Ok(Val::Sym(format!("{}{}", v, if suffixed { ty } else { "" })))),
                    Some(Val::Int { v, .. }) => Some(Err(format!("{} does not fit the argument type of Literal::{}", v, rest))),
                    _ => None,
                };
            }
            match name {
                ".into_token_stream" | ".to_token_stream" | ".clone" if a.len() == 1 => Some(Ok(a[0].clone())),
                _ => None,
            }
        };
        let ev = Evaluator { consts: &consts, call_hook: &hook, inline: None };
        let params: Vec<String> = f.sig.inputs.iter().filter_map(|a| match a { syn::FnArg::Typed(t) => Some(tok(&t.pat)), _ => None }).collect();
        let variants = m.find_enum("IntegerType").map(|e| e.variants.clone()).unwrap_or_default();
        if variants.is_empty() {
            ctx.fail_closed("C06.literal", "enum IntegerType not found");
        }
        for v in &variants {
            ctx.oblige("C06.literal", &format!("render({})", v), true);
            let rust = match v.as_str() { "Int8" => "i8", "Uint8" => "u8", "Int16" => "i16", "Uint16" => "u16", "Int32" => "i32", "Uint32" => "u32", "Int64" => "i64", "Uint64" => "u64", _ => "" };
            let values: Vec<i128> = match range_of(rust) {
                Some((lo, hi)) => { let mut x = vec![lo, hi, 0, 1]; if rust == "u64" { x.push(1i128 << 63); x.push((1i128 << 63) - 1); } if lo < 0 { x.push(-1); } x }
                None => vec![0, -1, 7, i32::MAX as i128 + 1, i64::MAX as i128, i64::MAX as i128 + 1, u64::MAX as i128 + 1, -(1i128 << 100), 1i128 << 100],
            };
            for val in values {
                let mut fl = BTreeMap::new();
                fl.insert("integer_type".to_string(), Val::ctor(v));
                fl.insert("value".to_string(), Val::int(val));
                let mut env = Env::new();
                env.insert("self".into(), Val::ctor("Rasn"));
                env.insert(params.first().cloned().unwrap_or("value".into()), Val::Ctor("LinkedIntValue".into(), vec![], fl));
                env.insert(params.get(1).cloned().unwrap_or("type_name".into()), Val::none());
                let got = match ev.eval_fn_body(&f.block, &mut env) {
                    Ok(Val::Ctor(ok, p, _)) if ok == "Ok" => Ok(p.first().map(|x| match x { Val::Sym(s) | Val::Str(s) => s.clone(), o => o.show() }).unwrap_or_default().replace(' ', "")),
                    Ok(o) => Err(format!("result {}", o.show().chars().take(80).collect::<String>())),
                    Err(e) => Err(e),
                };
                let ok = match &got {
                    Ok(text) if !rust.is_empty() => *text == val.to_string() || *text == format!("{}{}", val, rust),
                    Ok(text) => {
                        // Integer::from(<literal><suffix>) with a suffix type that holds the value
                        text.strip_prefix("Integer::from(").and_then(|t| t.strip_suffix(')')).map(|lit| {
                            let digits: String = lit.chars().take_while(|c| c.is_ascii_digit() || *c == '-').collect();
                            let suffix = &lit[digits.len()..];
                            digits == val.to_string() && match range_of(suffix) { Some((lo, hi)) => val >= lo && val <= hi, None => suffix.is_empty() && val >= i32::MIN as i128 && val <= i32::MAX as i128 }
                        }).unwrap_or(false)
                    }
                    Err(_) => false,
                };
                if !ok {
                    ctx.violate("C06.literal", &format!("render({})", v), &f.file, f.line,
                        &format!("the value {} of a type selected as {} is rendered `{}`; expected {}: every integer literal emitted fits the type it is declared with and denotes the source value", val, if rust.is_empty() { "Integer" } else { rust }, match &got { Ok(t) => t.clone(), Err(e) => format!("<{}>", e) },
                            if rust.is_empty() { format!("Integer::from({}i128)", val) } else { format!("the literal {}", val) }));
                    break;
                }
            }
        }
    }
    if let Some(f) = anchor_fn(m, ctx, "C06.literal", Some("Rasn"), "generate_integer_value", None) {
        ctx.oblige("C06.literal", "const-vs-lazy", true);
        struct C {
            ok: bool,
            seen: bool,
        }
        impl model::DeepCb for C {
            fn expr(&mut self, e: &syn::Expr) {
                if let syn::Expr::If(i) = e {
                    if tok(&i.cond) == "integer_type.is_unbounded()" {
                        self.seen = true;
                        let t = tok(&i.then_branch);
                        let el = i.else_branch.as_ref().map(|(_, e)| tok(e)).unwrap_or_default();
                        self.ok = t.contains("lazy_static_value_template(") && el.contains("integer_value_template(") && !el.contains("lazy_static_value_template(");
                    }
                }
            }
        }
        let mut c = C { ok: false, seen: false };
        model::deep_walk_block(&f.block, &mut c);
        if !c.seen || !c.ok {
            ctx.violate("C06.literal", "const-vs-lazy", &f.file, f.line, "an integer constant must be a lazily initialised static exactly when its type is the arbitrary-precision Integer (is_unbounded()), and a `const` of its fixed-width type otherwise");
        }
        ctx.oblige("C06.literal", "declared-type-is-linked-type", true);
        let b = tok(&f.block);
        if !b.contains("(integer_type.into_token_stream(),formatted_value)") {
            ctx.violate("C06.literal", "declared-type-is-linked-type", &f.file, f.line, "a builtin-typed integer constant must be declared with the integer type the linker attached to the value");
        }
    }
}

/// An identifier written as the value of a referenced INTEGER / ENUMERATED type (`level Level DEFAULT limit`) denotes
/// the named number / enumeral of that type when the type defines one of that name, whatever else in the module is
/// called the same (X.680 19.10 / 20.8: the scope of a named number is its type). In the arm of link_with_type that
/// links an identifier against a referenced type, the lookup among the type's own names therefore comes before the
/// lookup of a top-level value assignment. Otherwise the literal emitted for the DEFAULT is the unrelated value's,
/// which need not fit the type chosen for the governing type.
pub fn named_first(m: &Model, ctx: &mut Ctx, rule: &str) {
    let Some(f) = m.fns.iter().find(|f| f.name == "link_with_type" && f.self_ty.as_deref() == Some("ASN1Value")) else {
        ctx.fail_closed(rule, "anchor not found: ASN1Value::link_with_type");
        return;
    };
    ctx.func(&f.key);
    let Some(mt) = crate::model::matches_in(&f.block).into_iter().max_by_key(|mt| mt.arms.len()) else {
        ctx.fail_closed(rule, "link_with_type: no match");
        return;
    };
    let arm = mt.arms.iter().find(|a| {
        let p = tok(&a.pat);
        p.contains("ASN1Type::ElsewhereDeclaredType(") && p.contains("ASN1Value::ElsewhereDeclaredValue{")
    });
    let Some(arm) = arm else {
        ctx.fail_closed(rule, "link_with_type: the arm for (type reference, identifier) was not found");
        return;
    };
    ctx.oblige(rule, "own-names-before-toplevel-values", true);
    let b = tok(&arm.body);
    let own = b.find("link_enum_or_distinguished(");
    let top = [b.find("tlds.get(identifier)"), b.find(".zip(tlds.get(identifier))")].into_iter().flatten().min();
    match (own, top) {
        (Some(o), Some(t)) if o < t => {}
        (Some(_), None) => {}
        (None, _) => ctx.violate(rule, "own-names-not-consulted", &f.file, crate::rules::util::span_line(arm), "an identifier given as the value of a referenced type is never looked up among the named numbers / enumerals of that type"),
        _ => ctx.violate(rule, "toplevel-value-before-own-names", &f.file, crate::rules::util::span_line(arm),
            "an identifier given as the value of a referenced type is first looked up among the top-level value assignments and only then among the named numbers of the type: `Level ::= INTEGER { limit(5) } (0..10)  limit INTEGER ::= 300  S ::= SEQUENCE { level Level DEFAULT limit }` then emits Level(300) for a u8"),
    }
}

/// Sibling agreement of the two width selectors: the type of a component / alternative is chosen by one
/// (Rasn::int_type_token), the return type of its DEFAULT function, the type of a value assignment and the literal form
/// by the other (Constraint::integer_constraints via Integer::int_type). For every region combination of (lower, upper,
/// extensible) — absent bounds included — both must name the same Rust type, otherwise a field of one type is
/// initialised from a function of another (E0308 in the generated crate).
pub fn agree(m: &Model, ctx: &mut Ctx, rule: &str) {
    let sel = selectors(m);
    let consts = const_resolver(m);
    let opt_sel = sel.iter().find(|f| f.sig.inputs.iter().filter(|a| matches!(a, syn::FnArg::Typed(_))).count() == 3);
    let con_sel = sel.iter().find(|f| f.sig.inputs.iter().filter(|a| matches!(a, syn::FnArg::Typed(_))).count() == 0);
    let (Some(f1), Some(f2)) = (opt_sel, con_sel) else {
        ctx.fail_closed(rule, "the two width selectors (Option<i128> bounds / Constraint) were not both found");
        return;
    };
    let mut cs = constants_of(f1);
    cs.extend(constants_of(f2));
    let rp = reps(&cs);
    let canon = |n: &str| -> String {
        let n = n.trim();
        match n {
            "Int8" => "i8", "Uint8" => "u8", "Int16" => "i16", "Uint16" => "u16", "Int32" => "i32", "Uint32" => "u32", "Int64" => "i64", "Uint64" => "u64", "Unbounded" => "Integer",
            o => o,
        }.to_string()
    };
    let typed: Vec<String> = f1.sig.inputs.iter().filter_map(|a| match a { syn::FnArg::Typed(t) => Some(tok(&t.pat)), _ => None }).collect();
    let ev1 = Evaluator { consts: &consts, call_hook: &bound_default_hook, inline: None };
    let cur: RefCell<(Option<i128>, Option<i128>, bool)> = RefCell::new((None, None, false));
    // as_set: the constraint is written with set operators (`lo..x | y..hi`): it is neither a range nor a single value, and
    // the component's type is chosen from the hull per_visible_range_constraints computes for it
    let as_set: RefCell<bool> = RefCell::new(false);
    let hook = |_: &Evaluator, name: &str, a: &[Val]| -> Option<Result<Val, String>> {
        let mk = |b: Option<i128>| b.map(|i| Val::some(Val::Ctor("Integer".into(), vec![Val::input(i)], BTreeMap::new()))).unwrap_or(Val::none());
        let err = || Val::Ctor("Err".into(), vec![Val::Sym("e".into())], BTreeMap::new());
        match name {
            ".unpack_as_value_range" => {
                let (lo, hi, ext) = *cur.borrow();
                Some(Ok(if *as_set.borrow() { err() } else { Val::Ctor("Ok".into(), vec![Val::Tuple(vec![mk(lo), mk(hi), Val::Bool(ext)])], BTreeMap::new()) }))
            }
            ".unpack_as_strict_value" => Some(Ok(err())),
            // asked about no constraint at all, the function has no bound to report
            "per_visible_range_constraints" if matches!(a.get(1), Some(Val::List(l)) if l.is_empty()) => {
                Some(Ok(Val::Ctor("Ok".into(), vec![Val::Ctor("PVRC".into(), vec![], [("min".to_string(), Val::none()), ("max".to_string(), Val::none()), ("extensible".to_string(), Val::Bool(false))].into_iter().collect())], BTreeMap::new())))
            }
            "per_visible_range_constraints" => {
                let (lo, hi, ext) = *cur.borrow();
                let o = |b: Option<i128>| b.map(|i| Val::some(Val::input(i))).unwrap_or(Val::none());
                Some(Ok(Val::Ctor("Ok".into(), vec![Val::Ctor("PVRC".into(), vec![], [("min".to_string(), o(lo)), ("max".to_string(), o(hi)), ("extensible".to_string(), Val::Bool(ext))].into_iter().collect())], BTreeMap::new())))
            }
            ".min" | ".max" | ".is_extensible" if matches!(a.first(), Some(Val::Ctor(n, _, _)) if n == "PVRC") => match a.first() {
                Some(Val::Ctor(_, _, f)) => f.get(if name == ".is_extensible" { "extensible" } else { &name[1..] }).cloned().map(Ok),
                _ => None,
            },
            _ => None,
        }
    };
    let ev2 = Evaluator { consts: &consts, call_hook: &hook, inline: None };
    let mut opts: Vec<Option<i128>> = vec![None];
    opts.extend(rp.iter().map(|x| Some(*x)));
    let mut n = 0;
    let mut reported = BTreeSet::new();
    for lo in &opts {
        for hi in &opts {
            if let (Some(a), Some(b)) = (lo, hi) {
                if a > b {
                    continue;
                }
            }
            for (ext, set) in [(false, false), (true, false), (false, true), (true, true)] {
                n += 1;
                *as_set.borrow_mut() = set;
                let mut e1 = Env::new();
                e1.insert(typed[0].clone(), lo.map(|x| Val::some(Val::input(x))).unwrap_or(Val::none()));
                e1.insert(typed[1].clone(), hi.map(|x| Val::some(Val::input(x))).unwrap_or(Val::none()));
                e1.insert(typed[2].clone(), Val::Bool(ext));
                e1.insert("self".into(), Val::ctor("Rasn"));
                *cur.borrow_mut() = (*lo, *hi, ext);
                let mut e2 = Env::new();
                e2.insert("self".into(), Val::ctor("Constraint"));
                let (r1, r2) = (ev1.eval_fn_body(&f1.block, &mut e1), ev2.eval_fn_body(&f2.block, &mut e2));
                match (r1, r2) {
                    (Ok(a), Ok(b)) => {
                        let (a, b) = (canon(&result_name(&a)), canon(&result_name(&b)));
                        if a != b {
                            let key = format!("{}{}-vs-{}", if set { "set-operators:" } else { "" }, a, b);
                            if reported.insert(key.clone()) {
                                let show = |x: &Option<i128>| x.map(|v| v.to_string()).unwrap_or("absent".into());
                                ctx.violate(rule, &format!("selectors-disagree:{}", key), &f1.file, f1.line,
                                    &format!("for INTEGER ({}{}) {} chooses `{}` but {} chooses `{}`: a component of the first type gets a DEFAULT function / value of the second", if set { format!("{}..x | y..{}", show(lo), show(hi)) } else { format!("{}..{}", show(lo), show(hi)) }, if ext { ", ..." } else { "" }, f1.name, a, f2.name, b));
                            }
                        }
                    }
                    (Err(e), _) | (_, Err(e)) => {
                        ctx.fail_closed(rule, &format!("[{:?}..{:?} ext={}]: {}", lo, hi, ext, e));
                        return;
                    }
                }
            }
        }
    }
    ctx.oblige_n(&format!("{}/region-combinations", rule), n);
    ctx.oblige(rule, "int_type_token==integer_constraints", true);

    // serially applied constraints: the component's type is chosen from the bounds that `+=` of PerVisibleRangeConstraints
    // accumulates, the type of DEFAULT helpers / assignments / values by Integer::int_type, which folds the per-constraint
    // types with max_restrictive. Both are evaluated on two constraints in either order.
    let add = m.fns.iter().find(|f| f.name == "add_assign" && f.self_ty.as_deref() == Some("PerVisibleRangeConstraints") && f.sig.inputs.iter().any(|a| matches!(a, syn::FnArg::Typed(t) if tok(&t.ty).replace(' ', "") == "PerVisibleRangeConstraints")));
    let int_type = m.fns.iter().find(|f| f.name == "int_type" && f.self_ty.as_deref() == Some("Integer") && f.module.starts_with("intermediate"));
    let (Some(add), Some(int_type)) = (add, int_type) else {
        ctx.fail_closed(rule, "anchor not found: AddAssign for PerVisibleRangeConstraints / Integer::int_type");
        return;
    };
    let inl = crate::rules::util::inline_all(m, &["IntegerType"]);
    type C = (i128, i128, bool);
    let pairs: [(C, C); 4] = [((0, 5, true), (0, 3, false)), ((0, 3, false), (0, 5, true)), ((0, 300, false), (0, 3, false)), ((0, 3, false), (0, 300, false))];
    for (c1, c2) in pairs {
        let shown = |c: &C| format!("({}..{}{})", c.0, c.1, if c.2 { ", ..." } else { "" });
        let what = format!("INTEGER {}{}", shown(&c1), shown(&c2));
        ctx.oblige(rule, &format!("serial:{}", what), true);
        // path A: accumulate, then the component selector
        let pv = |c: &C| Val::Ctor("PerVisibleRangeConstraints".into(), vec![], [("min".to_string(), Val::some(Val::int(c.0))), ("max".to_string(), Val::some(Val::int(c.1))), ("extensible".to_string(), Val::Bool(c.2)), ("is_size_constraint".to_string(), Val::Bool(false))].into_iter().collect());
        let rhs_name = add.sig.inputs.iter().filter_map(|a| match a { syn::FnArg::Typed(t) => Some(tok(&t.pat).replace("mut ", "")), _ => None }).next().unwrap_or("rhs".into());
        let eva = Evaluator { consts: &consts, call_hook: &crate::eval::no_hook, inline: None };
        let mut acc = Val::Ctor("PerVisibleRangeConstraints".into(), vec![], [("min".to_string(), Val::none()), ("max".to_string(), Val::none()), ("extensible".to_string(), Val::Bool(false)), ("is_size_constraint".to_string(), Val::Bool(false))].into_iter().collect());
        let mut failed = None;
        for c in [&c1, &c2] {
            let mut env = Env::new();
            env.insert("self".into(), acc.clone());
            env.insert(rhs_name.clone(), pv(c));
            match eva.eval_fn_body(&add.block, &mut env) {
                Ok(_) => acc = env.get("self").cloned().unwrap_or(acc),
                Err(e) => { failed = Some(e); break }
            }
        }
        if let Some(e) = failed {
            ctx.fail_closed(rule, &format!("[{} accumulated]: {}", what, e));
            return;
        }
        let get = |k: &str| match &acc { Val::Ctor(_, _, f) => f.get(k).cloned(), _ => None };
        let bound = |v: Option<Val>| match v { Some(Val::Ctor(n, p, _)) if n == "Some" => match p.first() { Some(Val::Int { v, .. }) => Val::some(Val::input(*v)), _ => Val::none() }, _ => Val::none() };
        let mut e1 = Env::new();
        e1.insert(typed[0].clone(), bound(get("min")));
        e1.insert(typed[1].clone(), bound(get("max")));
        e1.insert(typed[2].clone(), get("extensible").unwrap_or(Val::Bool(false)));
        e1.insert("self".into(), Val::ctor("Rasn"));
        let a = match ev1.eval_fn_body(&f1.block, &mut e1) { Ok(v) => canon(&result_name(&v)), Err(e) => { ctx.fail_closed(rule, &format!("[{} component type]: {}", what, e)); return } };
        // path B: the per-constraint types, folded by Integer::int_type
        let mut per: Vec<Val> = vec![];
        for c in [&c1, &c2] {
            *as_set.borrow_mut() = false;
            *cur.borrow_mut() = (Some(c.0), Some(c.1), c.2);
            let mut e2 = Env::new();
            e2.insert("self".into(), Val::ctor("Constraint"));
            match ev2.eval_fn_body(&f2.block, &mut e2) { Ok(v) => per.push(match v { Val::Sym(s) => Val::ctor(s.rsplit("::").next().unwrap_or(&s)), o => o }), Err(e) => { ctx.fail_closed(rule, &format!("[{} per-constraint type]: {}", what, e)); return } }
        }
        let per2 = per.clone();
        let hookb = move |_: &Evaluator, name: &str, a: &[Val]| -> Option<Result<Val, String>> {
            match (name, a.first()) {
                (".integer_constraints", Some(Val::Sym(s))) => per2.get(if s == "c1" { 0 } else { 1 }).cloned().map(Ok),
                _ => None,
            }
        };
        let evb = Evaluator { consts: &consts, call_hook: &hookb, inline: Some(&inl) };
        let mut eb = Env::new();
        eb.insert("self".into(), Val::Ctor("Integer".into(), vec![], [("constraints".to_string(), Val::List(vec![Val::Sym("c1".into()), Val::Sym("c2".into())])), ("distinguished_values".to_string(), Val::none())].into_iter().collect()));
        let b = match evb.eval_fn_body(&int_type.block, &mut eb) { Ok(v) => canon(&result_name(&v)), Err(e) => { ctx.fail_closed(rule, &format!("[{} Integer::int_type]: {}", what, e)); return } };
        if a != b {
            ctx.violate(rule, &format!("selectors-disagree:serial:{}{}:{}-vs-{}", shown(&c1), shown(&c2), a, b), &int_type.file, int_type.line,
                &format!("for a component `b {} DEFAULT 2` the field is declared `{}` (bounds accumulated by `+=`: {:?}..{:?}, extensible {:?}) and its DEFAULT function returns `{}` (Integer::int_type: the most restrictive of the per-constraint types): mismatched types in the bindings, without a warning", what, a, get("min").map(|v| v.show()), get("max").map(|v| v.show()), get("extensible").map(|v| v.show()), b));
        }
    }
}
