//! C16 — generated identifiers are legal and keep the ASN.1 name recoverable.
use crate::eval::{Env, Evaluator, Val};
use crate::mir::Facts;
use crate::model::{self, tok, FnInfo, Model};
use crate::report::Ctx;
use crate::rules::util::*;
use serde_json::json;
use std::cell::RefCell;
use std::collections::{BTreeMap, BTreeSet};

pub fn run(m: &Model, ctx: &mut Ctx, facts: &Facts) {
    ctx.explanation = "C16.kw: the keyword table (found by content: the string array containing both \"fn\" and \"struct\") must contain every strict and reserved keyword of every edition known to the nightly compiler \
(enumerated from rustc_span's pre-interned symbols with Symbol::is_reserved by the MIR driver), and each of the four name manglers must test the *converted* spelling against that table and prefix a hit with r_/R_. \
C16.chars: every mangler replaces '-' (the only ASN.1 identifier character that is illegal in Rust). \
C16.annot: every generator fn that emits an item, field, variant or enumeral under a mangled name contains an identifier-annotation decision that fires exactly when the mangled spelling differs from the ASN.1 spelling \
(evaluated for equal / different names); the set of fns that need one is computed from the code (fns passing a title-cased tld.name to a *_template). \
C16.ts: to_jer_identifier only maps '-' to '_'. \
Not decided: collisions between distinct ASN.1 names after mangling; exact case-conversion output for arbitrary names.".into();
    ctx.assumptions = vec![
        "the nightly compiler's keyword table (Symbol::is_reserved for editions 2015-2024) is the reference for 'strict and reserved keyword'".into(),
        "weak keywords (union, macro_rules, ...) are legal identifiers and are not required in the table".into(),
    ];
    ctx.rule("table containment against rustc's keyword list; guard/emission pairs of the manglers; identifier-annotation decisions evaluated for equal/different spellings");
    // "types in title case": the name a hoisted component type is declared under and the name it is referred to by are both
    // the case rule applied to the ASN.1 identifier — not to an identifier that was already converted (= C01.inner)
    crate::rules::c01::inner_names(m, ctx, "C16.inner");

    // ---------------- keyword table ----------------
    let table = m.consts.iter().filter_map(|c| str_array(&c.expr).map(|v| (c, v))).find(|(_, v)| v.iter().any(|s| s == "fn") && v.iter().any(|s| s == "struct"));
    let Some((tc, table)) = table else {
        ctx.fail_closed("C16.kw", "keyword table (string array containing \"fn\" and \"struct\") not found");
        return;
    };
    ctx.anchor(&format!("keyword table {} @ {}:{}", tc.name, tc.file, tc.line));
    let tset: BTreeSet<String> = table.iter().cloned().collect();
    let mut required: BTreeSet<String> = BTreeSet::new();
    for (ed, list) in &facts.keywords {
        for k in list {
            if k == "_" || k.starts_with('\'') {
                continue;
            }
            required.insert(k.clone());
            let _ = ed;
        }
    }
    ctx.floor("C16.kw/rustc-keywords", required.len(), 50);
    for k in &required {
        ctx.oblige("C16.kw", k, true);
        if !tset.contains(k) {
            let eds: Vec<String> = facts.keywords.iter().filter(|(_, l)| l.contains(k)).map(|(e, _)| e.clone()).collect();
            ctx.violate("C16.kw", &format!("missing-keyword:{}", k), &tc.file, tc.line,
                &format!("`{}` is a strict/reserved Rust keyword (editions {:?}) but is not in {}: an ASN.1 name `{}` is emitted unescaped and the bindings do not compile", k, eds, tc.name, k));
        }
    }
    ctx.sample(json!({"keyword_table_size": table.len(), "rustc_keywords": required.len(), "editions": facts.keywords.keys().collect::<Vec<_>>()}));

    // ---------------- manglers ----------------
    let tname = tc.name.clone();
    // a mangler is any generator fn that consults the table, however the lookup is written
    let manglers: Vec<&FnInfo> = m.fns.iter().filter(|f| f.module.starts_with("generator::rasn") && idents_of(&f.block).iter().any(|i| *i == tname)).collect();
    ctx.floor("C16.kw/manglers-with-keyword-test", manglers.len(), 3);
    for f in &manglers {
        ctx.func(&f.key);
        ctx.oblige("C16.kw", &format!("guard:{}", f.name), true);
        // the `if <lookup of ARG in KW> { .. }` decision
        struct C<'a> {
            t: &'a str,
            out: Vec<syn::ExprIf>,
        }
        impl<'a> model::DeepCb for C<'a> {
            fn expr(&mut self, e: &syn::Expr) {
                if let syn::Expr::If(i) = e {
                    if idents_of(&i.cond).iter().any(|x| x == self.t) {
                        self.out.push(i.clone());
                    }
                }
            }
        }
        let mut c = C { t: &tname, out: vec![] };
        model::deep_walk_block(&f.block, &mut c);
        if c.out.len() != 1 {
            ctx.violate("C16.kw", &format!("guard:{}:count", f.name), &f.file, f.line, &format!("{}: expected exactly one keyword test, found {}", f.name, c.out.len()));
            continue;
        }
        let i = &c.out[0];
        let cond = tok(&i.cond);
        // the tested spelling: the one lower-case variable of the condition
        let cond_vars: Vec<String> = idents_of(&i.cond).into_iter().filter(|x| *x != tname && x != "Self" && x != "self" && x.chars().next().map(|c| c.is_lowercase()).unwrap_or(false))
            .filter(|x| !cond.contains(&format!(".{}(", x)) && !cond.contains(&format!("|{}|", x)))
            .collect::<BTreeSet<String>>().into_iter().collect();
        if cond_vars.len() != 1 {
            ctx.fail_closed("C16.kw", &format!("{}: cannot tell which spelling the keyword test `{}` looks at (candidates {:?})", f.name, cond, cond_vars));
            continue;
        }
        let arg = cond_vars[0].clone();
        let argvar = arg.clone();
        let then = tok(&i.then_branch);
        let prefixed = then.contains("\"r_\"") || then.contains("\"R_\"") || then.contains("\"R_{") || then.contains("\"r_{");
        if !prefixed {
            ctx.violate("C16.kw", &format!("guard:{}:prefix", f.name), &f.file, span_line(i), &format!("{}: a keyword hit must be escaped with the r_/R_ prefix; then-branch is `{}`", f.name, then));
        }
        // the tested variable is the converted spelling: it is (re)bound after the fn's own conversion and is what the else-path returns
        let body = tok(&f.block);
        let param = f.sig.inputs.iter().filter_map(|a| match a { syn::FnArg::Typed(t) => Some(tok(&t.pat)), _ => None }).next().unwrap_or_default();
        let rebinding = body.contains(&format!("let {}=", argvar)) || body.contains(&format!("let mut {}=", argvar));
        let only_hyphen = body.contains(&format!("format_ident!(\"{{}}\",{}.replace('-',\"_\"))", param));
        if argvar == param && !rebinding && !only_hyphen {
            ctx.violate("C16.kw", &format!("guard:{}:tests-unconverted-name", f.name), &f.file, span_line(i),
                &format!("{}: the keyword test looks at the unconverted input `{}`; the spelling that is emitted (after case conversion) must be tested, e.g. `self` -> `Self`, `Type` -> `type`", f.name, arg));
        }
        // the tested spelling is the one that is emitted on a miss (else branch)
        if let Some((_, els)) = &i.else_branch {
            let e = tok(els).trim_start_matches('{').trim_end_matches('}').to_string();
            if e != argvar {
                ctx.violate("C16.kw", &format!("guard:{}:tests-other-spelling", f.name), &f.file, span_line(i),
                    &format!("{}: the keyword test looks at `{}` but the spelling emitted on a miss is `{}`: the emitted spelling itself must be tested (case conversion can create or remove a keyword: `self` -> `Self`, `Type` -> `type`)", f.name, arg, e));
            }
        }
        // the lookup itself, evaluated against the table as written: true for every entry, false for other spellings —
        // whatever the lookup is (contains, iter().any, binary_search over a table that may not be sorted, matches!)
        {
            let table_val = Val::List(table.iter().map(|s| Val::Str(s.clone())).collect());
            let cr0 = const_resolver(m);
            let tn = tname.clone();
            let cr = move |name: &str| -> Option<Val> {
                let last = name.rsplit("::").next().unwrap_or(name).trim();
                if last == tn { Some(table_val.clone()) } else { cr0(name) }
            };
            let hook = |_: &Evaluator, name: &str, a: &[Val]| -> Option<Result<Val, String>> {
                if name == ".binary_search" {
                    // the textbook algorithm over the table in its written order (exact when the table is sorted)
                    if let (Some(Val::List(items)), Some(Val::Str(x))) = (a.first(), a.get(1)) {
                        let keys: Vec<&str> = items.iter().map(|v| match v { Val::Str(s) => s.as_str(), _ => "" }).collect();
                        let (mut lo, mut hi) = (0usize, keys.len());
                        while lo < hi {
                            let mid = lo + (hi - lo) / 2;
                            match keys[mid].cmp(x.as_str()) {
                                std::cmp::Ordering::Equal => return Some(Ok(Val::Ctor("Ok".into(), vec![Val::int(mid as i128)], Default::default()))),
                                std::cmp::Ordering::Less => lo = mid + 1,
                                std::cmp::Ordering::Greater => hi = mid,
                            }
                        }
                        return Some(Ok(Val::Ctor("Err".into(), vec![Val::int(lo as i128)], Default::default())));
                    }
                }
                None
            };
            let ev = Evaluator { consts: &cr, call_hook: &hook, inline: None };
            let mut missed: Vec<String> = vec![];
            let mut spurious: Vec<String> = vec![];
            let mut failed = None;
            let probes: Vec<(String, bool)> = table.iter().map(|k| (k.clone(), true)).chain(["zebra", "Fn", "a", "zz", "selfish", ""].iter().filter(|k| !tset.contains(**k)).map(|k| (k.to_string(), false))).collect();
            for (k, want) in &probes {
                let mut env = Env::new();
                env.insert(argvar.clone(), Val::Str(k.clone()));
                match ev.eval(&i.cond, &mut env) {
                    Ok(Val::Bool(b)) if b == *want => {}
                    Ok(Val::Bool(_)) => if *want { missed.push(k.clone()) } else { spurious.push(k.clone()) },
                    Ok(o) => { failed = Some(format!("condition evaluates to {}", o.show())); break; }
                    Err(e) => { failed = Some(e); break; }
                }
            }
            ctx.oblige("C16.kw", &format!("lookup:{}", f.name), true);
            if let Some(e) = failed {
                ctx.fail_closed("C16.kw", &format!("{}: `{}`: {}", f.name, cond, e));
            } else if !missed.is_empty() || !spurious.is_empty() {
                ctx.violate("C16.kw", &format!("guard:{}:condition", f.name), &f.file, span_line(i),
                    &format!("{}: the escape condition `{}` misses {} of the {} table entries ({}){}: those names are emitted unescaped", f.name, cond, missed.len(), table.len(),
                        missed.iter().take(12).cloned().collect::<Vec<_>>().join(" "),
                        if spurious.is_empty() { String::new() } else { format!(" and fires for the non-keywords {:?}", spurious) }));
            }
        }
        // the test must come after the conversion: the conversion statements precede the `if` in source order
        ctx.oblige("C16.chars", &format!("hyphen:{}", f.name), true);
        if !body.contains(".replace('-',\"_\")") {
            ctx.violate("C16.chars", &format!("hyphen:{}", f.name), &f.file, f.line, &format!("{} does not replace '-' (legal in ASN.1 identifiers, illegal in Rust)", f.name));
        }
    }
    // const case delegates to snake case
    if let Some(f) = anchor_fn(m, ctx, "C16.kw", Some("Rasn"), "to_rust_const_case", None) {
        ctx.oblige("C16.kw", "guard:to_rust_const_case", true);
        // evaluated with a snake-case mangler that escapes: the constant name is that result in upper case, nothing else
        let consts = const_resolver(m);
        let hook = |_: &Evaluator, name: &str, a: &[Val]| -> Option<Result<Val, String>> {
            match name {
                ".to_rust_snake_case" => match a.get(1) { Some(Val::Str(n)) => Some(Ok(Val::Str(format!("r_{}", n.replace('-', "_"))))), _ => None },
                "Ident::new" | "proc_macro2::Ident::new" => Some(Ok(a.first().cloned().unwrap_or(Val::Unit))),
                "Span::call_site" | "proc_macro2::Span::call_site" => Some(Ok(Val::Unit)),
                _ => None,
            }
        };
        let ev = Evaluator { consts: &consts, call_hook: &hook, inline: None };
        let p = f.sig.inputs.iter().filter_map(|a| match a { syn::FnArg::Typed(t) => Some(tok(&t.pat)), _ => None }).next().unwrap_or("input".into());
        let mut env = Env::new();
        env.insert("self".into(), Val::ctor("Rasn"));
        env.insert(p, Val::Str("type-x".into()));
        match ev.eval_fn_body(&f.block, &mut env) {
            Ok(Val::Str(out)) | Ok(Val::Sym(out)) => {
                if out != "R_TYPE_X" {
                    ctx.violate("C16.kw", "guard:to_rust_const_case", &f.file, f.line, &format!("to_rust_const_case(\"type-x\") = `{}` when to_rust_snake_case gives `r_type_x`: it must be the upper-cased output of to_rust_snake_case (which escapes keywords and hyphens)", out));
                }
            }
            Ok(o) => ctx.fail_closed("C16.kw", &format!("[to_rust_const_case]: {}", o.show())),
            Err(e) => ctx.fail_closed("C16.kw", &format!("[to_rust_const_case]: {}", e)),
        }
    }
    for n in ["to_rust_snake_case", "to_rust_enum_identifier", "to_rust_title_case"] {
        if !manglers.iter().any(|f| f.name == n) {
            ctx.violate("C16.kw", &format!("guard:{}:missing", n), "rasn-compiler/src/generator/rasn/utils.rs", 0, &format!("{} has no keyword test", n));
        }
    }

    // ---------------- identifier annotation pairing ----------------
    annotation_sites(m, ctx);

    // ---------------- no identifier is built from a raw ASN.1 name outside the manglers ----------------
    bypass(m, ctx, &manglers);
    case_rules(m, ctx);
    // the internal name of a nested CHOICE value split into its ASN.1 parts: both pass through the manglers (= C07.nest)
    crate::rules::c07::nested_choice_ident(m, ctx, "C16.bypass");

    // ---------------- typescript ----------------
    if let Some(f) = anchor_fn(m, ctx, "C16.ts", None, "to_jer_identifier", Some("typescript")) {
        ctx.oblige("C16.ts", "to_jer_identifier", true);
        let p = f.sig.inputs.iter().filter_map(|a| match a { syn::FnArg::Typed(t) => Some(tok(&t.pat)), _ => None }).next().unwrap_or_default();
        if tok(&f.block) != format!("{{{}.replace('-',\"_\")}}", p) {
            ctx.violate("C16.ts", "to_jer_identifier", &f.file, f.line, "to_jer_identifier must map '-' to '_' and change nothing else (JER uses the ASN.1 names)");
        }
    }
}

fn idents_of<T: quote::ToTokens>(t: &T) -> Vec<String> {
    let mut v = vec![];
    model::collect_idents(&t.to_token_stream(), &mut v);
    v
}

fn annotation_sites(m: &Model, ctx: &mut Ctx) {
    let consts = const_resolver(m);
    // fns that need a decision: emit a type under title_case(tld.name) through a *_template, or emit members/enumerals
    let mut need: Vec<&FnInfo> = vec![];
    for f in m.fns.iter().filter(|f| f.module.starts_with("generator::rasn")) {
        let b = tok(&f.block);
        let emits_type = b.contains("let name=self.to_rust_title_case(&tld.name)") && model::calls_in(&f.block).iter().any(|c| model::callee_name(c).map(|n| n.ends_with("_template")).unwrap_or(false) && c.args.iter().any(|a| { let t = tok(a); t == "name" || t == "&name" || t == "name.clone()" }));
        let emits_member = (b.contains("to_rust_enum_identifier(&e.name)") && b.contains("#name=#index")) || f.name == "format_member_or_option" || f.name == "format_name_and_common_annotations";
        if emits_type || emits_member {
            need.push(f);
        }
    }
    ctx.floor("C16.annot/emitting-fns", need.len(), 8);
    let mut sites = 0;
    for f in need {
        ctx.func(&f.key);
        struct C {
            out: Vec<syn::ExprIf>,
        }
        impl model::DeepCb for C {
            fn expr(&mut self, e: &syn::Expr) {
                if let syn::Expr::If(i) = e {
                    let t = tok(&i.then_branch);
                    let c = tok(&i.cond);
                    if (t.contains("format_identifier_annotation(") || t.contains("quote!(identifier=#name)")) && c.contains("!=") {
                        self.out.push(i.clone());
                    }
                }
            }
        }
        let mut c = C { out: vec![] };
        model::deep_walk_block(&f.block, &mut c);
        ctx.oblige("C16.annot", &format!("site:{}", f.name), true);
        if c.out.len() != 1 {
            ctx.violate("C16.annot", &format!("site:{}", f.name), &f.file, f.line,
                &format!("{} emits a name produced by a mangler but has {} identifier-annotation decisions (expected 1): when the Rust identifier differs from the ASN.1 name the original spelling must be recorded in `identifier = \"..\"`", f.name, c.out.len()));
            continue;
        }
        sites += 1;
        let stmt = &c.out[0];
        // evaluate for equal / different spellings
        for (mangled, original, group) in [("Abc", "Abc", false), ("Abc_def", "Abc-def", false), ("R_type", "type", false), ("abc", "abc", false)] {
            let key = format!("{}: mangled={} original={}", f.name, mangled, original);
            ctx.oblige("C16.annot", &key, true);
            let fired: RefCell<bool> = RefCell::new(false);
            // the spelling handed to format_identifier_annotation (its first argument)
            let recorded: RefCell<Option<Val>> = RefCell::new(None);
            let hook = |_: &Evaluator, name: &str, _args: &[Val]| -> Option<Result<Val, String>> {
                if name == ".format_identifier_annotation" {
                    *recorded.borrow_mut() = _args.get(1).cloned();
                }
                if name == ".push" || name == ".format_identifier_annotation" {
                    *fired.borrow_mut() = true;
                    return Some(Ok(Val::Sym("identifier".into())));
                }
                // the manglers: whatever they are given, the Rust spelling of this scenario
                if name == ".to_rust_title_case" || name == ".to_rust_snake_case" || name == ".to_rust_enum_identifier" || name == ".to_rust_const_case" {
                    return Some(Ok(Val::Str(mangled.into())));
                }
                None
            };
            let ev = Evaluator { consts: &consts, call_hook: &hook, inline: None };
            let mut env = Env::new();
            env.insert("name".into(), Val::Str(mangled.into()));
            let mut n = BTreeMap::new();
            n.insert("name".to_string(), Val::Str(original.into()));
            n.insert("comments".to_string(), Val::Str(String::new()));
            n.insert("ty".to_string(), Val::ctor("Null"));
            let holder = Val::Ctor("holder".into(), vec![], n);
            for v in ["tld", "e", "m", "o"] {
                env.insert(v.into(), holder.clone());
            }
            // `member.name()` accessor
            let hook2 = |ev2: &Evaluator, name: &str, args: &[Val]| -> Option<Result<Val, String>> {
                if name == ".name" {
                    return Some(Ok(Val::Str(original.into())));
                }
                hook(ev2, name, args)
            };
            let ev = Evaluator { consts: ev.consts, call_hook: &hook2, inline: None };
            env.insert("member".into(), Val::ctor("member"));
            env.insert("self".into(), Val::ctor("Rasn"));
            // locals the decision may use (`let rust_name = name.to_string();`): the function's own `let`s, best effort, in order
            for st in &f.block.stmts {
                if let syn::Stmt::Local(l) = st {
                    if let (syn::Pat::Ident(pi), Some(init)) = (&l.pat, &l.init) {
                        let var = pi.ident.to_string();
                        if env.contains_key(&var) {
                            continue;
                        }
                        if let Ok(v) = ev.eval(&init.expr, &mut env.clone()) {
                            if matches!(v, Val::Str(_) | Val::Bool(_)) {
                                env.insert(var, v);
                            }
                        }
                    }
                }
            }
            *fired.borrow_mut() = false;
            *recorded.borrow_mut() = None;
            let r = ev.eval(&syn::Expr::If(stmt.clone()), &mut env);
            match r {
                Ok(v) => {
                    let did = *fired.borrow() || matches!(&v, Val::Sym(s) if s.contains("identifier"));
                    let want = mangled != original || group;
                    if did != want {
                        ctx.violate("C16.annot", &format!("decision:{}:{}", f.name, if want { "differs" } else { "equal" }), &f.file, span_line(stmt),
                            &format!("[{}] the identifier annotation is {}: it must be emitted exactly when the Rust identifier differs from the ASN.1 name", key, if did { "emitted" } else { "missing" }));
                    }
                    if let (true, Some(Val::Str(sp))) = (did && mangled != original, recorded.borrow().clone()) {
                        if sp != original {
                            ctx.violate("C16.annot", &format!("records-rust-spelling:{}", f.name), &f.file, span_line(stmt),
                                &format!("[{}] the identifier annotation is given `{}`; it must record the original ASN.1 spelling `{}`", key, sp, original));
                        }
                    }
                }
                Err(e) => ctx.fail_closed("C16.annot", &format!("[{}]: {}", key, e)),
            }
        }
    }
    ctx.floor("C16.annot/sites", sites, 8);
    // the type-level annotation helper renders the original name
    if let Some(f) = anchor_fn(m, ctx, "C16.annot", Some("Rasn"), "format_identifier_annotation", None) {
        ctx.oblige("C16.annot", "renders-original-name", true);
        // evaluated for an ordinary definition (documented or not): the annotation carries the name as written
        let consts = const_resolver(m);
        let ev = Evaluator { consts: &consts, call_hook: &crate::eval::no_hook, inline: None };
        let params: Vec<String> = f.sig.inputs.iter().filter_map(|a| match a { syn::FnArg::Typed(t) => Some(tok(&t.pat)), _ => None }).collect();
        // … and for names that merely *resemble* the compiler's own synthetic names: an ASN.1 name cannot contain `_`, which is what
        // keeps the extension-group prefix (`ext_group_`) apart from the legal component name `ext-group-id`
        for (asn_name, comments) in [("Speed-Value", ""), ("Speed-Value", " the speed of the vehicle"), ("ext-group-id", ""), ("extGroupId", ""), ("inner-value", ""), ("anonymous-item", "")] {
            ctx.oblige("C16.annot", &format!("renders-original-name:{}", asn_name), true);
            let mut env = Env::new();
            env.insert("self".into(), Val::ctor("Rasn"));
            env.insert(params.first().cloned().unwrap_or("name".into()), Val::Str(asn_name.into()));
            env.insert(params.get(1).cloned().unwrap_or("comments".into()), Val::Str(comments.into()));
            env.insert(params.get(2).cloned().unwrap_or("ty".into()), Val::Ctor("Integer".into(), vec![Val::Opaque("i".into())], Default::default()));
            match ev.eval_fn_body(&f.block, &mut env) {
                Ok(v) => {
                    let t = v.show().replace(' ', "");
                    if !(t.contains(&format!("identifier=\"{}\"", asn_name)) || t.contains(&format!("identifier={}", asn_name))) {
                        ctx.violate("C16.annot", "renders-original-name", &f.file, f.line, &format!("format_identifier_annotation({:?}, comments {:?}) renders `{}`: it must render `identifier = <original ASN.1 name>` for ordinary (non-hoisted) definitions and components", asn_name, comments, t.chars().take(80).collect::<String>()));
                    }
                }
                Err(e) => ctx.fail_closed("C16.annot", &format!("[format_identifier_annotation]: {}", e)),
            }
        }
    }
}

/// `format_ident!` / `Ident::new` / text->TokenStream applied to an ASN.1 name that did not go through a mangler
fn bypass(m: &Model, ctx: &mut Ctx, manglers: &[&FnInfo]) {
    let mangler_names: Vec<String> = manglers.iter().map(|f| f.name.clone()).chain(["to_rust_const_case".to_string(), "to_rust_qualified_type".to_string()]).collect();
    let audit: serde_json::Value = std::fs::read_to_string(ctx.verif.join("audit/ident_sites.json")).ok().and_then(|s| serde_json::from_str(&s).ok()).unwrap_or(json!({"benign": {}}));
    let benign = audit["benign"].as_object().cloned().unwrap_or_default();
    let raw_markers = [".name", ".identifier", ".name()", "field_name", ".variant_name", ".enumerable", ".enumerated", ".selected_option", ".choice_name", ".module_reference"];
    let mut n = 0;
    for f in m.fns.iter().filter(|f| f.module.starts_with("generator::rasn")) {
        if mangler_names.contains(&f.name) {
            continue;
        }
        let mut sites: Vec<(String, usize)> = vec![];
        for mac in model::all_macros(&f.block) {
            if mac.path.is_ident("format_ident") {
                sites.push((model::norm_tokens(&mac.tokens.to_string()), mac.path.segments[0].ident.span().start().line));
            }
        }
        for c in model::calls_in(&f.block) {
            let callee = tok(&c.func);
            if callee == "Ident::new" || callee == "TokenStream::from_str" {
                sites.push((tok(&c.args), span_line(&c)));
            }
        }
        for mc in model::method_calls_in(&f.block) {
            if mc.method == "parse" && tok(&mc).contains("TokenStream") {
                sites.push((tok(&mc.receiver), span_line(&mc)));
            }
        }
        // inline `{var}` arguments of format_ident! refer to locals: resolve one step
        let body = tok(&f.block);
        for (args, line) in sites {
            n += 1;
            let mut text = args.clone();
            // substitute locals named in "{name}" placeholders by their initialiser text
            for part in args.split('{').skip(1) {
                if let Some(var) = part.split('}').next() {
                    if !var.is_empty() && var.chars().all(|c| c.is_alphanumeric() || c == '_') {
                        if let Some(init) = body.split(&format!("let {}=", var)).nth(1).and_then(|s| s.split(';').next()) {
                            text.push_str(" <- ");
                            text.push_str(init);
                        }
                    }
                }
            }
            let mentions_raw = raw_markers.iter().any(|mk| text.contains(mk));
            if !mentions_raw {
                continue;
            }
            // every raw mention must sit inside a mangler call
            let mangled = mangler_names.iter().any(|mn| text.contains(&format!("{}(", mn)));
            let key = format!("{}|{}", f.name, args.chars().take(60).collect::<String>());
            ctx.oblige("C16.bypass", &key, true);
            // whatever the audit says about keywords: a name that did not go through a mangler still carries its hyphens, and
            // format_ident! / Ident::new panic on a text that is no identifier (`&My-Type` is a legal class field name)
            // (checked per interpolated local: one mangled part does not excuse a raw one)
            let mut raw_parts: Vec<String> = vec![];
            for part in text.split(" <- ") {
                let is_raw = raw_markers.iter().any(|mk| part.contains(mk));
                let handled = mangler_names.iter().any(|mn| part.contains(&format!("{}(", mn))) || part.contains(".replace('-',\"_\")") || part.contains(".replace(\"-\",\"_\")");
                // a part that only names other locals (`"{a}_{b}"`) is judged through their initialisers
                let only_placeholders = part.starts_with('"') && !part.contains('.');
                if is_raw && !handled && !only_placeholders {
                    raw_parts.push(part.to_string());
                }
            }
            if !raw_parts.is_empty() {
                ctx.violate("C16.bypass", &format!("hyphen:{}", crate::report::sanitize_key(&key)), &f.file, line,
                    &format!("{} builds an identifier from an ASN.1 name that may contain `-` without replacing it (`{}` in `{}`): `format_ident!` panics on `Set1_My-Type`", f.name, raw_parts[0].chars().take(100).collect::<String>(), text.chars().take(100).collect::<String>()));
            }
            if mangled || benign.contains_key(&crate::report::sanitize_key(&key)) {
                continue;
            }
            ctx.violate("C16.bypass", &crate::report::sanitize_key(&key), &f.file, line,
                &format!("{} builds an identifier from an ASN.1 name without the case/keyword manglers (`{}`): a name that is a Rust keyword (or differs from the escaped spelling used at the declaration) is emitted as is", f.name, text.chars().take(140).collect::<String>()));
        }
    }
    ctx.extra.insert("identifier_construction_sites".into(), json!(n));
}


/// C16.case: "types in title case, components in snake case, values in upper snake case, hyphens removed". The manglers are
/// evaluated on names whose hyphens stand before a letter, a digit and a capital: the documented spelling comes out — in
/// particular no `_` survives in a type name (`Type-1` is `Type1`), and a hyphen becomes exactly one `_` in snake / constant case.
fn case_rules(m: &Model, ctx: &mut Ctx) {
    use crate::eval::{Env, Evaluator, Val};
    let rule = "C16.case";
    let base_consts = crate::rules::util::const_resolver(m);
    // the keyword table is an associated constant of the backend: resolved to the array as written
    let table: Option<Vec<String>> = m.consts.iter().filter_map(|c| str_array(&c.expr)).find(|v| v.iter().any(|s| s == "fn") && v.iter().any(|s| s == "struct"));
    let consts = |n: &str| -> Option<Val> {
        if n.ends_with("RUST_KEYWORDS") {
            return table.as_ref().map(|t| Val::List(t.iter().map(|s| Val::Str(s.clone())).collect()));
        }
        base_consts(n)
    };
    let inl = crate::rules::util::inline_all(m, &["Rasn"]);
    let hook = |_: &Evaluator, name: &str, a: &[Val]| -> Option<Result<Val, String>> {
        match name {
            // identifiers are modelled by their text
            "format_ident!" => None,
            "Ident::new" => a.first().cloned().map(Ok),
            ".to_token_stream" | ".to_owned" | ".clone" | ".into_token_stream" if a.len() == 1 => Some(Ok(a[0].clone())),
            "TokenStream::from_str" | "Span::call_site" => a.first().cloned().map(|v| Ok(Val::Ctor("Ok".into(), vec![v], Default::default()))).or(Some(Ok(Val::Unit))),
            _ => None,
        }
    };
    let ev = Evaluator { consts: &consts, call_hook: &hook, inline: Some(&inl) };
    let cases: Vec<(&str, Vec<(&str, &str)>)> = vec![
        ("to_rust_title_case", vec![("Type-1", "Type1"), ("Layer-2-Info", "Layer2Info"), ("Rel-15-Choice", "Rel15Choice"), ("CAM-PDU", "CAMPDU"), ("my-Type", "MyType"), ("Profile-3gpp", "Profile3gpp"), ("X509-Cert", "X509Cert"), ("Plain", "Plain")]),
        ("to_rust_snake_case", vec![("station-1", "station_1"), ("my-field", "my_field"), ("plain", "plain")]),
    ];
    for (fname, list) in cases {
        let Some(f) = m.fns.iter().find(|f| f.name == fname && f.self_ty.as_deref() == Some("Rasn")) else {
            ctx.fail_closed(rule, &format!("anchor not found: Rasn::{}", fname));
            continue;
        };
        let param = f.sig.inputs.iter().filter_map(|a| match a { syn::FnArg::Typed(t) => Some(tok(&t.pat)), _ => None }).next().unwrap_or("input".into());
        for (name, want) in list {
            ctx.oblige(rule, &format!("{}:{}", fname, name), true);
            let mut env = Env::new();
            env.insert("self".into(), Val::ctor("Rasn"));
            env.insert(param.clone(), Val::Str(name.into()));
            match ev.eval_fn_body(&f.block, &mut env) {
                Ok(v) => {
                    let got = match &v { Val::Sym(s) | Val::Str(s) => s.clone(), o => o.show() };
                    let got = got.trim_matches('"').to_string();
                    if got != want {
                        ctx.violate(rule, &format!("{}:{}", fname, if got.contains('_') && !want.contains('_') { "separator-kept" } else { "spelling" }), &f.file, f.line,
                            &format!("{}(\"{}\") is `{}`; by the documented case rules ({}) it is `{}`", fname, name, got, if fname.contains("title") { "title case, hyphens removed" } else { "snake case, a hyphen becomes one underscore" }, want));
                    }
                }
                Err(e) => ctx.fail_closed(rule, &format!("[{}({})]: {}", fname, name, e)),
            }
        }
    }
}
