//! C14 — ENUMERATED items get the numbers X.680 §20 assigns (dependence and table clauses).
use crate::eval::{Env, Evaluator, Val};
use crate::model::{self, tok, Model};
use crate::report::Ctx;
use crate::rules::util::*;
use serde_json::json;
use std::collections::BTreeMap;

/// X.680 (02/2021) clause 20 numbering. `None` = identifier-only. Returns None when the input violates the clause's own
/// preconditions (duplicate explicit numbers; an additional NamedNumber not greater than its predecessors or used in the root).
fn spec_numbering(root: &[Option<i128>], add: &[Option<i128>]) -> Option<(Vec<i128>, Vec<i128>)> {
    let explicit: Vec<i128> = root.iter().filter_map(|x| *x).collect();
    for (i, e) in explicit.iter().enumerate() {
        if explicit[..i].contains(e) {
            return None;
        }
    }
    let mut next = 0i128;
    let mut r = vec![];
    for it in root {
        match it {
            Some(n) => r.push(*n),
            None => {
                while explicit.contains(&next) {
                    next += 1;
                }
                r.push(next);
                next += 1;
            }
        }
    }
    let mut a = vec![];
    let mut prev: Option<i128> = None;
    for it in add {
        let n = match it {
            Some(n) => {
                if r.contains(n) || prev.map(|p| *n <= p).unwrap_or(false) {
                    return None;
                }
                *n
            }
            None => {
                let mut c = prev.map(|p| p + 1).unwrap_or(0).max(0);
                while r.contains(&c) {
                    c += 1;
                }
                c
            }
        };
        a.push(n);
        prev = Some(n);
    }
    Some((r, a))
}

/// C14.order: "the original enumeral identifiers are preserved in order" between the parser and the generator: the
/// lexer->IR conversion `From<(root, marker, additions)> for Enumerated` is evaluated on enumerals whose numbers do not
/// ascend in source order — the member list is root ++ additions exactly as written (names and numbers), with and
/// without a marker; nothing is sorted, dropped or renumbered there.
fn conversion_keeps_order(m: &Model, ctx: &mut Ctx) {
    let rule = "C14.order";
    let fs: Vec<&crate::model::FnInfo> = crate::rules::c05::from_impls(m).into_iter().filter(|f| f.self_ty.as_deref() == Some("Enumerated")).collect();
    ctx.floor("C14.order/conversions", fs.len(), 1);
    let consts = const_resolver(m);
    let ev = Evaluator { consts: &consts, call_hook: &crate::eval::no_hook, inline: None };
    let enumeral = |n: &str, i: i128| Val::Ctor("Enumeral".into(), vec![], [("name".to_string(), Val::Str(n.into())), ("index".to_string(), Val::int(i)), ("description".to_string(), Val::none())].into_iter().collect());
    for f in fs {
        ctx.func(&f.key);
        let Some(syn::FnArg::Typed(pt)) = f.sig.inputs.first() else { continue };
        let pname = tok(&pt.pat).replace("mut ", "");
        let nested = tok(&pt.ty).starts_with("((");
        let cases: Vec<(&str, Vec<(&str, i128)>, bool, Option<Vec<(&str, i128)>>)> = vec![
            ("descending root, marker", vec![("a", 5), ("b", 0), ("c", 2)], true, None),
            ("descending root, no marker", vec![("a", 5), ("b", 0), ("c", 2)], false, None),
            ("descending root and additions", vec![("a", 5), ("b", 0)], true, Some(vec![("d", 9), ("e", 7)])),
            ("negative number first", vec![("x", 1), ("y", -1), ("z", 0)], true, Some(vec![("w", 2)])),
        ];
        for (label, root, marker, adds) in cases {
            ctx.oblige(rule, &format!("{}:{}", f.key, label), true);
            let rv = Val::List(root.iter().map(|(n, i)| enumeral(n, *i)).collect());
            let mv = if marker { Val::some(Val::ctor("ExtensionMarker")) } else { Val::none() };
            let av = match &adds { Some(a) => Val::some(Val::List(a.iter().map(|(n, i)| enumeral(n, *i)).collect())), None => Val::none() };
            let input = if nested { Val::Tuple(vec![Val::Tuple(vec![rv, mv, av])]) } else { Val::Tuple(vec![rv, mv, av]) };
            let mut env = Env::new();
            env.insert(pname.clone(), input);
            let want: Vec<(String, i128)> = root.iter().chain(adds.iter().flatten()).map(|(n, i)| (n.to_string(), *i)).collect();
            match ev.eval_fn_body(&f.block, &mut env) {
                Ok(Val::Ctor(_, _, fl)) => {
                    let got: Vec<(String, i128)> = match fl.get("members") {
                        Some(Val::List(l)) => l.iter().map(|e| match e { Val::Ctor(_, _, ef) => (match ef.get("name") { Some(Val::Str(s)) => s.clone(), _ => "?".into() }, match ef.get("index") { Some(Val::Int { v, .. }) => *v, _ => i128::MIN }), _ => ("?".into(), i128::MIN) }).collect(),
                        _ => vec![],
                    };
                    if got != want {
                        ctx.violate(rule, "conversion-reorders", &f.file, f.line,
                            &format!("the lexer->IR conversion for ENUMERATED turns the parsed enumerals {:?} ({}) into the member list {:?}: identifiers and their numbers must be kept in source order (the generator emits the members in list order, PER encodes by position)", want, label, got));
                    }
                }
                Ok(o) => ctx.fail_closed(rule, &format!("[{}]: {}", label, o.show().chars().take(100).collect::<String>())),
                Err(e) => ctx.fail_closed(rule, &format!("[{}]: {}", label, e)),
            }
        }
    }
}

pub fn run(m: &Model, ctx: &mut Ctx) {
    ctx.explanation = "C14.num: the numbering code of the lexer (the closure(s) that build `Enumeral { .. }` inside the parser constructors called by enumerated_body, with the constructors' own leading lets) is evaluated abstractly on every enumeration with up to 4 root items and up to 3 additions, each identifier-only or carrying a number from the property's value set {-1,0,1,2,5}, and compared with the numbering of X.680 clause 20 (20.3: identifier-only root items get successive integers from 0 excluding every number written explicitly in the root; 20.6: an identifier-only addition gets the smallest number not used in the root and greater than all preceding additions); inputs that violate the clause's own preconditions are skipped. Explicit numbers (including negative ones), identifiers and order are compared in the same run. \
C14.start: the root list is numbered from 0 and the additions' numbering is derived from the root list, never from a constant. \
C14.keep: the number parser is signed (i128) and optional. \
C14.emit: the generator emits Literal::i128_unsuffixed(e.index) as the discriminant of the same enumeral and keeps iteration order (no filter/sort/reverse on the member list). \
Not decided: enumerations larger than the evaluated domain (the numbering code is a fold over the list with a counter and two membership tests; the domain covers every order relation between the counter, the explicit numbers and the root's numbers).".into();
    ctx.assumptions = vec!["nom's many0 / fold_many0 deliver the parsed enumerals left to right".into()];
    ctx.rule("abstract evaluation of the numbering code over all enumerations of <=4 root items and <=3 additions on {implicit,-1,0,1,2,5}, compared with the X.680 clause 20 oracle; def-use of the additions' start value; template checks");
    let consts = const_resolver(m);
    // helper fns the numbering code may be split into are followed (every uniquely named free fn of the crate)
    let inl = inline_all(m, &[]);
    let ev = Evaluator { consts: &consts, call_hook: &crate::eval::no_hook, inline: Some(&inl) };

    conversion_keeps_order(m, ctx);
    let Some(body) = anchor_fn(m, ctx, "C14.start", None, "enumerated_body", Some("lexer::enumerated")) else { return };
    // the two parser constructors: (callee fn name, argument expressions), in source order
    let ctor_calls: Vec<syn::ExprCall> = model::calls_in(&body.block).into_iter().filter(|c| {
        let n = model::callee_name(c).unwrap_or_default();
        m.fns.iter().any(|f| f.name == n && f.module.ends_with("lexer::enumerated") && tok(&f.block).contains("Enumeral{"))
    }).collect();
    ctx.oblige("C14.start", "root-from-zero", true);
    ctx.oblige("C14.start", "additions-continue-after-root", true);
    if ctor_calls.len() != 2 {
        ctx.violate("C14.start", "call-count", &body.file, body.line, &format!("enumerated_body must number the root list and the additions (two calls of numbering parser constructors), found {}", ctor_calls.len()));
        return;
    }
    let btxt = tok(&body.block);
    let rootvar = btxt.split("(input,").nth(1).and_then(|s| s.split(")=").next()).unwrap_or("").to_string();
    if tok(&ctor_calls[0].args) != "0" {
        ctx.violate("C14.start", "root-from-zero", &body.file, body.line, &format!("root enumerals must be numbered from 0 ({}({}))", model::callee_name(&ctor_calls[0]).unwrap_or_default(), tok(&ctor_calls[0].args)));
    }
    let a1 = tok(&ctor_calls[1].args);
    if rootvar.is_empty() || !a1.contains(&rootvar) || a1.chars().all(|ch| ch.is_ascii_digit()) {
        ctx.violate("C14.start", "additions-continue-after-root", &body.file, body.line,
            &format!("the numbering of the additions starts from `{}`: it must be derived from the root list so that additions never restart at a number the root already uses", a1));
    }

    // numbering evaluation
    let enumeral_val = |name: &str, n: i128| {
        let mut f = BTreeMap::new();
        f.insert("name".to_string(), Val::Str(name.into()));
        f.insert("index".to_string(), Val::int(n));
        f.insert("description".to_string(), Val::none());
        Val::Ctor("Enumeral".into(), vec![], f)
    };
    let item = |name: &str, idx: Option<i128>| Val::Tuple(vec![Val::Str(name.into()), idx.map(|i| Val::some(Val::int(i))).unwrap_or(Val::none()), Val::none(), Val::none()]);
    let read = |v: Val| -> Result<Vec<(String, i128)>, String> {
        match v {
            Val::List(l) => l.iter().map(|e| match e {
                Val::Ctor(_, _, f) => match (f.get("name"), f.get("index")) {
                    (Some(Val::Str(n)), Some(Val::Int { v, .. })) => Ok((n.clone(), *v)),
                    _ => Err(format!("enumeral without name/index: {}", e.show())),
                },
                o => Err(format!("non-enumeral in the result: {}", o.show())),
            }).collect(),
            o => Err(format!("numbering returned {}", o.show())),
        }
    };
    // number(list) for one constructor call: binds the constructor's parameter to the evaluated argument, runs its leading
    // lets, then applies the Enumeral-building closure (a whole-list closure, or a fold closure applied left to right)
    let number = |call: &syn::ExprCall, root_result: &[(String, i128)], items: &[(String, Option<i128>)]| -> Result<Vec<(String, i128)>, String> {
        let fname = model::callee_name(call).unwrap_or_default();
        let f = m.fns.iter().find(|f| f.name == fname && f.module.ends_with("lexer::enumerated")).ok_or("constructor fn not found")?;
        let mut outer = Env::new();
        if !rootvar.is_empty() {
            outer.insert(rootvar.clone(), Val::List(root_result.iter().map(|(n, i)| enumeral_val(n, *i)).collect()));
        }
        let mut env = Env::new();
        let params: Vec<String> = f.sig.inputs.iter().filter_map(|a| match a { syn::FnArg::Typed(t) => Some(tok(&t.pat)), _ => None }).collect();
        for (p, a) in params.iter().zip(call.args.iter()) {
            env.insert(p.clone(), ev.eval(a, &mut outer)?);
        }
        struct C {
            out: Vec<syn::ExprClosure>,
        }
        impl model::DeepCb for C {
            fn expr(&mut self, e: &syn::Expr) {
                if let syn::Expr::Closure(c) = e {
                    if tok(&c.body).contains("Enumeral{") {
                        self.out.push(c.clone());
                    }
                }
            }
        }
        let mut c = C { out: vec![] };
        model::deep_walk_block(&f.block, &mut c);
        // outermost closure only
        let texts: Vec<String> = c.out.iter().map(|x| tok(x)).collect();
        let outer_cl: Vec<&syn::ExprClosure> = c.out.iter().enumerate().filter(|(i, _)| !texts.iter().enumerate().any(|(j, t)| j != *i && t.len() > texts[*i].len() && t.contains(&texts[*i]))).map(|(_, x)| x).collect();
        if outer_cl.len() != 1 {
            return Err(format!("{}: numbering closure not found", fname));
        }
        for st in &f.block.stmts {
            if let syn::Stmt::Local(l) = st {
                if let Some(init) = &l.init {
                    let v = ev.eval(&init.expr, &mut env)?;
                    if !matches!(ev.pat_match(&l.pat, &v, &mut env), crate::eval::PatM::Yes) {
                        return Err(format!("{}: cannot bind `{}`", fname, tok(&l.pat)));
                    }
                }
            }
        }
        let clo = syn::Expr::Closure(outer_cl[0].clone());
        let list: Vec<Val> = items.iter().map(|(n, i)| item(n, *i)).collect();
        if outer_cl[0].inputs.len() == 1 {
            read(ev.apply_closure(&clo, &[Val::List(list)], &env)?)
        } else {
            let mut acc = Val::List(vec![]);
            for it in list {
                acc = ev.apply_closure(&clo, &[acc, it], &env)?;
            }
            read(acc)
        }
    };
    let vals: [Option<i128>; 6] = [None, Some(-1), Some(0), Some(1), Some(2), Some(5)];
    fn all_lists(vals: &[Option<i128>], max_len: usize) -> Vec<Vec<Option<i128>>> {
        let mut out: Vec<Vec<Option<i128>>> = vec![vec![]];
        let mut frontier: Vec<Vec<Option<i128>>> = vec![vec![]];
        for _ in 0..max_len {
            let mut next = vec![];
            for l in &frontier {
                for v in vals {
                    let mut n = l.clone();
                    n.push(*v);
                    next.push(n);
                }
            }
            out.extend(next.iter().cloned());
            frontier = next;
        }
        out
    }
    let lists = all_lists(&vals, 4);
    let adds = all_lists(&vals, 3);
    let show = |l: &[Option<i128>], pre: &str| l.iter().enumerate().map(|(i, x)| match x { Some(n) => format!("{}{}({})", pre, i, n), None => format!("{}{}", pre, i) }).collect::<Vec<_>>().join(", ");
    let mut evaluated = 0usize;
    let mut reported: std::collections::BTreeSet<String> = std::collections::BTreeSet::new();
    'outer: for root in &lists {
        let root_items: Vec<(String, Option<i128>)> = root.iter().enumerate().map(|(i, x)| (format!("r-{}", i), *x)).collect();
        // the root result does not depend on the additions: evaluate it once
        let Some((want_root, _)) = spec_numbering(root, &[]) else { continue };
        let got_root = match number(&ctor_calls[0], &[], &root_items) {
            Ok(g) => g,
            Err(e) => {
                ctx.fail_closed("C14.num", &format!("[root {{ {} }}]: {}", show(root, "r"), e));
                break 'outer;
            }
        };
        evaluated += 1;
        let names_ok = got_root.iter().map(|x| x.0.clone()).collect::<Vec<_>>() == root_items.iter().map(|x| x.0.clone()).collect::<Vec<_>>();
        if !names_ok && reported.insert("identifier".into()) {
            ctx.violate("C14.num", "identifiers-in-order", &body.file, body.line, &format!("ENUMERATED {{ {} }}: the identifiers must be kept verbatim and in order; got {:?}", show(root, "r-"), got_root));
        }
        let got_nums: Vec<i128> = got_root.iter().map(|x| x.1).collect();
        if got_nums != want_root {
            let explicit_changed = root.iter().zip(got_nums.iter()).any(|(w, g)| w.map(|w| w != *g).unwrap_or(false));
            let dup = got_nums.iter().enumerate().any(|(i, g)| got_nums[..i].contains(g));
            let key = if explicit_changed { "explicit-number-kept" } else if dup { "root:reuses-used-number" } else { "root:not-clause-20" };
            if reported.insert(key.into()) {
                ctx.violate("C14.num", key, &body.file, body.line, &format!("ENUMERATED {{ {} }} is numbered {:?}; X.680 20.3 gives {:?} (explicit numbers kept, identifier-only items get successive integers from 0 skipping every number written explicitly)", show(root, "r"), got_nums, want_root));
            }
            continue;
        }
        for add in &adds {
            if add.is_empty() {
                continue;
            }
            let Some((_, want_add)) = spec_numbering(root, add) else { continue };
            let add_items: Vec<(String, Option<i128>)> = add.iter().enumerate().map(|(i, x)| (format!("a-{}", i), *x)).collect();
            let got = match number(&ctor_calls[1], &got_root, &add_items) {
                Ok(g) => g,
                Err(e) => {
                    ctx.fail_closed("C14.num", &format!("[{{ {}, ..., {} }}]: {}", show(root, "r"), show(add, "a"), e));
                    break 'outer;
                }
            };
            evaluated += 1;
            let got_nums: Vec<i128> = got.iter().map(|x| x.1).collect();
            if got_nums != want_add {
                let explicit_changed = add.iter().zip(got_nums.iter()).any(|(w, g)| w.map(|w| w != *g).unwrap_or(false));
                let reuse = got_nums.iter().enumerate().any(|(i, g)| want_root.contains(g) || got_nums[..i].contains(g));
                let key = if explicit_changed { "explicit-number-kept" } else if reuse { "additions:reuses-used-number" } else { "additions:not-clause-20" };
                if reported.insert(key.into()) {
                    ctx.violate("C14.num", key, &body.file, body.line, &format!("ENUMERATED {{ {}, ..., {} }}: the additions are numbered {:?}; X.680 20.6 gives {:?} (smallest number not used in the root and greater than all preceding additions)", show(root, "r"), show(add, "a"), got_nums, want_add));
                }
            }
        }
    }
    ctx.oblige_n("C14.num/enumerations", evaluated);
    for k in ["root", "additions", "explicit-number-kept", "identifiers-in-order"] {
        ctx.oblige("C14.num", k, true);
    }
    ctx.floor("C14.num/enumerations-evaluated", evaluated, 7000);
    ctx.sample(json!({"enumerations_evaluated": evaluated, "numbering_constructors": ctor_calls.iter().map(|c| tok(c)).collect::<Vec<_>>()}));

    // ---- signed number parser ----
    if let Some(e) = anchor_fn(m, ctx, "C14.keep", None, "enumeral", Some("lexer::enumerated")) {
        ctx.oblige("C14.keep", "signed-number-parser", true);
        if !tok(&e.block).contains("opt(in_parentheses(skip_ws_and_comments(i128)))") {
            ctx.violate("C14.keep", "signed-number-parser", &e.file, e.line, "the enumeral number must be parsed with a signed parser (i128) inside parentheses, and be optional");
        }
    }
    // ---- emission ----
    if let Some(g) = anchor_fn(m, ctx, "C14.emit", Some("Rasn"), "format_enum_members", None) {
        let b = tok(&g.block);
        ctx.oblige("C14.emit", "discriminant", true);
        if !(b.contains("let index=Literal::i128_unsuffixed(e.index)") && b.contains("#name=#index,")) {
            ctx.violate("C14.emit", "discriminant", &g.file, g.line, "each variant must be emitted as `<name> = <e.index>` with e.index rendered by Literal::i128_unsuffixed");
        }
        ctx.oblige("C14.emit", "order", true);
        let chain: Vec<String> = model::method_calls_in(&g.block).iter().map(|m| m.method.to_string()).collect();
        for bad in ["filter", "filter_map", "rev", "skip", "take", "sort", "sort_by", "sort_by_key", "dedup", "step_by", "skip_while", "take_while"] {
            if chain.iter().any(|c| c == bad) {
                ctx.violate("C14.emit", &format!("order:{}", bad), &g.file, g.line, &format!("format_enum_members applies `{}` to the enumeral list: every enumeral must be emitted once, in source order", bad));
            }
        }
        if !b.contains("enumerated.members.iter().enumerate().map(") {
            ctx.violate("C14.emit", "order", &g.file, g.line, "format_enum_members must map over enumerated.members in order");
        }
    }
}
