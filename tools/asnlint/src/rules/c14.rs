//! C14 — ENUMERATED items get the numbers X.680 §20 assigns (dependence and table clauses).
use crate::eval::{Env, Evaluator, Val};
use crate::model::{self, tok, Model};
use crate::report::Ctx;
use crate::rules::util::*;
use serde_json::json;
use std::collections::BTreeMap;

pub fn run(m: &Model, ctx: &mut Ctx) {
    ctx.explanation = "C14.keep: the enumeral fold closure is evaluated abstractly: an explicit number (including negative ones) is stored unchanged, the identifier is stored verbatim, items are appended in fold order; the number parser is signed (i128). \
C14.dep: the number given to an identifier-only enumeral must be data-dependent on the numbers already used in the type (X.680 §20.4-20.7: successive integers that *skip* used numbers; additions never reuse one): \
the closure is evaluated with an accumulator whose explicit numbers collide with the positional candidate, and a number computed from the position alone is reported. \
C14.start: numbering of the additions continues from a value derived from the root list, never from a constant. \
C14.emit: the generator emits Literal::i128_unsuffixed(e.index) as the discriminant of the same enumeral and keeps iteration order (no filter/sort/reverse on the member list). \
Not decided: the full §20 numbering algorithm over arbitrary explicit/implicit mixes once it depends on the used set.".into();
    ctx.assumptions = vec!["nom's fold_many0 applies the closure left to right to each parsed enumeral".into()];
    ctx.rule("abstract evaluation of the numbering closure over {explicit, identifier-only} x small accumulators; def-use of the additions' start value; template checks");
    let consts = const_resolver(m);
    let ev = Evaluator { consts: &consts, call_hook: &crate::eval::no_hook, inline: None };

    let Some(f) = anchor_fn(m, ctx, "C14", None, "enumerals", Some("lexer::enumerated")) else { return };
    let start_param = f.sig.inputs.iter().filter_map(|a| match a { syn::FnArg::Typed(t) => Some(tok(&t.pat)), _ => None }).next().unwrap_or("start_index".into());
    // the fold closure: the one whose body builds an Enumeral
    struct C {
        out: Vec<syn::ExprClosure>,
    }
    impl model::DeepCb for C {
        fn expr(&mut self, e: &syn::Expr) {
            if let syn::Expr::Closure(c) = e {
                if tok(&c.body).contains("Enumeral{") {
                    self.out.push(c.clone());
                }
            }
        }
    }
    let mut c = C { out: vec![] };
    model::deep_walk_block(&f.block, &mut c);
    if c.out.len() != 1 {
        ctx.fail_closed("C14", "enumerals(): numbering closure not found");
        return;
    }
    let clo = syn::Expr::Closure(c.out[0].clone());
    let mk_acc = |idx: &[i128]| -> Val {
        Val::List(idx.iter().enumerate().map(|(i, n)| {
            let mut f = BTreeMap::new();
            f.insert("name".to_string(), Val::Str(format!("e{}", i)));
            f.insert("index".to_string(), Val::int(*n));
            f.insert("description".to_string(), Val::none());
            Val::Ctor("Enumeral".into(), vec![], f)
        }).collect())
    };
    let item = |name: &str, idx: Option<i128>| Val::Tuple(vec![Val::Str(name.into()), idx.map(|i| Val::some(Val::int(i))).unwrap_or(Val::none()), Val::none(), Val::none()]);
    let apply = |acc: Val, it: Val, start: i128| -> Result<Vec<(String, i128)>, String> {
        let mut env = Env::new();
        env.insert(start_param.clone(), Val::int(start));
        match ev.apply_closure(&clo, &[acc, it], &env)? {
            Val::List(l) => l.iter().map(|e| match e {
                Val::Ctor(_, _, f) => match (f.get("name"), f.get("index")) {
                    (Some(Val::Str(n)), Some(Val::Int { v, .. })) => Ok((n.clone(), *v)),
                    _ => Err(format!("enumeral without name/index: {}", e.show())),
                },
                o => Err(format!("non-enumeral in accumulator: {}", o.show())),
            }).collect(),
            o => Err(format!("closure returned {}", o.show())),
        }
    };

    // ---- keep ----
    for n in [-1i128, 0, 1, 5, 1000] {
        for acc in [vec![], vec![0i128], vec![0, 1]] {
            for start in [0i128, 3] {
                let key = format!("explicit {} after {:?} start {}", n, acc, start);
                ctx.oblige("C14.keep", &key, true);
                match apply(mk_acc(&acc), item("x-y", Some(n)), start) {
                    Ok(l) => {
                        let last = l.last().cloned();
                        if l.len() != acc.len() + 1 || last.as_ref().map(|x| x.1) != Some(n) {
                            ctx.violate("C14.keep", "explicit-number-kept", &f.file, span_line(&c.out[0]), &format!("[{}] an explicit number must be stored unchanged as the last item; result {:?}", key, l));
                        }
                        if last.as_ref().map(|x| x.0.as_str()) != Some("x-y") {
                            ctx.violate("C14.keep", "identifier-verbatim", &f.file, span_line(&c.out[0]), &format!("[{}] the enumeral identifier must be stored verbatim; result {:?}", key, l));
                        }
                        let prefix_ok = l.iter().take(acc.len()).map(|x| x.1).collect::<Vec<_>>() == acc;
                        if !prefix_ok {
                            ctx.violate("C14.keep", "earlier-items-untouched", &f.file, span_line(&c.out[0]), &format!("[{}] earlier items must be left as they are, in order; result {:?}", key, l));
                        }
                    }
                    Err(e) => ctx.fail_closed("C14.keep", &format!("[{}]: {}", key, e)),
                }
            }
        }
    }
    // ---- dep: identifier-only after explicit numbers that collide with the positional candidate ----
    // every accumulator of up to 3 distinct numbers from the property's value set {-1,0,1,2,5} (one-step invariant of the
    // fold: whatever was numbered before, the number given next to an identifier-only item is not among the used ones)
    let vals = [-1i128, 0, 1, 2, 5];
    let mut accs: Vec<Vec<i128>> = vec![vec![]];
    for a in vals {
        accs.push(vec![a]);
        for b in vals {
            if b != a {
                accs.push(vec![a, b]);
                for c3 in vals {
                    if c3 != a && c3 != b {
                        accs.push(vec![a, b, c3]);
                    }
                }
            }
        }
    }
    let scenario_text: Vec<String> = accs.iter().map(|a| format!("identifier-only item after items numbered {:?}", a)).collect();
    let scenarios: Vec<(Vec<i128>, i128, &str)> = accs.iter().zip(scenario_text.iter()).map(|(a, t)| (a.clone(), 0i128, t.as_str())).collect();
    let mut positional_everywhere = true;
    let mut collision = None;
    for (acc, start, what) in &scenarios {
        ctx.oblige("C14.dep", what, true);
        match apply(mk_acc(acc), item("n", None), *start) {
            Ok(l) => {
                let got = l.last().map(|x| x.1).unwrap_or(-999);
                if got != acc.len() as i128 + start {
                    positional_everywhere = false;
                }
                if acc.contains(&got) && collision.is_none() {
                    collision = Some(format!("{} -> the identifier-only item gets {}, a number already used in the type", what, got));
                }
                if got < 0 {
                    ctx.violate("C14.dep", "negative-implicit-number", &f.file, span_line(&c.out[0]), &format!("{}: identifier-only item numbered {}", what, got));
                }
            }
            Err(e) => ctx.fail_closed("C14.dep", &format!("[{}]: {}", what, e)),
        }
    }
    if let Some(w) = collision {
        ctx.violate("C14.dep", if positional_everywhere { "numbering-by-position" } else { "reuses-used-number" }, &f.file, span_line(&c.out[0]),
            &format!("identifier-only enumerals are numbered {} the numbers used explicitly in the same type (X.680 §20.4: successive integers skipping used ones; all numbers distinct): {}",
                if positional_everywhere { "from their position alone, independent of" } else { "without skipping all of" }, w));
    }
    ctx.sample(json!({"numbering_closure": tok(&c.out[0]).chars().take(200).collect::<String>(), "positional": positional_everywhere}));

    // ---- start of additions ----
    if let Some(b) = anchor_fn(m, ctx, "C14.start", None, "enumerated_body", Some("lexer::enumerated")) {
        let calls: Vec<String> = model::calls_in(&b.block).iter().filter(|c| model::callee_name(c).as_deref() == Some("enumerals")).map(|c| tok(&c.args)).collect();
        ctx.oblige("C14.start", "root-from-zero", true);
        ctx.oblige("C14.start", "additions-continue-after-root", true);
        if calls.len() != 2 {
            ctx.violate("C14.start", "call-count", &b.file, b.line, &format!("enumerated_body must number the root list and the additions (two enumerals(..) calls), found {:?}", calls));
        } else {
            if calls[0] != "0" {
                ctx.violate("C14.start", "root-from-zero", &b.file, b.line, &format!("root enumerals must be numbered from 0 (enumerals({}))", calls[0]));
            }
            // the root list variable bound from the first call
            let body = tok(&b.block);
            let rootvar = body.split("(input,").nth(1).and_then(|s| s.split(")=enumerals(").next()).unwrap_or("").to_string();
            if rootvar.is_empty() || !calls[1].contains(&rootvar) || calls[1].chars().all(|ch| ch.is_ascii_digit()) {
                ctx.violate("C14.start", "additions-continue-after-root", &b.file, b.line,
                    &format!("the numbering of the additions starts from `{}`: it must be derived from the root list so that additions never restart at a number the root already uses", calls[1]));
            }
        }
    }
    // ---- signed number parser ----
    if let Some(e) = anchor_fn(m, ctx, "C14.keep", None, "enumeral", Some("lexer::enumerated")) {
        ctx.oblige("C14.keep", "signed-number-parser", true);
        if !tok(&e.block).contains("opt(in_parentheses(skip_ws_and_comments(i128)))") {
            ctx.violate("C14.keep", "signed-number-parser", &e.file, e.line, "the enumeral number must be parsed with a signed parser (i128) inside parentheses, and be optional");
        }
    }
    // ---- emission ----
    if let Some(g) = anchor_fn(m, ctx, "C14.emit", Some("Rasn"), "format_enum_members", None) {
        let b = tok(&g.block);
        ctx.oblige("C14.emit", "discriminant", true);
        if !(b.contains("let index=Literal::i128_unsuffixed(e.index)") && b.contains("#name=#index,")) {
            ctx.violate("C14.emit", "discriminant", &g.file, g.line, "each variant must be emitted as `<name> = <e.index>` with e.index rendered by Literal::i128_unsuffixed");
        }
        ctx.oblige("C14.emit", "order", true);
        let chain: Vec<String> = model::method_calls_in(&g.block).iter().map(|m| m.method.to_string()).collect();
        for bad in ["filter", "filter_map", "rev", "skip", "take", "sort", "sort_by", "sort_by_key", "dedup", "step_by", "skip_while", "take_while"] {
            if chain.iter().any(|c| c == bad) {
                ctx.violate("C14.emit", &format!("order:{}", bad), &g.file, g.line, &format!("format_enum_members applies `{}` to the enumeral list: every enumeral must be emitted once, in source order", bad));
            }
        }
        if !b.contains("enumerated.members.iter().enumerate().map(") {
            ctx.violate("C14.emit", "order", &g.file, g.line, "format_enum_members must map over enumerated.members in order");
        }
    }
}
