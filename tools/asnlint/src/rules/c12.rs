//! C12 — modules compile independently of their neighbours; IMPORTS become use lines.
use crate::mir::{dominators, Facts};
use crate::model::{self, tok, Model};
use crate::quotex;
use crate::report::Ctx;
use crate::rules::util::*;
use crate::eval::{Env, Evaluator, Val};
use serde_json::json;
use std::collections::{BTreeMap, BTreeSet};

/// C12.qualified: "module-qualified references resolve to that module" — for a value inside a constraint the resolving step
/// is `ASN1Value::link_elsewhere_declared`. It is evaluated on the reference `max-b` and on its external form `ModB.max-b`
/// over a definitions table that holds the value: both must be replaced by the value. An arm that only takes the
/// unqualified spelling leaves `INTEGER (0..ModB.max-b)` with an unresolved bound, which the generators drop silently.
pub fn qualified_value(m: &Model, ctx: &mut Ctx, rule: &str) {
    let Some(f) = anchor_fn(m, ctx, rule, Some("ASN1Value"), "link_elsewhere_declared", None) else { return };
    let consts = const_resolver(m);
    let named = |n: &str, fields: Vec<(&str, Val)>| Val::Ctor(n.to_string(), vec![], fields.into_iter().map(|(k, v)| (k.to_string(), v)).collect::<BTreeMap<_, _>>());
    let value = |n: &str, v: Val| Val::Ctor("Value".into(), vec![named("ToplevelValueDefinition", vec![("name", Val::Str(n.into())), ("value", v)])], BTreeMap::new());
    let mut tlds = crate::eval::new_map();
    tlds = crate::eval::map_insert(tlds, Val::Str("max-b".into()), value("max-b", Val::Ctor("Integer".into(), vec![Val::int(5)], BTreeMap::new())));
    let mut inl = inline_all(m, &["ToplevelDefinition", "ASN1Value"]);
    inl.remove(".link_elsewhere_declared");
    let ev = Evaluator { consts: &consts, call_hook: &crate::eval::no_hook, inline: Some(&inl) };
    let params: Vec<String> = f.sig.inputs.iter().filter_map(|a| match a { syn::FnArg::Typed(t) => Some(tok(&t.pat)), _ => None }).collect();
    for (label, module) in [("max-b", Val::none()), ("ModB.max-b", Val::some(Val::Str("ModB".into())))] {
        ctx.oblige(rule, &format!("value-reference:{}", label), true);
        let mut env = Env::new();
        env.insert("self".into(), named("ElsewhereDeclaredValue", vec![("identifier", Val::Str("max-b".into())), ("parent", Val::none()), ("module", module)]));
        env.insert(params.first().cloned().unwrap_or("identifier".into()), Val::Str("T".into()));
        env.insert(params.get(1).cloned().unwrap_or("tlds".into()), tlds.clone());
        crate::eval::WHILE_BOUND.with(|b| b.set(64));
        let r = ev.eval_fn_body(&f.block, &mut env);
        crate::eval::WHILE_BOUND.with(|b| b.set(10_000));
        match r {
            Ok(Val::Ctor(ok, _, _)) if ok == "Ok" => {
                let now = env.get("self").map(|v| v.show()).unwrap_or_default();
                if now != "Integer(5)" {
                    ctx.violate(rule, &format!("unresolved:{}", if label.contains('.') { "qualified" } else { "plain" }), &f.file, f.line,
                        &format!("link_elsewhere_declared leaves the bound `{}` of `T ::= INTEGER (0..{})` as `{}` although `max-b INTEGER ::= 5` is among the definitions: the reference is not resolved, and an unresolved bound is dropped from the bindings without a warning (`value(\"0..\")`, type `Integer` instead of `u8`)", label, label, now.chars().take(100).collect::<String>()));
                }
            }
            Ok(o) => ctx.fail_closed(rule, &format!("[{}]: {}", label, o.show().chars().take(100).collect::<String>())),
            Err(e) => ctx.fail_closed(rule, &format!("[{}]: {}", label, e)),
        }
    }
}

/// C12.chain: a value of an imported type that is itself a reference (`Ty2 ::= Ty1` in the exporting module, `IMPORTS Ty2`
/// and `uval Ty2 ::= 0` in the importing one) is rendered by wrapping the literal in every type of the chain:
/// `Ty2(Ty1(0))`. value_to_tokens is evaluated on such a value: the chain's types are written as bare names. The importing
/// module imports what its IMPORTS clause names (plus the governing types of imported *values*): unless the code that
/// extends a module's import list looks at the reference chains of values, `Ty1` is not in scope there.
pub fn alias_chain_imports(m: &Model, ctx: &mut Ctx, rule: &str) {
    let Some(vt) = anchor_fn(m, ctx, rule, Some("Rasn"), "value_to_tokens", None) else { return };
    ctx.oblige(rule, "chain-types-in-scope", true);
    let consts = const_resolver(m);
    let hook = |_: &Evaluator, name: &str, a: &[Val]| -> Option<Result<Val, String>> {
        match name {
            ".to_rust_title_case" => a.get(1).map(|v| Ok(Val::Sym(match v { Val::Str(s) | Val::Sym(s) => s.clone(), o => o.show() }))),
            _ => None,
        }
    };
    let mut inl = inline_all(m, &["Rasn"]);
    inl.retain(|k, _| k == ".value_to_tokens");
    let ev = Evaluator { consts: &consts, call_hook: &hook, inline: Some(&inl) };
    let ps: Vec<String> = vt.sig.inputs.iter().filter_map(|a| match a { syn::FnArg::Typed(t) => Some(tok(&t.pat)), _ => None }).collect();
    let named = |n: &str, fields: Vec<(&str, Val)>| Val::Ctor(n.to_string(), vec![], fields.into_iter().map(|(k, v)| (k.to_string(), v)).collect::<BTreeMap<_, _>>());
    let value = named("LinkedNestedValue", vec![("supertypes", Val::List(vec![Val::Str("Ty2".into()), Val::Str("Ty1".into())])), ("value", named("LinkedIntValue", vec![("integer_type", Val::ctor("Uint16")), ("value", Val::int(0))]))]);
    let mut env = Env::new();
    env.insert("self".into(), Val::ctor("Rasn"));
    env.insert(ps.first().cloned().unwrap_or("value".into()), value);
    env.insert(ps.get(1).cloned().unwrap_or("type_name".into()), Val::none());
    let text = match ev.eval_fn_body(&vt.block, &mut env) {
        Ok(Val::Ctor(ok, p, _)) if ok == "Ok" => p.first().map(|v| match v { Val::Sym(s) | Val::Str(s) => s.clone(), o => o.show() }).unwrap_or_default(),
        Ok(o) => { ctx.fail_closed(rule, &format!("value_to_tokens on a chained value: {}", o.show().chars().take(100).collect::<String>())); return; }
        Err(e) => { ctx.fail_closed(rule, &format!("value_to_tokens on a chained value: {}", e)); return; }
    };
    let bare = text.contains("Ty1") && !text.contains("::Ty1") && !text.contains(":: Ty1");
    // who extends a module's import list, and does any of them look at reference chains?
    let importers: Vec<&crate::model::FnInfo> = m.fns.iter().filter(|f| f.module.starts_with("validator") && tok(&f.block).contains("Import{")).collect();
    let chain_aware = importers.iter().any(|f| { let b = tok(&f.block); b.contains("supertypes") || b.contains("LinkedNestedValue") })
        || m.fns.iter().any(|f| f.module.starts_with("validator") && { let b = tok(&f.block); (b.contains("supertypes") || b.contains("LinkedNestedValue")) && (b.contains("associated_import_type(") || b.contains("imports.push")) });
    if bare && !chain_aware {
        ctx.violate(rule, "alias-chain-not-imported", &vt.file, vt.line,
            &format!("a value whose governing type is reached through a chain of type references is rendered `{}` — every type of the chain by its bare name — and nothing that extends a module's imports ({}) looks at those chains: `IMPORTS Ty2 FROM A;  uval Ty2 ::= 0` with `Ty2 ::= Ty1` in A emits `Ty2(Ty1(0))` into a module that imports only Ty2 (E0425); the same for a DEFAULT of a component of type Ty2", text, importers.iter().map(|f| f.name.clone()).collect::<Vec<_>>().join(", ")));
    }
}

pub fn run(m: &Model, ctx: &mut Ctx, facts: &Facts) {
    ctx.explanation = "C12.reset (MIR def-use + dominators): for every Backend impl, each field of the backend struct whose type is one of ModuleHeader's environment enums \
(per-module state) must be assigned in generate_module from the corresponding field of the current module's header, and that assignment must dominate every call in generate_module \
that can reach a reader of the field (callees resolved through the MIR call graph, closures included) — so no default leaks from the previously generated module. \
No backend struct field has interior mutability and generate_module is the only &mut self method of a backend. \
C12.header (syn): internal_compile applies the tagging pass with, and attaches, the same header to each definition, and groups definitions by that header's name. \
C12.imports (syn): one `use super::<snake(module)>::{..}` per import with const-case for value references and title-case for type references; \
module-qualified references render `super::<snake(module)>::<Title>` through the same manglers; the TypeScript analog `import X = NS.X`. \
Equality of the per-module output between two different compilations is not computed.".into();
    qualified_value(m, ctx, "C12.qualified");
    alias_chain_imports(m, ctx, "C12.chain");
    ctx.assumptions = vec![
        "MIR dominators over the non-unwind CFG; field names resolved from ADT definitions by the driver".into(),
        "all definitions of one module share one header (Rc) — established in internal_compile (C12.header)".into(),
    ];
    ctx.rule("per backend: env-typed fields x {assigned from header, assignment dominates readers}; import template shapes and mangler pairing");

    // ---- environment enum types of ModuleHeader ----
    let header = match m.find_struct("ModuleHeader", Some("intermediate")) {
        Ok(h) => h,
        Err(e) => {
            ctx.fail_closed("C12.reset", &e);
            return;
        }
    };
    let local_enums: BTreeSet<String> = m.enums.iter().map(|e| e.name.clone()).collect();
    let env_fields: Vec<(String, String)> = header.fields.iter().filter(|(_, t, _)| local_enums.contains(t)).map(|(n, t, _)| (n.clone(), t.clone())).collect();
    ctx.floor("C12.reset/header-environment-fields", env_fields.len(), 2);

    // ---- backends ----
    let gms: Vec<usize> = facts.find(|b| b.impl_trait.ends_with("Backend") && b.name() == "generate_module");
    ctx.floor("C12.reset/backends", gms.len(), 2);
    let mut state_fields_total = 0;
    for gi in gms {
        let g = &facts.bodies[gi];
        ctx.func(&g.path);
        let bname = g.self_ty.rsplit("::").next().unwrap_or("").to_string();
        let st = match m.find_struct(&bname, Some("generator")) {
            Ok(s) => s,
            Err(e) => {
                ctx.fail_closed("C12.reset", &e);
                continue;
            }
        };
        // interior mutability in the backend struct
        for (fname, fty, _) in &st.fields {
            ctx.oblige("C12.reset/no-interior-mutability", &format!("{}.{}", bname, fname), true);
            if ["RefCell", "Cell<", "Mutex", "RwLock", "Atomic", "OnceCell", "OnceLock"].iter().any(|x| fty.contains(x)) {
                ctx.violate("C12.reset", &format!("interior-mutable-backend-field:{}.{}", bname, fname), &st.file, st.line,
                    &format!("backend field {}.{}: {} can carry state from one module (or compilation) into the next behind &self", bname, fname, fty));
            }
        }
        // &mut self methods of the backend other than generate_module
        for b in facts.bodies.iter().filter(|b| b.self_ty == g.self_ty && b.kind == "AssocFn") {
            let writes: Vec<&String> = b.blocks.iter().flat_map(|bl| bl.st.iter()).filter(|(_, k, f, _, _)| *k == 'w' && f.starts_with(&format!("{}.", bname))).map(|(_, _, f, _, _)| f).collect();
            if !writes.is_empty() && b.name() != "generate_module" {
                ctx.violate("C12.reset", &format!("state-written-outside-generate_module:{}::{}", bname, b.name()), &b.file, b.line,
                    &format!("`{}` writes backend state {:?}; per-module state must be (re)initialised in generate_module only", b.path, writes));
            }
        }
        let (reach, _) = facts.reachable(&[gi]);
        let dom = dominators(g);
        for (fname, fty, _) in &st.fields {
            let Some((hfield, _)) = env_fields.iter().find(|(_, t)| t == fty) else { continue };
            state_fields_total += 1;
            let chain = format!("{}.{}", bname, fname);
            ctx.oblige("C12.reset", &chain, true);
            // (1) assignment in generate_module from the header
            let mut wblocks = vec![];
            for (bi, bl) in g.blocks.iter().enumerate() {
                for (_, k, f, src, line) in &bl.st {
                    if *k == 'w' && *f == chain {
                        wblocks.push((bi, src.clone(), *line));
                    }
                }
            }
            if wblocks.is_empty() {
                ctx.violate("C12.reset", &format!("not-reset:{}", chain), &g.file, g.line,
                    &format!("generate_module never assigns {}: the {} of the previously generated module (or the constructor default) leaks into this module", chain, fty));
                continue;
            }
            let want_src = format!("ModuleHeader.{}", hfield);
            for (_, src, line) in &wblocks {
                if !src.contains(&want_src) {
                    ctx.violate("C12.reset", &format!("not-from-header:{}", chain), &g.file, *line,
                        &format!("{} is assigned from `{}`, not from the current module's header field {}", chain, src, want_src));
                }
            }
            // (2) dominance over every call that can reach a reader
            let readers: BTreeSet<usize> = reach
                .iter()
                .cloned()
                .filter(|i| facts.bodies[*i].blocks.iter().any(|bl| bl.st.iter().any(|(_, k, f, _, _)| *k == 'r' && f.split('/').any(|c| c == chain))))
                .collect();
            ctx.extra.insert(format!("readers_of_{}", chain), json!(readers.iter().map(|i| facts.bodies[*i].path.clone()).collect::<Vec<_>>()));
            if readers.is_empty() {
                ctx.notes.push(format!("{} has no reader reachable from generate_module", chain));
            }
            let g_closures: Vec<usize> = g.closures.iter().filter_map(|c| facts.resolve_callee(&g.krate, c, "")).collect();
            let mut uses = 0;
            for (ci, bl) in g.blocks.iter().enumerate() {
                if bl.t != "call" || bl.cleanup {
                    continue;
                }
                let mut targets: Vec<usize> = vec![];
                if let Some(t) = facts.resolve_callee(&g.krate, &bl.callee, &bl.callee_crate) {
                    targets.push(t);
                }
                for a in bl.args.iter().filter(|a| a.contains("{closure@")) {
                    // `{closure@<file>:<line>:<col>: ..}` -> the closure body defined at that line
                    let loc = a.split("{closure@").nth(1).unwrap_or("");
                    let mut parts = loc.split(':');
                    let file = parts.next().unwrap_or("");
                    let line: usize = parts.next().and_then(|l| l.trim().parse().ok()).unwrap_or(0);
                    let matched: Vec<usize> = g_closures.iter().cloned().filter(|c| facts.bodies[*c].line == line && (file.ends_with(&facts.bodies[*c].file) || facts.bodies[*c].file.ends_with(file))).collect();
                    if matched.is_empty() {
                        targets.extend(g_closures.iter().cloned());
                    } else {
                        targets.extend(matched);
                    }
                }
                if targets.is_empty() {
                    continue;
                }
                let (r2, _) = facts.reachable(&targets);
                if r2.intersection(&readers).next().is_none() {
                    continue;
                }
                uses += 1;
                let dominated = wblocks.iter().any(|(wb, _, _)| dom[ci].contains(wb));
                if !dominated {
                    ctx.violate("C12.reset", &format!("use-before-reset:{}", chain), &g.file, bl.line,
                        &format!("the call to `{}` at line {} can read {} but is not dominated by its assignment from the module header: on some path the previous module's value is used", bl.callee, bl.line, chain));
                }
            }
            // direct reads in generate_module
            for (ci, bl) in g.blocks.iter().enumerate() {
                if bl.st.iter().any(|(_, k, f, _, _)| *k == 'r' && f.split('/').any(|c| c == chain)) {
                    uses += 1;
                    if !wblocks.iter().any(|(wb, _, _)| dom[ci].contains(wb) || *wb == ci) {
                        ctx.violate("C12.reset", &format!("use-before-reset:{}", chain), &g.file, bl.line, &format!("{} is read in generate_module before it is reset from the header", chain));
                    }
                }
            }
            ctx.sample(json!({"backend_field": chain, "assigned_from": wblocks.iter().map(|w| w.1.clone()).collect::<Vec<_>>(), "reader_fns": readers.len(), "dominated_uses": uses}));
            if uses == 0 && !readers.is_empty() {
                ctx.fail_closed("C12.reset", &format!("{}: readers exist but no call in generate_module was found to reach them", chain));
            }
        }
    }
    ctx.floor("C12.reset/per-module-state-fields", state_fields_total, 2);

    crate::rules::c03::header_flow(m, ctx, "C12.header");
    grouping(m, ctx);
    imports(m, ctx);
    associated_imports(m, ctx);
    qualified(m, ctx, "C12.qualified");
    // C12.scope (= C09.scope): a named number in a constraint is looked up in the governing type (and the chain of type
    // references behind it) — a lookup that reaches past it searches the definitions of *every* module compiled alongside
    super::c09::scope(m, ctx, "C12.scope");
    // an associated import is attributed to the module that *defines* the type (associated_import_type builds it that way);
    // nothing in the validator re-attributes an import afterwards
    {
        let mut n = 0;
        for f in m.fns.iter().filter(|f| f.krate == "rasn-compiler" && f.module.starts_with("validator")) {
            struct A { out: Vec<(String, usize)> }
            impl model::DeepCb for A {
                fn expr(&mut self, e: &syn::Expr) {
                    if let syn::Expr::Assign(a) = e {
                        let l = tok(&a.left);
                        if l.ends_with(".global_module_reference") || l.ends_with(".module_reference") {
                            self.out.push((l, model::line_of(syn::spanned::Spanned::span(a))));
                        }
                    }
                }
            }
            let mut a = A { out: vec![] };
            model::deep_walk_block(&f.block, &mut a);
            for (l, line) in a.out {
                n += 1;
                ctx.violate("C12.assoc", &format!("import-reattributed:{}", f.name), &f.file, line,
                    &format!("{} assigns `{}`: an import added for the governing type of an imported value names the module that defines the type; re-attributing it to the clause the value came through yields `use super::<other module>::Type`, which does not exist there", f.name, l));
            }
        }
        ctx.oblige("C12.assoc", "import-attribution-written-once", true);
        let _ = n;
    }
    // C12.imports:parser — "each IMPORTS clause becomes a use declaration" presupposes that the clause is read whatever its
    // layout: the token-boundary analysis of C13 is run and its reports for the module-header parsers are taken over
    {
        let mut sub = Ctx::new("C13", "quick", &ctx.verif);
        super::c13::run(m, &mut sub);
        let mut n = 0;
        for v in sub.violations.iter().filter(|v| (v.rule == "C13.boundary" || v.rule == "C13.mandatory" || v.rule == "C13.words") && (v.key.contains("lexer::module_header") || v.file.ends_with("lexer/module_header.rs"))) {
            // recorded C13 findings are C13's business; here only what C13 would report as new
            if v.key.starts_with("finding:") {
                continue;
            }
            n += 1;
            ctx.violate("C12.imports", &format!("parser:{}", v.key), &v.file, v.line, &format!("module header / IMPORTS parser: {}", v.msg));
        }
        ctx.oblige("C12.imports", "parser-boundaries", true);
        let _ = n;
    }
}

/// definitions are grouped back into modules by their own header's name
fn grouping(m: &Model, ctx: &mut Ctx) {
    let Some(f) = anchor_fn(m, ctx, "C12.header", None, "internal_compile", None) else { return };
    ctx.oblige("C12.header", "grouping-key", true);
    let body = tok(&f.block);
    if !(body.contains("get_module_header()") && body.contains("module.borrow().name.clone()")) {
        ctx.violate("C12.header", "grouping-key", &f.file, f.line,
            "internal_compile must group definitions by the name of their own module header (tld.get_module_header() .. name)");
    }
    ctx.oblige("C12.header", "one-generate_module-per-group", true);
    let gm: Vec<_> = model::method_calls_in(&f.block).into_iter().filter(|c| c.method == "generate_module").collect();
    if gm.len() != 1 {
        ctx.violate("C12.header", "one-generate_module-per-group", &f.file, f.line, &format!("expected exactly one generate_module call site in internal_compile, found {}", gm.len()));
    }
}

/// C12.assoc: besides the IMPORTS clauses as written, the linker adds the governing type of an imported value or class
/// field to the importing module's import list (Validator::associated_import_type). That addition is evaluated on the
/// three situations that matter: the type lives in another module and is not imported yet (added), is imported already
/// (not added twice), or is defined in the importing module itself (never added: `use super::<own module>::T` inside
/// the module that defines T is a second definition of the name).
/// C12.assoc (merge): the imports found by associated_import_type are merged into the header of the importing module by the
/// loop over `associated_type_imports` in fill_in_associated_type_imports: a type of a module that is imported from already
/// joins that clause (once), a type of a module that is not imported from yet gets a clause of its own. The loop body is
/// evaluated import by import, the header it borrows mutably being handed from one round to the next.
fn associated_imports_merge(m: &Model, ctx: &mut Ctx) {
    let rule = "C12.assoc";
    let Some(f) = m.fns.iter().find(|f| f.self_ty.as_deref() == Some("Validator") && f.krate == "rasn-compiler" && model::method_calls_in(&f.block).iter().any(|mc| mc.method == "associated_import_type") && f.name != "associated_import_type" && f.name != "associated_import_type_class_field") else {
        ctx.fail_closed(rule, "anchor not found: the caller of associated_import_type");
        return;
    };
    struct Loops { out: Vec<syn::ExprForLoop> }
    impl model::DeepCb for Loops {
        fn expr(&mut self, e: &syn::Expr) {
            if let syn::Expr::ForLoop(fl) = e {
                if tok(&fl.expr).contains("associated_type_imports") {
                    self.out.push(fl.clone());
                }
            }
        }
    }
    let mut lp = Loops { out: vec![] };
    model::deep_walk_block(&f.block, &mut lp);
    let Some(fl) = lp.out.first() else {
        ctx.fail_closed(rule, &format!("{}: no loop over the associated imports", f.name));
        return;
    };
    let consts = const_resolver(m);
    let named = |n: &str, fields: Vec<(&str, Val)>| Val::Ctor(n.to_string(), vec![], fields.into_iter().map(|(k, v)| (k.to_string(), v)).collect::<BTreeMap<_, _>>());
    let gmr = |module: &str| named("GlobalModuleReference", vec![("module_reference", Val::Str(module.into())), ("assigned_identifier", Val::ctor("Empty"))]);
    let import = |module: &str, types: &[&str]| named("Import", vec![("types", Val::List(types.iter().map(|t| Val::Str(t.to_string())).collect())), ("global_module_reference", gmr(module)), ("with", Val::none())]);
    let header = std::cell::RefCell::new(named("ModuleHeader", vec![("name", Val::Str("Alpha".into())), ("imports", Val::List(vec![import("Beta", &["X"]), import("Delta", &["Y"])]))]));
    let hook = |_: &Evaluator, name: &str, a: &[Val]| -> Option<Result<Val, String>> {
        match (name, a.first()) {
            (".borrow_mut", Some(Val::Opaque(s))) | (".borrow", Some(Val::Opaque(s))) if s == "header" => Some(Ok(header.borrow().clone())),
            (".not", Some(Val::Bool(b))) => Some(Ok(Val::Bool(!b))),
            _ => None,
        }
    };
    let ev = Evaluator { consts: &consts, call_hook: &hook, inline: None };
    let pat_name = tok(&fl.pat).replace("mut ", "");
    // the name the loop body gives to the mutable borrow of the header
    struct Lets { out: Vec<String> }
    impl model::DeepCb for Lets {
        fn local(&mut self, l: &syn::Local) {
            if let Some(i) = &l.init {
                if tok(&i.expr).contains("borrow_mut") {
                    self.out.push(tok(&l.pat).replace("mut ", ""));
                }
            }
        }
    }
    let mut lets = Lets { out: vec![] };
    model::deep_walk_block(&fl.body, &mut lets);
    let Some(borrowed) = lets.out.first().cloned() else {
        ctx.fail_closed(rule, &format!("{}: the loop does not borrow the header mutably", f.name));
        return;
    };
    ctx.oblige(rule, "merge:joins-existing-clause", true);
    ctx.oblige(rule, "merge:new-clause", true);
    ctx.oblige(rule, "merge:no-duplicate", true);
    for imp in [import("Beta", &["Level"]), import("Gamma", &["Other"]), import("Beta", &["X"])] {
        let mut env = Env::new();
        env.insert("module_header".into(), Val::Opaque("header".into()));
        env.insert(pat_name.clone(), imp);
        match ev.eval_block(&fl.body, &mut env) {
            Ok(_) => match env.get(&borrowed) {
                Some(h) => *header.borrow_mut() = h.clone(),
                None => {
                    ctx.fail_closed(rule, &format!("{}: the mutable borrow `{}` is not visible after the loop body", f.name, borrowed));
                    return;
                }
            },
            Err(e) => {
                ctx.fail_closed(rule, &format!("[merge of associated imports]: {}", e));
                return;
            }
        }
    }
    let got: Vec<(String, Vec<String>)> = match &*header.borrow() {
        Val::Ctor(_, _, fl) => match fl.get("imports") {
            Some(Val::List(l)) => l.iter().map(|i| match i {
                Val::Ctor(_, _, f2) => (
                    match f2.get("global_module_reference") { Some(Val::Ctor(_, _, g)) => g.get("module_reference").map(|v| v.show().trim_matches('"').to_string()).unwrap_or_default(), _ => String::new() },
                    match f2.get("types") { Some(Val::List(t)) => t.iter().map(|v| v.show().trim_matches('"').to_string()).collect(), _ => vec![] },
                ),
                o => (o.show(), vec![]),
            }).collect(),
            _ => vec![],
        },
        _ => vec![],
    };
    let want: Vec<(String, Vec<String>)> = vec![("Beta".into(), vec!["X".into(), "Level".into()]), ("Delta".into(), vec!["Y".into()]), ("Gamma".into(), vec!["Other".into()])];
    if got != want {
        let key = if !got.iter().any(|(m2, _)| m2 == "Gamma") { "merge:new-clause" } else if got.iter().any(|(m2, t)| m2 == "Beta" && t.iter().filter(|x| *x == "X").count() > 1) { "merge:no-duplicate" } else { "merge:joins-existing-clause" };
        ctx.violate(rule, key, &f.file, crate::rules::util::span_line(fl),
            &format!("module Alpha imports X from Beta and Y from Delta; the linker finds that it also needs Level (of Beta), Other (of Gamma) and X (of Beta, again): afterwards its imports are {:?}, expected {:?} — a governing type that is not imported is named by the bindings of Alpha without a use line (or is attributed to the wrong sibling module)", got, want));
    }
}

fn associated_imports(m: &Model, ctx: &mut Ctx) {
    associated_imports_merge(m, ctx);
    let Some(f) = anchor_fn(m, ctx, "C12.assoc", Some("Validator"), "associated_import_type", None) else { return };
    let consts = const_resolver(m);
    let params: Vec<String> = f.sig.inputs.iter().filter_map(|a| match a { syn::FnArg::Typed(t) => Some(tok(&t.pat)), _ => None }).collect();
    if params.len() != 3 {
        ctx.fail_closed("C12.assoc", "associated_import_type: expected (associated_type, module_header, associated_type_imports)");
        return;
    }
    let header = |name: &str, imported: bool| {
        let mut h = BTreeMap::new();
        h.insert("name".to_string(), Val::Str(name.into()));
        h.insert("module_identifier".to_string(), Val::none());
        // the IMPORTS of the module: near misses of the governing type's name (a proper prefix, an extension) are always
        // there — whether `Level` is imported is a question about that symbol, not about the spelling of its neighbours
        let import = |types: &[&str]| {
            let mut i = BTreeMap::new();
            i.insert("types".to_string(), Val::List(types.iter().map(|t| Val::Str((*t).into())).collect()));
            i.insert("global_module_reference".to_string(), Val::Opaque("module".into()));
            i.insert("with".to_string(), Val::none());
            Val::Ctor("Import".into(), vec![], i)
        };
        h.insert("imports".to_string(), Val::List(if imported { vec![import(&["X"]), import(&["Lev", "Level", "Levels"])] } else { vec![import(&["X", "Lev"]), import(&["Levels", "level"])] }));
        Val::Ctor("ModuleHeader".into(), vec![], h)
    };
    // ModuleHeader::find_import is the crate's own (evaluated, not modelled)
    let find_import = m.fns.iter().find(|g| g.name == "find_import" && g.self_ty.as_deref() == Some("ModuleHeader"));
    if find_import.is_none() {
        ctx.fail_closed("C12.assoc", "anchor not found: ModuleHeader::find_import");
        return;
    }
    for (what, type_module, already, want_added) in [
        ("type of another module, not imported yet", "Beta", false, true),
        ("type of another module, already imported", "Beta", true, false),
        ("type defined in the importing module itself", "Alpha", false, false),
        ("type defined in the importing module itself (and, impossibly, also imported)", "Alpha", true, false),
    ] {
        ctx.oblige("C12.assoc", what, true);
        let tm = type_module.to_string();
        let hook = move |_: &Evaluator, name: &str, a: &[Val]| -> Option<Result<Val, String>> {
            match name {
                ".get" if matches!(a.first(), Some(Val::Opaque(s)) if s == "tlds") => {
                    let mut t = BTreeMap::new();
                    t.insert("name".to_string(), Val::Str("Level".into()));
                    t.insert("parameterization".to_string(), Val::none());
                    let mut h = BTreeMap::new();
                    h.insert("name".to_string(), Val::Str(tm.clone()));
                    h.insert("module_identifier".to_string(), Val::none());
                    t.insert("module_header".to_string(), Val::some(Val::Ctor("ModuleHeader".into(), vec![], h)));
                    Some(Ok(Val::some(Val::Ctor("Type".into(), vec![Val::Ctor("ToplevelTypeDefinition".into(), vec![], t)], BTreeMap::new()))))
                }
                ".borrow" | ".borrow_mut" | ".as_ref" | ".clone" if a.len() == 1 => Some(Ok(a[0].clone())),
                _ => None,
            }
        };
        let mut inl: BTreeMap<String, (Vec<String>, syn::Block)> = BTreeMap::new();
        if let Some(g) = find_import {
            let ps: Vec<String> = g.sig.inputs.iter().filter_map(|a| match a { syn::FnArg::Typed(t) => Some(tok(&t.pat)), _ => None }).collect();
            inl.insert(".find_import".into(), (ps, g.block.clone()));
        }
        let ev = Evaluator { consts: &consts, call_hook: &hook, inline: Some(&inl) };
        let mut env = Env::new();
        let mut sv = BTreeMap::new();
        sv.insert("tlds".to_string(), Val::Opaque("tlds".into()));
        env.insert("self".into(), Val::Ctor("Validator".into(), vec![], sv));
        env.insert(params[0].clone(), Val::Str("Level".into()));
        env.insert(params[1].clone(), header("Alpha", already));
        env.insert(params[2].clone(), Val::List(vec![]));
        match ev.eval_fn_body(&f.block, &mut env) {
            Ok(_) => match env.get(&params[2]) {
                Some(Val::List(l)) => {
                    let added = !l.is_empty();
                    if added != want_added {
                        ctx.violate("C12.assoc", &format!("associated-import:{}", if type_module == "Alpha" { "own-module" } else if already { "already-imported" } else { "missing" }), &f.file, f.line,
                            &format!("associated_import_type, {}: the import list of module Alpha {} (expected: {})", what, if added { "gets a new entry" } else { "is left unchanged" }, if want_added { "one new entry" } else { "unchanged" }));
                    } else if added && l.len() != 1 {
                        ctx.violate("C12.assoc", "associated-import:count", &f.file, f.line, &format!("{}: {} entries added, expected exactly one", what, l.len()));
                    }
                }
                o => ctx.fail_closed("C12.assoc", &format!("[{}]: import list became {:?}", what, o.map(|x| x.show()))),
            },
            Err(e) => ctx.fail_closed("C12.assoc", &format!("[{}]: {}", what, e)),
        }
    }
    // every caller hands over the importing module's header unchanged
    let mut callers = 0;
    for g in m.fns.iter().filter(|g| g.self_ty.as_deref() == Some("Validator")) {
        for mc in model::method_calls_in(&g.block) {
            if mc.method == "associated_import_type" {
                callers += 1;
            }
        }
    }
    ctx.floor("C12.assoc/callers", callers, 2);
}

/// C12.qualified: "module-qualified references resolve to that module". Every place of the rasn generator that renders
/// a type reference (a DeclarationElsewhere binding `x`) goes through to_rust_qualified_type(x.module, x.identifier);
/// a site that renders `x.identifier` with a bare name mangler drops the `Module.` qualifier the source wrote.
pub fn qualified(m: &Model, ctx: &mut Ctx, rule: &str) {
    let mut sites = 0;
    for f in m.fns.iter().filter(|f| f.krate == "rasn-compiler" && f.module.starts_with("generator::rasn") && !f.module.contains("tests")) {
        for mc in model::method_calls_in(&f.block) {
            let name = mc.method.to_string();
            let args: Vec<String> = mc.args.iter().map(|a| tok(a)).collect();
            let ident_arg = args.iter().find(|a| a.starts_with('&') && a.ends_with(".identifier") && a[1..a.len() - ".identifier".len()].chars().all(|c| c.is_alphanumeric() || c == '_'));
            let Some(ia) = ident_arg else { continue };
            let x = ia[1..ia.len() - ".identifier".len()].to_string();
            let line = model::line_of(syn::spanned::Spanned::span(&mc));
            if name == "to_rust_qualified_type" {
                sites += 1;
                ctx.oblige(rule, &format!("{}:{}", f.name, x), true);
                if args.first().map(|a| a.as_str()) != Some(&format!("{}.module.as_deref()", x)) {
                    ctx.violate(rule, &format!("module-of-another-reference:{}", f.name), &f.file, line,
                        &format!("{} renders the reference `{}` with the module `{}`: the qualifier must be the one written on that reference (`{}.module`)", f.name, x, args.first().cloned().unwrap_or_default(), x));
                }
            } else if name.starts_with("to_rust_") {
                ctx.oblige(rule, &format!("{}:{}", f.name, x), true);
                ctx.violate(rule, &format!("qualifier-dropped:{}", f.name), &f.file, line,
                    &format!("{} renders the type reference `{}` with `{}(&{}.identifier)`: a reference written `Mod-B.Width` loses its module and resolves (or fails to resolve) in the current module instead of `super::mod_b::Width`; the sibling sites use to_rust_qualified_type({}.module.as_deref(), &{}.identifier)", f.name, x, name, x, x, x));
            }
        }
    }
    ctx.floor(&format!("{}/reference-rendering-sites", rule), sites, 4);
}

fn imports(m: &Model, ctx: &mut Ctx) {
    // ---- rasn: use line ----
    let gm = m.fns.iter().find(|f| f.name == "generate_module" && f.self_ty.as_deref() == Some("Rasn"));
    let Some(gm) = gm else {
        ctx.fail_closed("C12.imports", "anchor not found: Rasn::generate_module");
        return;
    };
    ctx.func(&gm.key);
    // the closure that renders one IMPORTS clause is evaluated (= C01.imports): `use super::<snake(module)>::{..}` with
    // every symbol through the mangler of its kind, or the wildcard
    crate::rules::c01::import_lists(m, ctx, "C12.imports");
    // the module's own `pub mod` name goes through the same mangler as the names it is imported under
    {
        let mut ok = false;
        for mc in model::method_calls_in(&gm.block) {
            if mc.method == "to_rust_snake_case" && mc.args.first().map(|a| { let t = tok(a); t.ends_with(".name") && !t.contains("import") }).unwrap_or(false) {
                ok = true;
            }
        }
        ctx.oblige("C12.imports", "rasn-own-module-mangler", true);
        if !ok {
            ctx.violate("C12.imports", "rasn-own-module-mangler", &gm.file, gm.line, "the module's own `pub mod` name must be to_rust_snake_case(<module>.name), the mangling its importers apply to the module reference");
        }
    }
    // ---- qualified references ----
    if let Some(f) = anchor_fn(m, ctx, "C12.imports", Some("Rasn"), "to_rust_qualified_type", None) {
        ctx.oblige("C12.imports", "qualified-type", true);
        let b = tok(&f.block);
        let qs = model::macros_named(&f.block, "quote");
        let shape_ok = qs.iter().any(|q| quotex::canon(&quotex::parse_quote_body(&q.tokens)).replace(' ', "") == "super::#module::#ty");
        if !(shape_ok && b.contains("let ty=self.to_rust_title_case(ty)") && b.contains("self.to_rust_snake_case(module)")) {
            ctx.violate("C12.imports", "qualified-type", &f.file, f.line,
                "a module-qualified type reference must render `super::<snake(module)>::<Title(type)>` with the manglers used for module names and type names");
        }
    }
    // ---- typescript ----
    let ts = m.fns.iter().find(|f| f.name == "generate_module" && f.self_ty.as_deref() == Some("Typescript"));
    match ts {
        None => ctx.fail_closed("C12.imports", "anchor not found: Typescript::generate_module"),
        Some(f) => {
            ctx.func(&f.key);
            ctx.oblige("C12.imports", "ts-import-template", true);
            let b = tok(&f.block);
            if !b.contains(&model::norm_tokens("\"import {jer_identifier} = {import_namespace}.{jer_identifier};\"")) {
                ctx.violate("C12.imports", "ts-import-template", &f.file, f.line, "the TypeScript import alias must be `import X = NS.X;` with the same identifier on both sides");
            }
            ctx.oblige("C12.imports", "ts-import-manglers", true);
            if !(b.contains("let import_namespace=to_jer_identifier(&import.global_module_reference.module_reference)") && b.contains("let jer_identifier=to_jer_identifier(usage)") && b.contains("let namespace=to_jer_identifier(&module.name)")) {
                ctx.violate("C12.imports", "ts-import-manglers", &f.file, f.line, "namespace, imported namespace and imported symbol must all be mangled by to_jer_identifier");
            }
        }
    }
}
